#!/usr/bin/env python3
"""Generates /verif/MANIFEST.json from the table below (run after changing it)."""
import json, subprocess

HOOK_COMMITS = ["0372d2b"]

RACE = "Go race detector (-race build)"
C = {}
def chk(pid, cat, technique, text, note, ref):
    C[pid] = dict(cat=cat, technique=technique, text=text, note=note, ref=ref)

chk("C01", "exploration", "runtime monitoring: differential monitor (handler snapshots vs reference model) over a simulated master",
    "Real Streamer.Stream() runs over TCP against a simulated master serving generated RBR histories built by an independent encoder; the handler's deep snapshots are compared field by field with a separately coded reference model for every history x 24 configuration combos x start positions. Holds on the executions produced; reach comes from generator diversity (all column types/metadata, NULL/absent classes, v1/v2, 4/6-byte ids, GTID, CRC).",
    "Trusts the Go standard library (strconv, time, hash/crc32), the MySQL wire formats as documented (DESIGN Appendix A), the harness encoders (cross-checked against captured server bytes) and the simulated master's mysql_binlog_send behaviour.", "§5 C01")
chk("C02", "exploration", "runtime monitoring: trace oracles (grouping vs model, id conservation ledger, not-before-commit order) over exhaustive unit sequences",
    "Every sequence of <=3 (thorough <=4) binlog units over the 13-kind alphabet is streamed through the real Streamer; monitors check grouping against the model, conservation of unique change ids (exactly once, rolled-back never), that each handler entry follows the sending of its commit event (logical clock), all 352 keyword casings, and a metamorphic run with ignorable units inserted at every gap.",
    "Unknown statements never start with a recognised keyword; DDL never inside BEGIN..COMMIT; autocommitted row change = one table map + one rows event. Exhaustive only up to the stated sequence length.", "§5 C02")
chk("C03", "exploration", "runtime monitoring: label chain oracle + behavioural resume oracle on a simulated master that rejects non-boundary positions",
    "Multi-file histories (rotations everywhere, offsets around 2^31 and 2^32, per-file configuration) are streamed; labels are compared with the model and an independent chain rule, and a FRESH streamer is started at the end label of every delivered transaction: the master must find the position on an event boundary and the deliveries must equal the remaining transactions with identical contents and labels.",
    "The simulated master answers a dump at a non-boundary offset with ERR 1236 like a real server. When a rotate lies between two transactions the label checked is the rotate target (as the statement says); resume is checked behaviourally.", "§5 C03")
chk("C04", "fault_enumeration", "runtime monitoring: exactly-once ledger over recorded attempt chains + dump-request oracle, faults injected at every packet index",
    "For each small history every packet index x 23 packet fault kinds (incl. well-formed rows events with an undecodable cell and header-only events that pass the validity test), every transaction x {handler error, in-handler cancel}, mapper failures, x pacing {far-ahead, lock-step}, followed by 0..2 more failed attempts and a clean one, all on ONE streamer. The ledger demands that the handler accepts deliveries 0..T-1 exactly once and in order; the position oracle checks every COM_BINLOG_DUMP the master receives.",
    "Accepted = handler returned nil. Persistent faults (in the store) are not used. Schedules are sampled (two pacings), fault points are enumerated.", "§5 C04")
chk("C05", "fault_enumeration", "runtime monitoring: quiescent-stuck rule on goroutine dumps, leftover-goroutine and socket monitors, handler guard, schedule perturbation through a slow user-supplied logger, " + RACE,
    "Stop cause x stop point (every packet index) x reader state (observed: waiting for the network / holding an event) x handler {fast, slow, blocked} under -race with GOMAXPROCS 1/2/4/16. Monitors: Stream and first/second Error() under the quiescent-stuck rule (two goroutine-dump samples 600 ms apart, all library goroutines parked on channel operations or on a socket the master will never write), library goroutines after quiescence, client socket Close, handler in-flight/streamActive guard, every race-detector report classified by the innermost library frames of both stacks.",
    "Bounded time is decided as not-stuck-at-quiescence (safety restatement). Race freedom = no detector report on these executions. Error() is only called after Stream returned. The race between the driver's Close and the reader is a recorded known finding (known_findings.txt).", "§5 C05")
chk("C06", "fault_enumeration", "runtime monitoring: return-value oracle (three implications of the statement) over the enumerated stop scenarios",
    "The C05 scenario family plus ERR packets with arbitrary code/message: (i) a handler/decode/table-lookup failure the parser reached => Stream != nil; (ii) Stream == nil and Error() == nil => the cause was cancellation or EOF; (iii) Stream == nil after ERR(code,msg) => msg is contained in Error(). Error() is called immediately or after quiescence; in a third of the runs the caller cancels its context between Stream's return and Error() (what ended the stream does not change by that); plus streams ended by the master before a near context deadline with Error() asked after the deadline.",
    "Only the implications of the statement are demanded (nothing about the other direction). When cancel and a master-side failure are both in flight either outcome is accepted.", "§5 C06")
chk("C07", "exploration", "runtime monitoring: command-log oracle on the simulated master (every COM_QUERY / COM_BINLOG_DUMP decoded)",
    "For server ids incl. >= 2^31, file names of 1..255 bytes (UTF-8, spaces, dots), offsets 4..2^32-1 and sequences of 1..4 attempts with SetBinlogPosition or the stored position: SET @master_binlog_checksum precedes the dump, exactly one blocking dump per connection and one connection per Stream, with the configured server id, file bytes and uint32 offset; after a complete stream the next attempt requests the stored resume position.",
    "Queries the driver itself issues while connecting are ignored. Offsets are chosen so that offset bytes differ from server-id bytes (swaps are visible).", "§5 C07")
chk("C08", "exploration", "runtime monitoring: snapshot/compare, address-overlap and scribble monitors on retained deliveries, " + RACE,
    "Every delivered transaction is retained; at every later delivery and after quiescence it is compared with its deep snapshot; address ranges of all delivered values are checked for overlap; a scribbling handler XORs every byte of every value one at a time and all later deliveries plus a second stream in the same process are compared with the model. Packet sizes around the driver's 4096-byte buffer, chunked transport reads, master far ahead, slow handler; half of the processes under -race (handler-vs-library reports count).",
    "Only bytes [0,len) are written or compared ([len,cap) legitimately covers neighbours inside one event buffer).", "§5 C08")
chk("C09", "exploration", "runtime monitoring: differential monitor on BinlogEvent.Rows + column-by-column CellBytes walk vs the independent encoder's sizes",
    "Rows events from the independent encoder over every type's full metadata domain, presence/NULL bitmaps (all 2^n for n<=6), 0..R rows, write/update/delete, v1/v2, extra-data lengths, up to 300 columns: row count, image bytes, bitmaps, flags, and the CellBytes walk must consume each image exactly with per-cell sizes equal to the encoder's.",
    "Only metadata MySQL can emit is generated; images with zero present columns are never generated.", "§5 C09")
chk("C10", "exploration", "runtime monitoring: reference-model monitor on CellBytes (exhaustive 8/16/24-bit, full 32-bit in thorough)",
    "All 2^8, 2^16, 2^24 values x both signedness (exhaustive, both tiers), full 2^32 x 2 in thorough, boundary+random 64-bit; float32/float64 classes must print exponent-free and parse back to identical bits; all YEAR bytes, BIT(1..64), ENUM/SET widths.",
    "Expected text from strconv on arithmetically derived values; NaN/Inf not generated.", "§5 C10")
chk("C11", "exploration", "runtime monitoring: reference-model monitor on CellBytes for all 1580 (p,s) pairs with an independent decimal2bin",
    "All valid (p,s) x digit-string classes (zeros, low digit, each 9-digit group zero/non-zero, nines, random) x sign; text must equal the canonical text built from the digit string, be non-empty, and the consumed length must equal decimal_bin_size.",
    "Negative zero not generated. Own decimal2bin cross-checked against math/big and decimal.c vectors.", "§5 C11")
chk("C12", "exploration", "runtime monitoring: reference-model monitor on CellBytes, exhaustive 3-byte encodings, child processes under 5 TZ values plus one that sets time.Local itself after start",
    "All valid raw values of DATE, old TIME and TIME2(0) (exhaustive by logical field walk), fsp 0..6 x boundary/carry/random for TIME2/DATETIME2/TIMESTAMP2 with both TIME signs, old DATETIME/TIMESTAMP; TIMESTAMP text compared with time.Unix(sec).In(TZ) in five zones incl. DST edges.",
    "Shares the Go time package with the code under test. Zero timestamp only with zero fraction.", "§5 C12")
chk("C13", "exploration", "runtime monitoring: reference-model monitor on CellBytes for every declared length + end-to-end NULL/empty/absent monitor through the streamer",
    "VARCHAR/VAR_STRING max 0..65535 (all), CHAR/BINARY 0..1023 (all), blob/geometry prefix 1..4 with actual lengths {0,1,255,256,max}+random and hostile content: bytes verbatim, consumed = prefix+len; streamed tables of 1..17 columns with NULL / empty / absent in every position for before and after images.",
    "JSON columns are C14's.", "§5 C13")
chk("C14", "exploration", "runtime monitoring: round-trip monitor — independent binary-JSON writer, library output parsed back into a tree and compared",
    "Recursive generator (depth<=6, fan-out<=40) plus specials (70 000-element array, >64KB keys, width boundaries of every integer type, both signs of opaque TIME, opaque DECIMAL over all (p,s)); every document in default and all-large layout through CellBytes(TypeJSON, prefix 1..4).",
    "Keys/strings contain no quote characters (the property's own restriction). Writer cross-checked against the captured vectors in the repository's tests.", "§5 C14")
chk("C15", "exploration", "runtime monitoring: differential monitor on TableMap/TableID + end-to-end attribution monitor (mapper call log, model comparison)",
    "Table-map events for schemas of 1..600 columns, names 1..255 bytes, all nullability classes, 4/6-byte ids, optional-metadata blocks; streamed histories with interleaved ids, re-announcements with changed types, unused ids; mapper lookups must name announced tables; a mapper column count +-1 must make Stream fail without delivering that table's rows.",
    "An id is never re-announced under a different table name.", "§5 C15")
chk("C16", "exploration", "runtime monitoring: differential monitor on header accessors and control events, checksum-equivalence metamorphic check",
    "Header fields, format description (versions 0..50 bytes, 27..255 header sizes), rotate (64-bit positions), query for all 2^18 in-order subsets of status variables (thorough), int-var, rand, XID; every event decoded plain and with CRC32 after StripChecksum must agree; both event wrappers; Undef behaves as off.",
    "Status variables are only emitted in the server's order; Q_CATALOG (code 2) never emitted.", "§5 C16")
chk("C17", "fault_enumeration", "runtime monitoring: reference-predicate monitor on IsValid/accessors + gate-rejected packet injected at every packet index with resume oracle",
    "IsValid vs `len>=19 && le32(buf[9:13])==len` on structured classes (lengths 0..64 exhaustive), random buffers, every generated event truncated at every length and extended; accepted buffers must survive every header accessor. Streamer half: a gate-rejected packet at every index => Stream != nil, no panic, deliveries = model prefix, next attempt resumes at the last accepted commit boundary and delivers the rest.",
    "Packets that pass the gate although their body is garbage (header-only events, random and 0xff bodies) are streamed too; of them only this is demanded: no panic, and if the stream ends with an error, nothing partial was delivered and the next attempt resumes at the last accepted commit boundary (garbage that happens to decode is an event like any other).", "§5 C17")
chk("C18", "exploration", "runtime monitoring: executable sequential model (set of (sid,gno) pairs) + immutability snapshots, exhaustive small window",
    "1 SID x all 2^8 subsets of window 1..8 x all adds, all 256^2 pairs for Contains/Equal, 2 SIDs x window 4; random wide sets and add sequences; sets created via SID block, the flavor parser (verif hook) and AddGTID chains; String() canonical; every earlier set unchanged.",
    "Only canonical inputs and sets derived from them.", "§5 C18")
chk("C19", "exploration", "runtime monitoring: round-trip monitors + MariaDB set model (one position per domain) + immutability snapshots",
    "ParseGTID/DecodeGTID round trips for both flavors, 5.6 set text and SID-block round trips, GTID / PREVIOUS_GTIDS / MariaDB GTID events from an independent encoder, MariaDB AddGTID chains with deep snapshots of every earlier set (receiver and siblings).",
    "Equal sequence numbers: either position accepted.", "§5 C19")
chk("C20", "exploration", "runtime monitoring: parse-back monitor on json.Marshal(transaction) with encoding/json",
    "Synthetic transactions with hostile bytes in names/SQL/data (control chars, quotes, U+2028, invalid UTF-8, nil vs empty, every ColumnType/StatementType) and every transaction delivered by the stream generator; structure, names, type names, absent flag, null vs \"\" and verbatim valid UTF-8 compared after parsing back.",
    "Timestamp rendering is not compared; for invalid UTF-8 only well-formedness is required.", "§5 C20")

import os
have = sorted(f[:-3].upper() for f in os.listdir('/verif/harness/checks') if f.startswith('c') and f[1:3].isdigit() and f.endswith('.go'))
checks = []
not_applicable = []
for pid in sorted(C):
    c = C[pid]
    if pid not in have:
        not_applicable.append({"property_id": pid, "reason": "check not built yet in this revision of /verif (planned: " + c["technique"] + ")"})
        continue
    checks.append({
        "property_id": pid,
        "quick_cmd": f"./vcheck {pid} --tier quick",
        "thorough_cmd": f"./vcheck {pid} --tier thorough",
        "evidence_file": f"/verif/evidence/{pid}.json",
        "replay_cmd_template": f"./vcheck {pid} --replay {{path}}",
        "engine": "vcheck",
        "level_claimed": {"category": c["cat"], "text": c["text"], "design_ref": c["ref"]},
        "level_note": c["note"],
        "technique": c["technique"],
    })
m = {
    "version": 1,
    "setup_cmd": "./setup.sh",
    "hooks": {
        "guard": "verif",
        "enable": "go build -tags verif (the orchestrator builds harness/cmd/vworker with -tags verif, plus -race for the race passes; /repo is pulled in through a go.mod replace)",
        "baseline_off_cmd": "cd /repo && GOFLAGS=-mod=mod GOPROXY=off GOSUMDB=off GOTOOLCHAIN=local go test -vet=off -count=1 ./...",
        "source_commits": HOOK_COMMITS,
        "add_only": True,
    },
    "engines": [{"name": "vcheck", "path": "/verif/vcheck", "serves_properties": [c["property_id"] for c in checks],
                 "kind_free_text": "Go orchestrator + worker processes: real library code run against a simulated master / independent encoders under monitors; race detector for the -race passes"}],
    "checks": checks,
    "notes": "Every check rebuilds the worker from /repo's working tree (build tag verif). exit 0 held / 1 violation (VIOLATION line) / 2 inconclusive or broken. Known findings and repaired defects: /verif/known_findings.txt. VERIF_SEED selects the PRNG streams; tiers are case counts, never time budgets.",
    "not_applicable": not_applicable,
}
json.dump(m, open('/verif/MANIFEST.json', 'w'), indent=1)
print("checks:", [c["property_id"] for c in checks], "n/a:", [n["property_id"] for n in not_applicable])
