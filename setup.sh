#!/bin/bash
# One-time setup after a fresh restore (offline): build the orchestrator, warm
# the Go build cache for both worker builds, and run the self-tests of the
# independent encoders / models / simulated master.
set -e
export GOFLAGS=-mod=mod GOPROXY=off GOSUMDB=off GOTOOLCHAIN=local
here="$(cd "$(dirname "${BASH_SOURCE[0]}")" && pwd)"
cd "$here/harness"
cp /repo/go.sum go.sum
mkdir -p "$here/bin" "$here/evidence" "$here/replays"
go build -o "$here/bin/vcheck" ./cmd/vcheck
go build -tags verif -o /dev/null ./cmd/vworker
go build -tags verif -race -o /dev/null ./cmd/vworker
go vet -tags verif ./... 
go test -tags verif -count=1 ./enc/... ./model/... ./run/ ./hist/... ./sim/... 2>&1 | tail -20
"$here/vcheck" SELF --tier quick
echo "setup ok"
