package bjson

import (
	"bytes"
	"encoding/binary"
	"encoding/json"
	"fmt"
	"math"
	"strings"
	"testing"

	"verifharness/core"
)

func str(s string) *Node { return &Node{Kind: KString, S: []byte(s)} }
func i64(v int64) *Node  { return &Node{Kind: KInt, I: v} }
func u64(v uint64) *Node { return &Node{Kind: KUint, U: v} }
func arr(v ...*Node) *Node {
	return &Node{Kind: KArray, Vals: v}
}
func obj(kv ...interface{}) *Node {
	n := &Node{Kind: KObject}
	for i := 0; i < len(kv); i += 2 {
		n.Keys = append(n.Keys, []byte(kv[i].(string)))
		n.Vals = append(n.Vals, kv[i+1].(*Node))
	}
	return n
}

const scopes = "AAAAAAAAAAAAAAAAAAAAAAAAAAAAABAAAAAAAAAAAAAAAAAAAAAAAAAAAAAAAAAAAAAAAAABAAAAAAAAAAAAAAAAAEAAAAAAEAAAAAA8AAABgAAAAAABAAAACAAAAAAAAA"

// The byte strings are the captured server values quoted in the repository's
// TestJSON; the logical documents are what they denote. They are used only to
// cross-check this writer.
var vectors = []struct {
	name string
	doc  *Node
	data []byte
	text string
}{
	{"a:b", obj("a", str("b")), []byte{0, 1, 0, 14, 0, 11, 0, 1, 0, 12, 12, 0, 97, 1, 98}, `JSON_OBJECT('a','b')`},
	{"a:2", obj("a", i64(2)), []byte{0, 1, 0, 12, 0, 11, 0, 1, 0, 5, 2, 0, 97}, `JSON_OBJECT('a',2)`},
	{"nested object", obj("asdf", obj("foo", i64(123))),
		[]byte{0, 1, 0, 29, 0, 11, 0, 4, 0, 0, 15, 0, 97, 115, 100, 102, 1, 0, 14, 0, 11, 0, 3, 0, 5, 123, 0, 102, 111, 111},
		`JSON_OBJECT('asdf',JSON_OBJECT('foo',123))`},
	{"[1,2]", arr(i64(1), i64(2)), []byte{2, 2, 0, 10, 0, 5, 1, 0, 5, 2, 0}, `JSON_ARRAY(1,2)`},
	{"four keys", obj("a", str("b"), "c", str("d"), "ab", str("abc"), "bc", arr(str("x"), str("y"))),
		[]byte{0, 4, 0, 60, 0, 32, 0, 1, 0, 33, 0, 1, 0, 34, 0, 2, 0, 36, 0, 2, 0, 12, 38, 0, 12, 40, 0, 12, 42, 0, 2, 46, 0, 97, 99, 97, 98, 98, 99, 1, 98, 1, 100, 3, 97, 98, 99, 2, 0, 14, 0, 12, 10, 0, 12, 12, 0, 1, 120, 1, 121},
		`JSON_OBJECT('a','b','c','d','ab','abc','bc',JSON_ARRAY('x','y'))`},
	{"nested array", arr(str("here"), arr(str("I"), str("am")), str("!!!")),
		[]byte{2, 3, 0, 37, 0, 12, 13, 0, 2, 18, 0, 12, 33, 0, 4, 104, 101, 114, 101, 2, 0, 15, 0, 12, 10, 0, 12, 12, 0, 1, 73, 2, 97, 109, 3, 33, 33, 33},
		`JSON_ARRAY('here',JSON_ARRAY('I','am'),'!!!')`},
	{"scalar string", str("scalar string"), []byte{12, 13, 115, 99, 97, 108, 97, 114, 32, 115, 116, 114, 105, 110, 103}, `'"scalar string"'`},
	{"130-byte string", str(strings.Repeat("scalar string", 10)),
		append([]byte{12, 130, 1}, bytes.Repeat([]byte("scalar string"), 10)...),
		`'"` + strings.Repeat("scalar string", 10) + `"'`},
	// the quoted vector carries 4 trailing bytes after the 150-byte document; only the document is compared
	{"scopes", obj("scopes", str(scopes)),
		append([]byte{0, 1, 0, 149, 0, 11, 0, 6, 0, 12, 17, 0, 115, 99, 111, 112, 101, 115, 130, 1}, scopes...),
		`JSON_OBJECT('scopes','` + scopes + `')`},
	{"true", &Node{Kind: KTrue}, []byte{4, 1}, `'true'`},
	{"false", &Node{Kind: KFalse}, []byte{4, 2}, `'false'`},
	{"null", &Node{Kind: KNull}, []byte{4, 0}, `'null'`},
	{"-1", i64(-1), []byte{5, 255, 255}, `'-1'`},
	{"u1", u64(1), []byte{6, 1, 0}, `'1'`},
	{"32767", i64(32767), []byte{5, 255, 127}, `'32767'`},
	{"32768", i64(32768), []byte{7, 0, 128, 0, 0}, `'32768'`},
	{"-32768", i64(-32768), []byte{5, 0, 128}, `'-32768'`},
	{"-32769", i64(-32769), []byte{7, 255, 127, 255, 255}, `'-32769'`},
	{"2147483647", i64(2147483647), []byte{7, 255, 255, 255, 127}, `'2147483647'`},
	{"2147483648", i64(2147483648), []byte{9, 0, 0, 0, 128, 0, 0, 0, 0}, `'2147483648'`},
	{"-2147483648", i64(-2147483648), []byte{7, 0, 0, 0, 128}, `'-2147483648'`},
	{"-2147483649", i64(-2147483649), []byte{9, 255, 255, 255, 127, 255, 255, 255, 255}, `'-2147483649'`},
	{"maxuint64", u64(math.MaxUint64), []byte{10, 255, 255, 255, 255, 255, 255, 255, 255}, `'18446744073709551615'`},
	{"minint64", i64(math.MinInt64), []byte{9, 0, 0, 0, 0, 0, 0, 0, 128}, `'-9223372036854775808'`},
	{"pi", &Node{Kind: KDouble, F: 3.14159}, []byte{11, 110, 134, 27, 240, 249, 33, 9, 64}, `'3.14159E+00'`},
	{"{}", obj(), []byte{0, 0, 0, 4, 0}, `JSON_OBJECT()`},
	{"[]", arr(), []byte{2, 0, 0, 4, 0}, `JSON_ARRAY()`},
	{"datetime", &Node{Kind: KDateTime, Y: 2015, Mo: 1, D: 15, H: 23, Mi: 24, Sec: 25},
		[]byte{15, 12, 8, 0, 0, 0, 25, 118, 31, 149, 25}, `CAST(CAST('2015-01-15 23:24:25' AS DATETIME(6)) AS JSON)`},
	{"time", &Node{Kind: KTime, H: 23, Mi: 24, Sec: 25}, []byte{15, 11, 8, 0, 0, 0, 25, 118, 1, 0, 0}, `CAST(CAST('23:24:25' AS TIME(6)) AS JSON)`},
	{"time.12", &Node{Kind: KTime, H: 23, Mi: 24, Sec: 25, Micro: 120000}, []byte{15, 11, 8, 192, 212, 1, 25, 118, 1, 0, 0},
		`CAST(CAST('23:24:25.120000' AS TIME(6)) AS JSON)`},
	{"date", &Node{Kind: KDate, Y: 2015, Mo: 1, D: 15}, []byte{15, 10, 8, 0, 0, 0, 0, 0, 30, 149, 25}, `CAST(CAST('2015-01-15' AS DATE) AS JSON)`},
	{"decimal", &Node{Kind: KDecimal, P: 13, Sc: 4, IntDigits: "123456789", FracDigits: "1234"},
		[]byte{15, 246, 8, 13, 4, 135, 91, 205, 21, 4, 210}, `CAST(CAST('123456789.1234' AS DECIMAL(13,4)) AS JSON)`},
}

func TestWriterReproducesCapturedVectors(t *testing.T) {
	for _, v := range vectors {
		got, err := Encode(v.doc, false)
		if err != nil {
			t.Errorf("%s: %v", v.name, err)
			continue
		}
		if !bytes.Equal(got, v.data) {
			t.Errorf("%s: writer produced\n %v\nserver captured\n %v", v.name, got, v.data)
		}
	}
}

func TestParseLibTextOfExpectedStrings(t *testing.T) {
	for _, v := range vectors {
		n, err := ParseLibText([]byte(v.text))
		if err != nil {
			t.Errorf("%s: parse %q: %v", v.name, v.text, err)
			continue
		}
		if ok, why := Equal(v.doc, n); !ok {
			t.Errorf("%s: parsed tree differs: %s", v.name, why)
		}
		if r := string(Render(v.doc)); r != v.text {
			t.Errorf("%s: Render = %q want %q", v.name, r, v.text)
		}
	}
	for _, bad := range []string{``, `'`, `JSON_ARRAY(1,2`, `JSON_ARRAY(1,2))`, `JSON_OBJECT('a')`, `'abc'`, `CAST(CAST('x' AS FOO) AS JSON)`,
		`CAST(CAST('2015-01-15' AS DATE) AS JSON) `, `JSON_ARRAY(1,,2)`, `'1.5.2'`, `'1,5'`, `'"a"b"'`} {
		if n, err := ParseLibText([]byte(bad)); err == nil {
			t.Errorf("ParseLibText(%q) accepted: %+v", bad, n)
		}
	}
}

func TestEqualDetects(t *testing.T) {
	a := obj("k", arr(i64(1), str("x"), &Node{Kind: KTime, H: 1, Neg: true}), "zz", u64(5))
	b := obj("k", arr(i64(1), str("y"), &Node{Kind: KTime, H: 1}), "zz", i64(5))
	m := Diff(a, b, 0)
	if len(m) != 2 || m[0].Path != "$.k[1]" || m[1].Path != "$.k[2]" {
		t.Fatalf("Diff = %+v", m)
	}
	if ok, why := Equal(a, b); ok || !strings.HasPrefix(why, "$.k[1]") {
		t.Fatalf("Equal = %v %q", ok, why)
	}
	if ok, _ := Equal(u64(7), i64(7)); !ok {
		t.Fatal("KUint 7 != KInt 7")
	}
	if ok, _ := Equal(u64(1<<63), i64(math.MinInt64)); ok {
		t.Fatal("2^63 == -2^63")
	}
	if ok, _ := Equal(&Node{Kind: KDouble, F: 0}, &Node{Kind: KDouble, F: math.Copysign(0, -1)}); ok {
		t.Fatal("+0 == -0")
	}
	d := &Node{Kind: KDecimal, P: 10, Sc: 0, IntDigits: "0000000005"}
	for _, raw := range []string{"        5", "", "05", "5.0"} {
		if ok, _ := Equal(d, &Node{Kind: KDecimal, P: 10, Sc: 0, Raw: raw, HasRaw: true}); ok {
			t.Fatalf("decimal text %q accepted", raw)
		}
	}
	if ok, why := Equal(d, &Node{Kind: KDecimal, P: 10, Sc: 0, Raw: "5", HasRaw: true}); !ok {
		t.Fatal(why)
	}
}

func TestPackedTemporalsAndDecimals(t *testing.T) {
	// -00:00:00.5 is the negated packed value 500000
	n := &Node{Kind: KTime, Micro: 500000, Neg: true}
	if got := PackTemporal(n); got != uint64(0xFFFFFFFFFFF85EE0) {
		t.Errorf("packed -00:00:00.5 = %x", got)
	}
	// decimal.c examples: 1234567890.1234 as DECIMAL(14,4) = 81 0D FB 38 D2 04 D2; negative = 7E F2 04 C7 2D FB 2D
	d := &Node{Kind: KDecimal, P: 14, Sc: 4, IntDigits: "1234567890", FracDigits: "1234"}
	b, err := DecimalBin(d)
	if err != nil || !bytes.Equal(b, []byte{0x81, 0x0D, 0xFB, 0x38, 0xD2, 0x04, 0xD2}) {
		t.Errorf("decimal2bin(1234567890.1234) = %x %v", b, err)
	}
	d.Neg = true
	b, _ = DecimalBin(d)
	if !bytes.Equal(b, []byte{0x7E, 0xF2, 0x04, 0xC7, 0x2D, 0xFB, 0x2D}) {
		t.Errorf("decimal2bin(-1234567890.1234) = %x", b)
	}
	z := &Node{Kind: KDecimal, P: 1, Sc: 0, IntDigits: "0"}
	b, _ = DecimalBin(z)
	if !bytes.Equal(b, []byte{0x80}) {
		t.Errorf("decimal2bin(0) = %x", b)
	}
}

// ---- a small reader of the binary format, written separately from the
// writer's layout code, to round-trip generated documents

type rd struct{ err error }

func (r *rd) fail(f string, a ...interface{}) *Node {
	if r.err == nil {
		r.err = fmt.Errorf(f, a...)
	}
	return &Node{}
}

func rdVarlen(b []byte) (int, int) {
	v, sh := 0, uint(0)
	for i := 0; i < len(b) && i < 5; i++ {
		v |= int(b[i]&0x7f) << sh
		if b[i]&0x80 == 0 {
			return v, i + 1
		}
		sh += 7
	}
	return -1, 0
}

func (r *rd) value(typ byte, b []byte) *Node {
	switch typ {
	case 0, 1, 2, 3:
		large := typ&1 == 1
		w := 2
		if large {
			w = 4
		}
		get := func(p int) int {
			if p+w > len(b) {
				r.fail("short container")
				return 0
			}
			if large {
				return int(binary.LittleEndian.Uint32(b[p:]))
			}
			return int(binary.LittleEndian.Uint16(b[p:]))
		}
		cnt, size := get(0), get(w)
		if r.err != nil || size > len(b) {
			return r.fail("container size %d > %d", size, len(b))
		}
		b = b[:size]
		n := &Node{Kind: KArray}
		p := 2 * w
		if typ < 2 {
			n.Kind = KObject
			for i := 0; i < cnt; i++ {
				ko := get(p)
				if p+w+2 > len(b) {
					return r.fail("short key entry")
				}
				kl := int(binary.LittleEndian.Uint16(b[p+w:]))
				if ko+kl > len(b) {
					return r.fail("key outside container")
				}
				n.Keys = append(n.Keys, append([]byte{}, b[ko:ko+kl]...))
				p += w + 2
			}
		}
		for i := 0; i < cnt; i++ {
			if p+1+w > len(b) {
				return r.fail("short value entry")
			}
			vt := b[p]
			inl := vt == 4 || vt == 5 || vt == 6 || (large && (vt == 7 || vt == 8))
			if inl {
				n.Vals = append(n.Vals, r.value(vt, b[p+1:p+1+w]))
			} else {
				off := get(p + 1)
				if off >= len(b) {
					return r.fail("offset outside container")
				}
				n.Vals = append(n.Vals, r.value(vt, b[off:]))
			}
			p += 1 + w
		}
		return n
	case 4:
		return &Node{Kind: Kind(b[0])} // 0 null 1 true 2 false
	case 5:
		return i64(int64(int16(binary.LittleEndian.Uint16(b))))
	case 6:
		return u64(uint64(binary.LittleEndian.Uint16(b)))
	case 7:
		return i64(int64(int32(binary.LittleEndian.Uint32(b))))
	case 8:
		return u64(uint64(binary.LittleEndian.Uint32(b)))
	case 9:
		return i64(int64(binary.LittleEndian.Uint64(b)))
	case 10:
		return u64(binary.LittleEndian.Uint64(b))
	case 11:
		return &Node{Kind: KDouble, F: math.Float64frombits(binary.LittleEndian.Uint64(b))}
	case 12:
		l, k := rdVarlen(b)
		if l < 0 || k+l > len(b) {
			return r.fail("bad string length")
		}
		return &Node{Kind: KString, S: append([]byte{}, b[k:k+l]...)}
	case 15:
		ft := b[0]
		l, k := rdVarlen(b[1:])
		if l < 0 || 1+k+l > len(b) {
			return r.fail("bad opaque length")
		}
		pl := b[1+k : 1+k+l]
		switch ft {
		case 10, 11, 12:
			v := int64(binary.LittleEndian.Uint64(pl))
			n := &Node{}
			if v < 0 {
				n.Neg = true
				v = -v
			}
			n.Micro = int(v & 0xffffff)
			v >>= 24
			n.Sec, n.Mi = int(v&63), int(v>>6&63)
			if ft == 11 {
				n.Kind = KTime
				n.H = int(v >> 12)
				return n
			}
			n.H = int(v >> 12 & 31)
			ymd := v >> 17
			n.D = int(ymd & 31)
			n.Y, n.Mo = int(ymd>>5)/13, int(ymd>>5)%13
			n.Kind = KDateTime
			if ft == 10 {
				n.Kind = KDate
			}
			return n
		case 246:
			p, s := int(pl[0]), int(pl[1])
			bin := append([]byte{}, pl[2:]...)
			n := &Node{Kind: KDecimal, P: p, Sc: s}
			if bin[0]&0x80 == 0 {
				n.Neg = true
				for i := range bin {
					bin[i] ^= 0xff
				}
			}
			bin[0] &= 0x7f
			var digits []byte
			take := func(nd int) {
				nb := dig2bytes[nd]
				v := 0
				for _, c := range bin[:nb] {
					v = v<<8 | int(c)
				}
				bin = bin[nb:]
				digits = append(digits, fmt.Sprintf("%0*d", nd, v)...)
			}
			intg := p - s
			if intg%9 > 0 {
				take(intg % 9)
			}
			for i := 0; i < intg/9; i++ {
				take(9)
			}
			for i := 0; i < s/9; i++ {
				take(9)
			}
			if s%9 > 0 {
				take(s % 9)
			}
			if len(bin) != 0 || len(digits) != p {
				return r.fail("decimal payload size")
			}
			n.IntDigits, n.FracDigits = string(digits[:intg]), string(digits[intg:])
			return n
		}
	}
	return r.fail("unknown type %d", typ)
}

func TestRoundTripGenerated(t *testing.T) {
	var st Stats
	for i := 0; i < 4000; i++ {
		r := core.NewRng(11, uint64(i))
		doc := Gen(r, r.Range(0, 6), 40)
		for _, fl := range []bool{false, true} {
			b, err := EncodeStats(doc, fl, &st)
			if err != nil {
				t.Fatalf("doc %d: %v", i, err)
			}
			d := &rd{}
			back := d.value(b[0], b[1:])
			if d.err != nil {
				t.Fatalf("doc %d large=%v: reader: %v", i, fl, d.err)
			}
			if ok, why := Equal(doc, back); !ok {
				t.Fatalf("doc %d large=%v: %s", i, fl, why)
			}
			if fl && b[0] < 4 && b[0]&1 == 0 {
				t.Fatalf("doc %d: forceLarge wrote a small container", i)
			}
		}
		txt := Render(doc)
		p, err := ParseLibText(txt)
		if err != nil {
			t.Fatalf("doc %d: ParseLibText(Render): %v", i, err)
		}
		if ok, why := Equal(doc, p); !ok {
			t.Fatalf("doc %d: Render/Parse: %s", i, why)
		}
		// the witness form survives JSON
		if i%50 == 0 {
			js, _ := json.Marshal(doc)
			var back Node
			if err := json.Unmarshal(js, &back); err != nil {
				t.Fatal(err)
			}
			if ok, why := Equal(doc, &back); !ok {
				t.Fatalf("doc %d: JSON witness round trip: %s", i, why)
			}
		}
	}
	for i, n := range st.N {
		if n == 0 && i != StStrVarlen4 && i != StStrVarlen5 && i != StObjLarge+0 {
			t.Logf("stat %s never produced by 4000 generated documents", StatNames[i])
		}
	}
}

func TestSmallLargeThreshold(t *testing.T) {
	// array with one string: small size = 4 + 3 + 3 + L
	for _, c := range []struct {
		l   int
		typ byte
	}{{65525, 2}, {65526, 3}} {
		b, err := Encode(arr(&Node{Kind: KString, S: bytes.Repeat([]byte{'x'}, c.l)}), false)
		if err != nil || b[0] != c.typ {
			t.Errorf("L=%d: type %d err %v, want type %d", c.l, b[0], err, c.typ)
		}
	}
	// 70000 elements cannot be counted in 16 bits; int32 members are inlined in the large array
	big := &Node{Kind: KArray}
	for i := 0; i < 70000; i++ {
		big.Vals = append(big.Vals, i64(int64(100000+i)))
	}
	b, err := Encode(big, false)
	if err != nil || b[0] != 3 || len(b) != 1+8+70000*5 {
		t.Errorf("big array: type %d len %d err %v", b[0], len(b), err)
	}
	// int32 in a small array is out of line: 4 + 3 + 4
	b, _ = Encode(arr(i64(100000)), false)
	if !bytes.Equal(b, []byte{2, 1, 0, 11, 0, 7, 7, 0, 0xa0, 0x86, 1, 0}) {
		t.Errorf("small [100000] = %v", b)
	}
	b, _ = Encode(arr(i64(100000), i64(-1), &Node{Kind: KTrue}), true)
	want := []byte{3, 3, 0, 0, 0, 23, 0, 0, 0, 7, 0xa0, 0x86, 1, 0, 5, 0xff, 0xff, 0xff, 0xff, 4, 1, 0, 0, 0}
	if !bytes.Equal(b, want) {
		t.Errorf("large [100000,-1,true] = %v", b)
	}
}

// a double may be printed in any decimal form; an integer may not be printed as something else
func TestDoubleForms(t *testing.T) {
	for _, c := range []struct {
		want *Node
		text string
		ok   bool
	}{
		{&Node{Kind: KDouble, F: 0.5}, `JSON_ARRAY(5E-01)`, true},
		{&Node{Kind: KDouble, F: 0.5}, `JSON_ARRAY(0.5)`, true},
		{&Node{Kind: KDouble, F: 0.5}, `JSON_ARRAY(5e-1)`, true},
		{&Node{Kind: KDouble, F: 3}, `JSON_ARRAY(3)`, true},
		{&Node{Kind: KDouble, F: 3}, `JSON_ARRAY(3.0)`, true},
		{&Node{Kind: KDouble, F: 3}, `JSON_ARRAY(4)`, false},
		{&Node{Kind: KDouble, F: math.Copysign(0, -1)}, `JSON_ARRAY(-0)`, true},
		{&Node{Kind: KDouble, F: math.Copysign(0, -1)}, `JSON_ARRAY(0)`, false},
		{&Node{Kind: KDouble, F: 1e300}, `JSON_ARRAY(1E+300)`, true},
		{&Node{Kind: KDouble, F: 0.1}, `JSON_ARRAY(0.10000000000000002)`, false},
		{&Node{Kind: KInt, I: 3}, `JSON_ARRAY(3E+00)`, false},
		{&Node{Kind: KInt, I: 3}, `JSON_ARRAY(3.0)`, false},
		{&Node{Kind: KInt, I: 3}, `JSON_ARRAY(3)`, true},
	} {
		g, err := ParseLibText([]byte(c.text))
		if err != nil {
			t.Fatalf("%s: %v", c.text, err)
		}
		ok, why := Equal(arr(c.want), g)
		if ok != c.ok {
			t.Errorf("%s against %s: equal=%v (%s), want %v", c.text, describe(c.want), ok, why, c.ok)
		}
	}
}
