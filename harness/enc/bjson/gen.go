package bjson

import (
	"math"
	"sort"

	"verifharness/core"
)

// IntBoundaries are the integer values around every storage-width boundary,
// as (negative, magnitude) pairs turned into nodes by BoundaryInts.
var intBoundarySigned = []int64{
	0, 1, -1, 2, 127, 128, 255, 256,
	math.MaxInt16 - 1, math.MaxInt16, math.MaxInt16 + 1, math.MinInt16 + 1, math.MinInt16, math.MinInt16 - 1,
	math.MaxUint16 - 1, math.MaxUint16, math.MaxUint16 + 1, -math.MaxUint16, -math.MaxUint16 - 1,
	math.MaxInt32 - 1, math.MaxInt32, math.MaxInt32 + 1, math.MinInt32 + 1, math.MinInt32, math.MinInt32 - 1,
	math.MaxUint32 - 1, math.MaxUint32, math.MaxUint32 + 1, -math.MaxUint32, -math.MaxUint32 - 1,
	math.MaxInt64 - 1, math.MaxInt64, math.MinInt64 + 1, math.MinInt64,
}

var intBoundaryUnsigned = []uint64{
	0, 1, 2, 127, 128, 255, 256,
	math.MaxInt16 - 1, math.MaxInt16, math.MaxInt16 + 1,
	math.MaxUint16 - 1, math.MaxUint16, math.MaxUint16 + 1,
	math.MaxInt32 - 1, math.MaxInt32, math.MaxInt32 + 1,
	math.MaxUint32 - 1, math.MaxUint32, math.MaxUint32 + 1,
	math.MaxInt64 - 1, math.MaxInt64, math.MaxInt64 + 1, math.MaxInt64 + 2,
	math.MaxUint64 - 1, math.MaxUint64,
}

// BoundaryInts returns one node per (signedness of the DOM value, boundary value).
func BoundaryInts() []*Node {
	var out []*Node
	for _, v := range intBoundarySigned {
		out = append(out, &Node{Kind: KInt, I: v})
	}
	for _, v := range intBoundaryUnsigned {
		out = append(out, &Node{Kind: KUint, U: v})
	}
	return out
}

// BoundaryDoubles returns the fixed double values (both zeros, subnormals,
// extremes, values that print with and without a fraction).
func BoundaryDoubles() []*Node {
	vals := []float64{
		0, math.Copysign(0, -1), math.SmallestNonzeroFloat64, -math.SmallestNonzeroFloat64,
		math.Float64frombits(0x000fffffffffffff), math.Float64frombits(0x0010000000000000),
		math.MaxFloat64, -math.MaxFloat64, 1, -1, 0.1, 0.5, 3.14159, 1e15, 1e16, 1e21, 1e22, 1e-7, 123456789012345680,
		9007199254740993, 4.9e-324, 2.2250738585072014e-308, 1e308, -1e-308, 1.0000000000000002, 100, 1e100,
	}
	var out []*Node
	for _, v := range vals {
		out = append(out, &Node{Kind: KDouble, F: v})
	}
	return out
}

type gen struct {
	r        *core.Rng
	fanout   int
	budget   int
	contNum  int // chance num/8 that a member of a container is itself a container
	exotic   bool
	bigStr   bool
	scalarWt [6]int
}

// Gen generates a random document: containers nest at most maxDepth (<= 6)
// levels and have at most maxFanout (<= 40) members.
func Gen(r *core.Rng, maxDepth, maxFanout int) *Node {
	if maxDepth > 6 {
		maxDepth = 6
	}
	if maxDepth < 0 {
		maxDepth = 0
	}
	if maxFanout > 40 {
		maxFanout = 40
	}
	if maxFanout < 0 {
		maxFanout = 0
	}
	g := &gen{r: r, fanout: maxFanout}
	switch x := r.Intn(20); {
	case x < 5:
		g.budget = r.Range(1, 8)
	case x < 14:
		g.budget = r.Range(4, 60)
	case x < 19:
		g.budget = r.Range(40, 400)
	default:
		g.budget = r.Range(400, 3000)
	}
	g.contNum = []int{1, 2, 3, 4, 6}[r.Intn(5)]
	g.exotic = r.Chance(1, 3)
	g.bigStr = r.Chance(1, 40)
	// per-document scalar mix so that some documents are dominated by one family
	for i := range g.scalarWt {
		g.scalarWt[i] = 1 + r.Intn(4)
	}
	if r.Chance(1, 4) {
		g.scalarWt[r.Intn(6)] += 12
	}
	if maxDepth == 0 || r.Chance(1, 8) {
		return g.scalar()
	}
	return g.container(maxDepth)
}

func (g *gen) container(depth int) *Node {
	r := g.r
	n := 0
	switch x := r.Intn(20); {
	case x < 2:
		n = 0
	case x < 9:
		n = r.Range(1, 4)
	case x < 15:
		n = r.Range(2, 15)
	default:
		n = r.Range(2, 40)
	}
	if r.Chance(1, 25) {
		n = g.fanout
	}
	if n > g.fanout {
		n = g.fanout
	}
	if n > g.budget+1 {
		n = g.budget + 1
	}
	g.budget -= n
	node := &Node{}
	if r.Bool() {
		node.Kind = KObject
		node.Keys = g.keys(n)
	} else {
		node.Kind = KArray
	}
	node.Vals = make([]*Node, n)
	for i := range node.Vals {
		if depth > 1 && g.budget > 0 && r.Chance(g.contNum, 8) {
			node.Vals[i] = g.container(depth - 1)
		} else {
			node.Vals[i] = g.scalar()
		}
	}
	return node
}

// keys returns n unique keys sorted the way MySQL stores them (length, bytes).
func (g *gen) keys(n int) [][]byte {
	r := g.r
	seen := make(map[string]struct{}, n)
	out := make([][]byte, 0, n)
	for len(out) < n {
		var k []byte
		switch x := r.Intn(40); {
		case x == 0:
			k = []byte{} // the empty key is legal
		case x < 28:
			k = g.text(r.Range(1, 8), false)
		case x < 37:
			k = g.text(r.Range(1, 30), g.exotic)
		case x < 39:
			k = g.text(r.Range(30, 300), g.exotic)
		default:
			k = g.text([]int{127, 128, 255, 256, 1000}[r.Intn(5)], false)
		}
		if _, dup := seen[string(k)]; dup {
			continue
		}
		seen[string(k)] = struct{}{}
		out = append(out, k)
	}
	SortKeys(out)
	return out
}

// SortKeys orders keys the way MySQL's Json_object does: shorter first, then bytewise.
func SortKeys(k [][]byte) {
	sort.Slice(k, func(i, j int) bool { return keyLess(k[i], k[j]) })
}

const asciiPlain = "abcdefghijklmnopqrstuvwxyzABCDEFGHIJKLMNOPQRSTUVWXYZ0123456789_"

// every printable ASCII character except the two quote characters
const asciiPunct = " !#$%&()*+,-./:;<=>?@[\\]^_`{|}~"

// text returns about n bytes of valid UTF-8 without ' and ".
func (g *gen) text(n int, exotic bool) []byte {
	r := g.r
	b := make([]byte, 0, n+4)
	for len(b) < n {
		if !exotic || r.Chance(3, 5) {
			b = append(b, asciiPlain[r.Intn(len(asciiPlain))])
			continue
		}
		switch r.Intn(8) {
		case 0, 1, 2:
			b = append(b, asciiPunct[r.Intn(len(asciiPunct))])
		case 3:
			c := byte(r.Intn(32)) // control characters, NUL included
			if r.Chance(1, 8) {
				c = 0x7f
			}
			b = append(b, c)
		case 4:
			cp := r.Range(0x80, 0x7ff)
			b = append(b, 0xc0|byte(cp>>6), 0x80|byte(cp&0x3f))
		case 5, 6:
			cp := r.Range(0x800, 0xffff)
			if cp >= 0xd800 && cp <= 0xdfff {
				cp = 0x4e2d
			}
			b = append(b, 0xe0|byte(cp>>12), 0x80|byte(cp>>6&0x3f), 0x80|byte(cp&0x3f))
		default:
			cp := r.Range(0x10000, 0x10ffff)
			b = append(b, 0xf0|byte(cp>>18), 0x80|byte(cp>>12&0x3f), 0x80|byte(cp>>6&0x3f), 0x80|byte(cp&0x3f))
		}
	}
	return b
}

func (g *gen) scalar() *Node {
	r := g.r
	tot := 0
	for _, w := range g.scalarWt {
		tot += w
	}
	x := r.Intn(tot)
	fam := 0
	for ; fam < len(g.scalarWt); fam++ {
		if x < g.scalarWt[fam] {
			break
		}
		x -= g.scalarWt[fam]
	}
	switch fam {
	case 0:
		return &Node{Kind: Kind(r.Intn(3))}
	case 1:
		return GenInt(r)
	case 2:
		return GenDouble(r)
	case 3:
		return g.str()
	case 4:
		return GenTemporal(r)
	default:
		return GenDecimal(r)
	}
}

func (g *gen) str() *Node {
	r := g.r
	n := 0
	switch x := r.Intn(100); {
	case x < 8:
		n = 0
	case x < 65:
		n = r.Range(1, 20)
	case x < 88:
		n = r.Range(20, 200)
	case x < 96:
		n = r.Range(120, 135) // around the 1-/2-byte length prefix boundary
	default:
		n = r.Range(200, 2000)
	}
	if g.bigStr && r.Chance(1, 6) {
		n = r.Range(16376, 16392) // around the 2-/3-byte length prefix boundary
	}
	return &Node{Kind: KString, S: g.text(n, g.exotic && r.Bool())}
}

// GenInt returns an integer node: boundary values (with small offsets) in both
// DOM signednesses, and random values of every width.
func GenInt(r *core.Rng) *Node {
	switch r.Intn(10) {
	case 0, 1, 2:
		v := intBoundarySigned[r.Intn(len(intBoundarySigned))]
		return &Node{Kind: KInt, I: v}
	case 3, 4:
		v := intBoundaryUnsigned[r.Intn(len(intBoundaryUnsigned))]
		return &Node{Kind: KUint, U: v}
	case 5:
		return &Node{Kind: KInt, I: int64(r.Range(-300, 300))}
	case 6, 7:
		bits := uint(r.Range(1, 64))
		v := int64(r.U64() >> (64 - bits))
		if r.Bool() {
			v = -v
		}
		return &Node{Kind: KInt, I: v}
	default:
		bits := uint(r.Range(1, 64))
		return &Node{Kind: KUint, U: r.U64() >> (64 - bits)}
	}
}

// GenDouble returns a finite double: fixed boundary values, integers, short
// decimals and random bit patterns.
func GenDouble(r *core.Rng) *Node {
	switch r.Intn(6) {
	case 0:
		b := BoundaryDoubles()
		return b[r.Intn(len(b))]
	case 1:
		return &Node{Kind: KDouble, F: float64(r.Range(-100000, 100000))}
	case 2:
		return &Node{Kind: KDouble, F: float64(r.Range(-1000000, 1000000)) / 1000}
	default:
		for {
			bits := r.U64()
			if bits>>52&0x7ff == 0x7ff {
				continue // NaN / Inf are not JSON numbers
			}
			if r.Chance(1, 10) {
				bits &^= 0x7ff << 52 // subnormal
			}
			return &Node{Kind: KDouble, F: math.Float64frombits(bits)}
		}
	}
}

// GenTemporal returns an opaque DATE, TIME (either sign, hours up to 838) or DATETIME.
func GenTemporal(r *core.Rng) *Node {
	micro := func() int {
		switch r.Intn(8) {
		case 0, 1, 2:
			return 0
		case 3:
			return []int{1, 999999, 500000, 100000, 10, 120000}[r.Intn(6)]
		default:
			return r.Intn(1000000)
		}
	}
	date := func(n *Node) {
		switch r.Intn(12) {
		case 0:
			// zero date
		case 1:
			n.Y, n.Mo, n.D = 9999, 12, 31
		case 2:
			n.Y, n.Mo, n.D = r.Range(0, 9999), 0, 0 // partial dates are storable
		default:
			n.Y, n.Mo, n.D = r.Range(0, 9999), r.Range(1, 12), r.Range(1, 31)
			if r.Chance(1, 3) {
				n.Y = r.Range(1970, 2038)
			}
		}
	}
	switch r.Intn(4) {
	case 0:
		n := &Node{Kind: KDate}
		date(n)
		return n
	case 1:
		n := &Node{Kind: KDateTime}
		date(n)
		n.H, n.Mi, n.Sec, n.Micro = r.Range(0, 23), r.Range(0, 59), r.Range(0, 59), micro()
		if r.Chance(1, 10) {
			n.H, n.Mi, n.Sec = 0, 0, 0
		}
		return n
	default:
		n := &Node{Kind: KTime}
		switch r.Intn(6) {
		case 0:
			n.H = []int{0, 23, 24, 99, 100, 511, 512, 837, 838}[r.Intn(9)]
		case 1:
			n.H = r.Range(0, 838)
		case 2:
			n.H = 0
		default:
			n.H = r.Range(0, 23)
		}
		n.Mi, n.Sec, n.Micro = r.Range(0, 59), r.Range(0, 59), micro()
		if r.Chance(1, 8) {
			n.Mi, n.Sec = 0, 0
			if r.Bool() {
				n.H = 0
			}
		}
		if n.H == 838 && n.Mi == 59 && n.Sec == 59 {
			n.Micro = 0 // TIME max is 838:59:59.000000
		}
		n.Neg = r.Bool()
		if n.H == 0 && n.Mi == 0 && n.Sec == 0 && n.Micro == 0 {
			n.Neg = false
		}
		return n
	}
}

// DecimalClasses is the number of digit-string classes MakeDecimal knows.
const DecimalClasses = 9

// MakeDecimal builds a DECIMAL(p,s) value of a digit class:
// 0 zero · 1 lowest digit 1 · 2 highest digit 1 · 3 all nines · 4 random digits
// · 5 leading 9-digit groups zero, rest random · 6 only the last integer digit
// non-zero · 7 leading partial group zero with full groups non-zero · 8 short
// random integer part (few significant digits) with random fraction.
func MakeDecimal(r *core.Rng, p, s, class int, neg bool) *Node {
	intg := p - s
	d := make([]byte, p)
	for i := range d {
		d[i] = '0'
	}
	rnd := func(lo, hi int) {
		for i := lo; i < hi; i++ {
			d[i] = byte('0' + r.Intn(10))
		}
	}
	switch class {
	case 0:
	case 1:
		d[p-1] = '1'
	case 2:
		d[0] = '1'
	case 3:
		for i := range d {
			d[i] = '9'
		}
	case 4:
		rnd(0, p)
	case 5:
		// zero the leading partial group and the first full group(s)
		z := intg%9 + 9*(1+r.Intn(3))
		if z > intg {
			z = intg
		}
		rnd(z, p)
		if z < intg {
			d[z] = byte('0' + r.Intn(10))
		}
	case 6:
		if intg > 0 {
			d[intg-1] = byte('1' + r.Intn(9))
		} else {
			d[p-1] = '1'
		}
	case 7:
		rnd(intg%9, p)
		if intg%9 < p {
			d[intg%9] = byte('1' + r.Intn(9))
		}
	default:
		k := r.Range(0, 5)
		if k > intg {
			k = intg
		}
		rnd(intg-k, p)
	}
	n := &Node{Kind: KDecimal, P: p, Sc: s, IntDigits: string(d[:intg]), FracDigits: string(d[intg:]), Neg: neg}
	if DecimalIsZero(n) {
		n.Neg = false // MySQL never stores negative zero
	}
	return n
}

// GenDecimal returns an opaque DECIMAL over random (p,s) and digit classes.
func GenDecimal(r *core.Rng) *Node {
	p := r.Range(1, 65)
	if r.Chance(1, 3) {
		p = r.Range(1, 20)
	}
	maxS := p
	if maxS > 30 {
		maxS = 30
	}
	s := r.Range(0, maxS)
	if r.Chance(1, 4) {
		s = 0
	}
	return MakeDecimal(r, p, s, r.Intn(DecimalClasses), r.Bool())
}
