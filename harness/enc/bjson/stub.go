// Package bjson: TEMPORARY STUB (replaced by the real package).
package bjson

type Kind int

const (
	KNull Kind = iota
	KTrue
	KFalse
	KInt
	KUint
	KDouble
	KString
	KObject
	KArray
	KDate
	KTime
	KDateTime
	KDecimal
)

type Node struct {
	Kind                        Kind
	I                           int64
	U                           uint64
	F                           float64
	S                           []byte
	Keys                        [][]byte
	Vals                        []*Node
	Y, Mo, D, H, Mi, Sec, Micro int
	Neg                         bool
	P, Sc                       int
	IntDigits, FracDigits       string
}

func ParseLibText(b []byte) (*Node, error) { return nil, nil }
func Equal(want, got *Node) (bool, string)  { return true, "" }

func Encode(n *Node, forceLarge bool) ([]byte, error) { return []byte{4, 0}, nil }

func Gen(r interface{ U64() uint64 }, maxDepth, maxFanout int) *Node { return &Node{Kind: KNull} }
