// Package bjson is an independent writer of MySQL's binary JSON column format
// (written from the semantics of sql/json_binary.cc, mysys/my_time.c and
// strings/decimal.c), a reader of the text gobinlog prints for a JSON cell,
// a tree comparison and a recursive document generator. Nothing here calls or
// copies the repository's encoders or decoders.
package bjson

import (
	"encoding/binary"
	"errors"
	"fmt"
	"math"
)

// Kind is the logical kind of a document node.
type Kind int

const (
	KNull Kind = iota
	KTrue
	KFalse
	KInt
	KUint
	KDouble
	KString
	KObject
	KArray
	KDate
	KTime
	KDateTime
	KDecimal
)

var kindNames = [...]string{"null", "true", "false", "int", "uint", "double", "string", "object", "array", "date", "time", "datetime", "decimal"}

func (k Kind) String() string {
	if k >= 0 && int(k) < len(kindNames) {
		return kindNames[k]
	}
	return fmt.Sprintf("kind%d", int(k))
}

// Node is one value of a JSON document.
type Node struct {
	Kind Kind     `json:",omitempty"`
	I    int64    `json:",omitempty"` // KInt
	U    uint64   `json:",omitempty"` // KUint
	F    float64  // KDouble (finite); always marshalled so that -0 survives a witness file
	S    []byte   `json:",omitempty"` // KString bytes (no ' or " characters)
	Keys [][]byte `json:",omitempty"` // KObject: keys in STORED order (length, then bytes; unique)
	Vals []*Node  `json:",omitempty"` // KObject values / KArray elements

	// temporal: Neg only for KTime; H up to 838 for KTime
	Y     int  `json:",omitempty"`
	Mo    int  `json:",omitempty"`
	D     int  `json:",omitempty"`
	H     int  `json:",omitempty"`
	Mi    int  `json:",omitempty"`
	Sec   int  `json:",omitempty"`
	Micro int  `json:",omitempty"`
	Neg   bool `json:",omitempty"`

	// decimal: IntDigits has P-Sc digits, FracDigits has Sc digits, Neg above
	P          int    `json:",omitempty"`
	Sc         int    `json:",omitempty"`
	IntDigits  string `json:",omitempty"`
	FracDigits string `json:",omitempty"`

	// Set by ParseLibText only: the literal text inside CAST('…' AS …) for
	// temporal and decimal scalars, exactly as printed.
	Raw    string `json:",omitempty"`
	HasRaw bool   `json:",omitempty"`
	// Set by ParseLibText only: the printed token of an integer-form number
	// (a double may be printed without fraction and exponent: 3, -0).
	NumText string `json:",omitempty"`
}

// binary JSON type bytes (json_binary.cc JSONB_TYPE_*)
const (
	tSmallObj = 0
	tLargeObj = 1
	tSmallArr = 2
	tLargeArr = 3
	tLiteral  = 4
	tInt16    = 5
	tUint16   = 6
	tInt32    = 7
	tUint32   = 8
	tInt64    = 9
	tUint64   = 10
	tDouble   = 11
	tString   = 12
	tOpaque   = 15

	// MySQL field types used by opaque values
	ftDate       = 10
	ftTime       = 11
	ftDateTime   = 12
	ftNewDecimal = 246
)

// TypeName names a binary JSON type byte.
func TypeName(t byte) string {
	switch t {
	case tSmallObj:
		return "small-object"
	case tLargeObj:
		return "large-object"
	case tSmallArr:
		return "small-array"
	case tLargeArr:
		return "large-array"
	case tLiteral:
		return "literal"
	case tInt16:
		return "int16"
	case tUint16:
		return "uint16"
	case tInt32:
		return "int32"
	case tUint32:
		return "uint32"
	case tInt64:
		return "int64"
	case tUint64:
		return "uint64"
	case tDouble:
		return "double"
	case tString:
		return "string"
	case tOpaque:
		return "opaque"
	}
	return fmt.Sprintf("type%d", t)
}

// ---------------------------------------------------------------- stats

// Coverage counters filled by EncodeStats (one increment per written value).
const (
	StObjSmall = iota
	StObjLarge
	StArrSmall
	StArrLarge
	StEmptyContainer
	StNull
	StTrue
	StFalse
	StInt16
	StUint16
	StInt32Inline
	StInt32Offset
	StUint32Inline
	StUint32Offset
	StInt64
	StUint64
	StDouble
	StStrVarlen1
	StStrVarlen2
	StStrVarlen3
	StStrVarlen4
	StStrVarlen5
	StStrEmpty
	StOpaqueDate
	StOpaqueTimePos
	StOpaqueTimeNeg
	StOpaqueDateTime
	StOpaqueDecimalPos
	StOpaqueDecimalNeg
	StOpaqueDecimalZero
	StInlineInLarge
	StTopScalar
	StTopContainer
	statCount
)

// StatNames are the cell names of the counters.
var StatNames = [statCount]string{
	"object-small", "object-large", "array-small", "array-large", "container-empty",
	"literal-null", "literal-true", "literal-false",
	"int16", "uint16", "int32-inlined-large-parent", "int32-out-of-line", "uint32-inlined-large-parent", "uint32-out-of-line",
	"int64", "uint64", "double",
	"string-varlen-1", "string-varlen-2", "string-varlen-3", "string-varlen-4", "string-varlen-5", "string-empty",
	"opaque-date", "opaque-time-positive", "opaque-time-negative", "opaque-datetime",
	"opaque-decimal-positive", "opaque-decimal-negative", "opaque-decimal-zero",
	"inlined-16bit-or-literal-in-large-parent",
	"top-level-scalar", "top-level-container",
}

// Stats counts what the writer produced.
type Stats struct{ N [statCount]int64 }

func (s *Stats) add(i int) {
	if s != nil {
		s.N[i]++
	}
}

// ---------------------------------------------------------------- plan

// plan is the bottom-up layout decision for one value.
type plan struct {
	n    *Node
	typ  byte
	size int // bytes of the value's data when written out of line / at top level (without type byte)
	kids []plan
	keys int // total key bytes (objects)
}

func inlinable(typ byte, large bool) bool {
	switch typ {
	case tLiteral, tInt16, tUint16:
		return true
	case tInt32, tUint32:
		return large
	}
	return false
}

func varlenSize(n int) int {
	s := 1
	for n >= 0x80 {
		n >>= 7
		s++
	}
	return s
}

func appendVarlen(b []byte, n int) []byte {
	for n >= 0x80 {
		b = append(b, byte(n&0x7f)|0x80)
		n >>= 7
	}
	return append(b, byte(n))
}

func containerSize(kids []plan, keyBytes int, isObj, large bool) int {
	w := 2
	if large {
		w = 4
	}
	n := len(kids)
	sz := 2*w + n*(1+w)
	if isObj {
		sz += n*(w+2) + keyBytes
	}
	for i := range kids {
		if !inlinable(kids[i].typ, large) {
			sz += kids[i].size
		}
	}
	return sz
}

func keyLess(a, b []byte) bool {
	if len(a) != len(b) {
		return len(a) < len(b)
	}
	for i := range a {
		if a[i] != b[i] {
			return a[i] < b[i]
		}
	}
	return false
}

const maxDepth = 100 // JSON_DOCUMENT_MAX_DEPTH

func build(n *Node, forceLarge bool, depth int) (plan, error) {
	if n == nil {
		return plan{}, errors.New("bjson: nil node")
	}
	p := plan{n: n}
	switch n.Kind {
	case KNull, KTrue, KFalse:
		p.typ, p.size = tLiteral, 1
	case KInt:
		// json_binary.cc: a signed DOM integer uses the signed ladder int16 / int32 / int64
		switch {
		case n.I >= math.MinInt16 && n.I <= math.MaxInt16:
			p.typ, p.size = tInt16, 2
		case n.I >= math.MinInt32 && n.I <= math.MaxInt32:
			p.typ, p.size = tInt32, 4
		default:
			p.typ, p.size = tInt64, 8
		}
	case KUint:
		// an unsigned DOM integer uses uint16 / uint32 / uint64
		switch {
		case n.U <= math.MaxUint16:
			p.typ, p.size = tUint16, 2
		case n.U <= math.MaxUint32:
			p.typ, p.size = tUint32, 4
		default:
			p.typ, p.size = tUint64, 8
		}
	case KDouble:
		if math.IsNaN(n.F) || math.IsInf(n.F, 0) {
			return p, errors.New("bjson: non-finite double")
		}
		p.typ, p.size = tDouble, 8
	case KString:
		p.typ, p.size = tString, varlenSize(len(n.S))+len(n.S)
	case KDate, KDateTime, KTime:
		if err := checkTemporal(n); err != nil {
			return p, err
		}
		p.typ, p.size = tOpaque, 1+1+8
	case KDecimal:
		bs, err := decimalBinSize(n)
		if err != nil {
			return p, err
		}
		p.typ, p.size = tOpaque, 1+varlenSize(2+bs)+2+bs
	case KObject, KArray:
		if depth >= maxDepth {
			return p, errors.New("bjson: document too deep")
		}
		isObj := n.Kind == KObject
		if isObj {
			if len(n.Keys) != len(n.Vals) {
				return p, errors.New("bjson: keys/values length mismatch")
			}
			for i, k := range n.Keys {
				if len(k) > 0xffff {
					return p, errors.New("bjson: key longer than 65535 bytes")
				}
				if i > 0 && !keyLess(n.Keys[i-1], k) {
					return p, errors.New("bjson: keys not unique and sorted by (length, bytes)")
				}
				p.keys += len(k)
			}
		}
		p.kids = make([]plan, len(n.Vals))
		for i, v := range n.Vals {
			k, err := build(v, forceLarge, depth+1)
			if err != nil {
				return p, err
			}
			p.kids[i] = k
		}
		large := forceLarge
		if !large {
			// try the small format first; it fits iff every count, offset and
			// the total size fit 16 bits, i.e. iff the total size does
			if containerSize(p.kids, p.keys, isObj, false) > 0xffff {
				large = true
			}
		}
		p.size = containerSize(p.kids, p.keys, isObj, large)
		if p.size > math.MaxUint32 {
			return p, errors.New("bjson: document too large")
		}
		switch {
		case isObj && large:
			p.typ = tLargeObj
		case isObj:
			p.typ = tSmallObj
		case large:
			p.typ = tLargeArr
		default:
			p.typ = tSmallArr
		}
	default:
		return p, fmt.Errorf("bjson: unknown kind %d", n.Kind)
	}
	return p, nil
}

func checkTemporal(n *Node) error {
	bad := func(v, lo, hi int) bool { return v < lo || v > hi }
	switch n.Kind {
	case KDate:
		if bad(n.Y, 0, 9999) || bad(n.Mo, 0, 12) || bad(n.D, 0, 31) || n.H != 0 || n.Mi != 0 || n.Sec != 0 || n.Micro != 0 || n.Neg {
			return errors.New("bjson: bad DATE fields")
		}
	case KDateTime:
		if bad(n.Y, 0, 9999) || bad(n.Mo, 0, 12) || bad(n.D, 0, 31) || bad(n.H, 0, 23) || bad(n.Mi, 0, 59) || bad(n.Sec, 0, 59) || bad(n.Micro, 0, 999999) || n.Neg {
			return errors.New("bjson: bad DATETIME fields")
		}
	case KTime:
		if n.Y != 0 || n.Mo != 0 || n.D != 0 || bad(n.H, 0, 838) || bad(n.Mi, 0, 59) || bad(n.Sec, 0, 59) || bad(n.Micro, 0, 999999) {
			return errors.New("bjson: bad TIME fields")
		}
		if n.Neg && n.H == 0 && n.Mi == 0 && n.Sec == 0 && n.Micro == 0 {
			return errors.New("bjson: negative zero TIME is not a stored value")
		}
	}
	return nil
}

// ---------------------------------------------------------------- packed temporals (my_time.c)

// PackTemporal returns MySQL's packed longlong of a date, datetime or time node
// (TIME_to_longlong_{date,datetime,time}_packed).
func PackTemporal(n *Node) uint64 {
	hms := uint64(n.H)<<12 | uint64(n.Mi)<<6 | uint64(n.Sec)
	if n.Kind == KTime {
		v := hms<<24 + uint64(n.Micro)
		if n.Neg {
			v = -v // the whole 64-bit value is negated
		}
		return v
	}
	ymd := uint64(n.Y*13+n.Mo)<<5 | uint64(n.D)
	return (ymd<<17|hms)<<24 + uint64(n.Micro)
}

// ---------------------------------------------------------------- decimal2bin (decimal.c)

var dig2bytes = [10]int{0, 1, 1, 2, 2, 3, 3, 4, 4, 4}

func allDigits(s string) bool {
	for i := 0; i < len(s); i++ {
		if s[i] < '0' || s[i] > '9' {
			return false
		}
	}
	return true
}

func decimalBinSize(n *Node) (int, error) {
	if n.P < 1 || n.P > 65 || n.Sc < 0 || n.Sc > 30 || n.Sc > n.P {
		return 0, fmt.Errorf("bjson: bad decimal (p,s)=(%d,%d)", n.P, n.Sc)
	}
	if len(n.IntDigits) != n.P-n.Sc || len(n.FracDigits) != n.Sc || !allDigits(n.IntDigits) || !allDigits(n.FracDigits) {
		return 0, errors.New("bjson: decimal digit strings do not match (p,s)")
	}
	intg := n.P - n.Sc
	return intg/9*4 + dig2bytes[intg%9] + n.Sc/9*4 + dig2bytes[n.Sc%9], nil
}

func atoiDigits(s string) uint32 {
	var v uint32
	for i := 0; i < len(s); i++ {
		v = v*10 + uint32(s[i]-'0')
	}
	return v
}

func appendBE(b []byte, v uint32, nbytes int) []byte {
	for i := nbytes - 1; i >= 0; i-- {
		b = append(b, byte(v>>(8*uint(i))))
	}
	return b
}

// DecimalBin is decimal2bin: the integer digits as a leading partial group
// (intg%9 digits) followed by full 9-digit groups, the fraction as full groups
// followed by a trailing partial group; every group big-endian; top bit of the
// first byte flipped; all bytes inverted for a negative value.
func DecimalBin(n *Node) ([]byte, error) {
	sz, err := decimalBinSize(n)
	if err != nil {
		return nil, err
	}
	out := make([]byte, 0, sz)
	id := n.IntDigits
	lead := len(id) % 9
	if lead > 0 {
		out = appendBE(out, atoiDigits(id[:lead]), dig2bytes[lead])
		id = id[lead:]
	}
	for len(id) > 0 {
		out = appendBE(out, atoiDigits(id[:9]), 4)
		id = id[9:]
	}
	fd := n.FracDigits
	for len(fd) >= 9 {
		out = appendBE(out, atoiDigits(fd[:9]), 4)
		fd = fd[9:]
	}
	if len(fd) > 0 {
		out = appendBE(out, atoiDigits(fd), dig2bytes[len(fd)])
	}
	if len(out) != sz {
		return nil, errors.New("bjson: internal decimal size mismatch")
	}
	if n.Neg {
		for i := range out {
			out[i] ^= 0xff
		}
	}
	out[0] ^= 0x80
	return out, nil
}

// DecimalIsZero reports whether every digit is zero.
func DecimalIsZero(n *Node) bool {
	for i := 0; i < len(n.IntDigits); i++ {
		if n.IntDigits[i] != '0' {
			return false
		}
	}
	for i := 0; i < len(n.FracDigits); i++ {
		if n.FracDigits[i] != '0' {
			return false
		}
	}
	return true
}

// ---------------------------------------------------------------- writer

type writer struct {
	buf []byte
	st  *Stats
}

func (w *writer) putW(v uint32, large bool) {
	if large {
		w.buf = binary.LittleEndian.AppendUint32(w.buf, v)
	} else {
		w.buf = binary.LittleEndian.AppendUint16(w.buf, uint16(v))
	}
}

// inlineVal is attempt_inline_value's int32 that is then stored in 2 or 4 bytes.
func inlineVal(p *plan) uint32 {
	switch p.typ {
	case tLiteral:
		switch p.n.Kind {
		case KTrue:
			return 1
		case KFalse:
			return 2
		}
		return 0
	case tInt16, tInt32:
		return uint32(int32(p.n.I))
	default: // tUint16, tUint32
		return uint32(p.n.U)
	}
}

func (w *writer) countScalar(p *plan, top, parentLarge bool) {
	st := w.st
	if st == nil {
		return
	}
	n := p.n
	switch p.typ {
	case tLiteral:
		st.add(StNull + int(n.Kind-KNull))
		if parentLarge {
			st.add(StInlineInLarge)
		}
	case tInt16:
		st.add(StInt16)
		if parentLarge {
			st.add(StInlineInLarge)
		}
	case tUint16:
		st.add(StUint16)
		if parentLarge {
			st.add(StInlineInLarge)
		}
	case tInt32:
		if parentLarge {
			st.add(StInt32Inline)
		} else {
			st.add(StInt32Offset)
		}
	case tUint32:
		if parentLarge {
			st.add(StUint32Inline)
		} else {
			st.add(StUint32Offset)
		}
	case tInt64:
		st.add(StInt64)
	case tUint64:
		st.add(StUint64)
	case tDouble:
		st.add(StDouble)
	case tString:
		st.add(StStrVarlen1 + varlenSize(len(n.S)) - 1)
		if len(n.S) == 0 {
			st.add(StStrEmpty)
		}
	case tOpaque:
		switch n.Kind {
		case KDate:
			st.add(StOpaqueDate)
		case KDateTime:
			st.add(StOpaqueDateTime)
		case KTime:
			if n.Neg {
				st.add(StOpaqueTimeNeg)
			} else {
				st.add(StOpaqueTimePos)
			}
		case KDecimal:
			switch {
			case DecimalIsZero(n):
				st.add(StOpaqueDecimalZero)
			case n.Neg:
				st.add(StOpaqueDecimalNeg)
			default:
				st.add(StOpaqueDecimalPos)
			}
		}
	}
	if top {
		st.add(StTopScalar)
	}
}

// writeData appends the data of p (everything after its type byte).
func (w *writer) writeData(p *plan) error {
	n := p.n
	switch p.typ {
	case tLiteral:
		w.buf = append(w.buf, byte(inlineVal(p)))
	case tInt16:
		w.buf = binary.LittleEndian.AppendUint16(w.buf, uint16(int16(n.I)))
	case tUint16:
		w.buf = binary.LittleEndian.AppendUint16(w.buf, uint16(n.U))
	case tInt32:
		w.buf = binary.LittleEndian.AppendUint32(w.buf, uint32(int32(n.I)))
	case tUint32:
		w.buf = binary.LittleEndian.AppendUint32(w.buf, uint32(n.U))
	case tInt64:
		w.buf = binary.LittleEndian.AppendUint64(w.buf, uint64(n.I))
	case tUint64:
		w.buf = binary.LittleEndian.AppendUint64(w.buf, n.U)
	case tDouble:
		w.buf = binary.LittleEndian.AppendUint64(w.buf, math.Float64bits(n.F))
	case tString:
		w.buf = appendVarlen(w.buf, len(n.S))
		w.buf = append(w.buf, n.S...)
	case tOpaque:
		switch n.Kind {
		case KDate, KTime, KDateTime:
			ft := byte(ftDate)
			if n.Kind == KTime {
				ft = ftTime
			} else if n.Kind == KDateTime {
				ft = ftDateTime
			}
			w.buf = append(w.buf, ft)
			w.buf = appendVarlen(w.buf, 8)
			w.buf = binary.LittleEndian.AppendUint64(w.buf, PackTemporal(n))
		case KDecimal:
			bin, err := DecimalBin(n)
			if err != nil {
				return err
			}
			w.buf = append(w.buf, ftNewDecimal)
			w.buf = appendVarlen(w.buf, 2+len(bin))
			w.buf = append(w.buf, byte(n.P), byte(n.Sc))
			w.buf = append(w.buf, bin...)
		}
	case tSmallObj, tLargeObj, tSmallArr, tLargeArr:
		large := p.typ == tLargeObj || p.typ == tLargeArr
		isObj := p.typ == tSmallObj || p.typ == tLargeObj
		wd := 2
		if large {
			wd = 4
		}
		cnt := len(p.kids)
		start := len(w.buf)
		w.putW(uint32(cnt), large)
		w.putW(uint32(p.size), large)
		off := 2*wd + cnt*(1+wd)
		if isObj {
			off += cnt * (wd + 2)
			for _, k := range n.Keys {
				w.putW(uint32(off), large)
				w.buf = binary.LittleEndian.AppendUint16(w.buf, uint16(len(k)))
				off += len(k)
			}
		}
		for i := range p.kids {
			k := &p.kids[i]
			w.buf = append(w.buf, k.typ)
			if inlinable(k.typ, large) {
				w.putW(inlineVal(k), large)
			} else {
				w.putW(uint32(off), large)
				off += k.size
			}
		}
		if isObj {
			for _, k := range n.Keys {
				w.buf = append(w.buf, k...)
			}
		}
		for i := range p.kids {
			k := &p.kids[i]
			if inlinable(k.typ, large) {
				w.countScalar(k, false, large)
				continue
			}
			before := len(w.buf)
			if err := w.writeData(k); err != nil {
				return err
			}
			if len(w.buf)-before != k.size {
				return fmt.Errorf("bjson: internal size mismatch for %s: planned %d wrote %d", TypeName(k.typ), k.size, len(w.buf)-before)
			}
			if k.typ > tLargeArr {
				w.countScalar(k, false, large)
			}
		}
		if len(w.buf)-start != p.size || off != p.size {
			return fmt.Errorf("bjson: internal container size mismatch: planned %d wrote %d offsets end %d", p.size, len(w.buf)-start, off)
		}
		if w.st != nil {
			w.st.add(StObjSmall + int(p.typ))
			if cnt == 0 {
				w.st.add(StEmptyContainer)
			}
		}
	default:
		return fmt.Errorf("bjson: internal: unknown type %d", p.typ)
	}
	return nil
}

// Encode serialises the document as MySQL binary JSON (type byte + data).
// With forceLarge every container is written in the large format (always legal
// to read); otherwise a container is small iff it fits 16-bit counts, offsets
// and size, decided bottom-up (json_binary.cc tries small, falls back to large).
func Encode(n *Node, forceLarge bool) ([]byte, error) { return EncodeStats(n, forceLarge, nil) }

// EncodeStats is Encode that also counts what was written.
func EncodeStats(n *Node, forceLarge bool, st *Stats) ([]byte, error) {
	p, err := build(n, forceLarge, 0)
	if err != nil {
		return nil, err
	}
	w := &writer{buf: make([]byte, 0, 1+p.size), st: st}
	w.buf = append(w.buf, p.typ)
	if err := w.writeData(&p); err != nil {
		return nil, err
	}
	if len(w.buf) != 1+p.size {
		return nil, errors.New("bjson: internal top-level size mismatch")
	}
	if p.typ > tLargeArr {
		w.countScalar(&p, true, false)
	} else if st != nil {
		st.add(StTopContainer)
	}
	return w.buf, nil
}

// Placement says how the writer stored one node.
type Placement struct {
	Type        byte // binary JSON type byte
	Top         bool // the document itself
	ParentLarge bool // parent container uses the large format
	Inlined     bool // value lives in the parent's value entry
	VarlenWidth int  // strings/opaque: bytes of the variable-length size
}

// Place re-derives the layout decision for the node reached by following the
// child indices idx from the root.
func Place(root *Node, forceLarge bool, idx []int) (Placement, error) {
	p, err := build(root, forceLarge, 0)
	if err != nil {
		return Placement{}, err
	}
	cur := &p
	pl := Placement{Top: true}
	for _, i := range idx {
		if i < 0 || i >= len(cur.kids) {
			return Placement{}, errors.New("bjson: bad index path")
		}
		pl.Top = false
		pl.ParentLarge = cur.typ == tLargeObj || cur.typ == tLargeArr
		cur = &cur.kids[i]
	}
	pl.Type = cur.typ
	pl.Inlined = !pl.Top && inlinable(cur.typ, pl.ParentLarge)
	switch {
	case cur.typ == tString:
		pl.VarlenWidth = varlenSize(len(cur.n.S))
	case cur.typ == tOpaque:
		pl.VarlenWidth = 1
	}
	return pl, nil
}
