package bjson

import (
	"bytes"
	"errors"
	"fmt"
	"math"
	"strconv"
	"strings"
)

// ---------------------------------------------------------------- canonical text of scalars

// DecimalText is the canonical text of a decimal node built from its digit
// strings: optional '-', integer digits without leading zeros (at least "0"),
// and '.' plus all Sc fraction digits when Sc > 0.
func DecimalText(n *Node) string {
	var b strings.Builder
	if n.Neg {
		b.WriteByte('-')
	}
	id := strings.TrimLeft(n.IntDigits, "0")
	if id == "" {
		id = "0"
	}
	b.WriteString(id)
	if n.Sc > 0 {
		b.WriteByte('.')
		b.WriteString(n.FracDigits)
	}
	return b.String()
}

// TemporalText is the text the grammar uses for a temporal node: fraction
// printed (6 digits) only when it is not zero.
func TemporalText(n *Node) string {
	frac := ""
	if n.Micro != 0 {
		frac = fmt.Sprintf(".%06d", n.Micro)
	}
	switch n.Kind {
	case KDate:
		return fmt.Sprintf("%04d-%02d-%02d", n.Y, n.Mo, n.D)
	case KDateTime:
		return fmt.Sprintf("%04d-%02d-%02d %02d:%02d:%02d%s", n.Y, n.Mo, n.D, n.H, n.Mi, n.Sec, frac)
	case KTime:
		sign := ""
		if n.Neg {
			sign = "-"
		}
		return fmt.Sprintf("%s%02d:%02d:%02d%s", sign, n.H, n.Mi, n.Sec, frac)
	}
	return ""
}

// Render prints a document in the library's output grammar (what a correct
// decoder is expected to print, modulo integer type which the text lacks).
func Render(n *Node) []byte {
	var b bytes.Buffer
	render(&b, n, true)
	return b.Bytes()
}

func render(b *bytes.Buffer, n *Node, top bool) {
	q := func(s string) {
		if top {
			b.WriteByte('\'')
		}
		b.WriteString(s)
		if top {
			b.WriteByte('\'')
		}
	}
	cast := func(txt, typ string) {
		if top {
			b.WriteString("CAST(")
		}
		b.WriteString("CAST('")
		b.WriteString(txt)
		b.WriteString("' AS ")
		b.WriteString(typ)
		b.WriteByte(')')
		if top {
			b.WriteString(" AS JSON)")
		}
	}
	switch n.Kind {
	case KNull:
		q("null")
	case KTrue:
		q("true")
	case KFalse:
		q("false")
	case KInt:
		q(strconv.FormatInt(n.I, 10))
	case KUint:
		q(strconv.FormatUint(n.U, 10))
	case KDouble:
		q(strconv.FormatFloat(n.F, 'E', -1, 64))
	case KString:
		if top {
			b.WriteString("'\"")
			b.Write(n.S)
			b.WriteString("\"'")
		} else {
			b.WriteByte('\'')
			b.Write(n.S)
			b.WriteByte('\'')
		}
	case KObject:
		b.WriteString("JSON_OBJECT(")
		for i, v := range n.Vals {
			if i > 0 {
				b.WriteByte(',')
			}
			b.WriteByte('\'')
			b.Write(n.Keys[i])
			b.WriteString("',")
			render(b, v, false)
		}
		b.WriteByte(')')
	case KArray:
		b.WriteString("JSON_ARRAY(")
		for i, v := range n.Vals {
			if i > 0 {
				b.WriteByte(',')
			}
			render(b, v, false)
		}
		b.WriteByte(')')
	case KDate:
		cast(TemporalText(n), "DATE")
	case KTime:
		cast(TemporalText(n), "TIME(6)")
	case KDateTime:
		cast(TemporalText(n), "DATETIME(6)")
	case KDecimal:
		cast(DecimalText(n), fmt.Sprintf("DECIMAL(%d,%d)", n.P, n.Sc))
	}
}

// ---------------------------------------------------------------- reader of the library's text

type parser struct {
	b []byte
	i int
}

func (p *parser) errf(format string, a ...interface{}) error {
	lo := p.i - 20
	if lo < 0 {
		lo = 0
	}
	hi := p.i + 30
	if hi > len(p.b) {
		hi = len(p.b)
	}
	return fmt.Errorf("at byte %d (…%q…): %s", p.i, p.b[lo:hi], fmt.Sprintf(format, a...))
}

func (p *parser) has(s string) bool {
	return len(p.b)-p.i >= len(s) && string(p.b[p.i:p.i+len(s)]) == s
}

func (p *parser) eat(s string) bool {
	if p.has(s) {
		p.i += len(s)
		return true
	}
	return false
}

// quoted reads up to the closing single quote (the opening one is consumed).
func (p *parser) quoted() ([]byte, error) {
	j := bytes.IndexByte(p.b[p.i:], '\'')
	if j < 0 {
		return nil, p.errf("unterminated quoted text")
	}
	s := p.b[p.i : p.i+j]
	p.i += j + 1
	return s, nil
}

// ParseLibText parses the library's printed form of a JSON cell (top-level
// form) back into a tree. Keys and strings are read verbatim up to the closing
// quote (the property excludes quote characters from them).
func ParseLibText(b []byte) (*Node, error) {
	p := &parser{b: b}
	var n *Node
	var err error
	switch {
	case p.has("JSON_OBJECT(") || p.has("JSON_ARRAY("):
		n, err = p.value(0)
	case p.eat("CAST("):
		if !p.has("CAST('") {
			return nil, p.errf("expected inner CAST('")
		}
		n, err = p.value(0)
		if err == nil && !p.eat(" AS JSON)") {
			err = p.errf("expected ' AS JSON)'")
		}
	case p.eat("'\""):
		j := bytes.IndexByte(p.b[p.i:], '"')
		if j < 0 {
			return nil, p.errf("unterminated top-level string")
		}
		s := p.b[p.i : p.i+j]
		p.i += j
		if bytes.IndexByte(s, '\'') >= 0 {
			return nil, p.errf("single quote inside top-level string")
		}
		if !p.eat("\"'") {
			return nil, p.errf("expected closing \"'")
		}
		n = &Node{Kind: KString, S: append([]byte{}, s...)}
	case p.eat("'"):
		var tok []byte
		tok, err = p.quoted()
		if err == nil {
			n, err = scalarToken(tok)
			if err != nil {
				err = p.errf("%v", err)
			}
		}
	default:
		return nil, p.errf("unrecognised top-level form")
	}
	if err != nil {
		return nil, err
	}
	if p.i != len(p.b) {
		return nil, p.errf("trailing bytes after the document")
	}
	return n, nil
}

func scalarToken(tok []byte) (*Node, error) {
	s := string(tok)
	switch s {
	case "null":
		return &Node{Kind: KNull}, nil
	case "true":
		return &Node{Kind: KTrue}, nil
	case "false":
		return &Node{Kind: KFalse}, nil
	case "":
		return nil, errors.New("empty scalar")
	}
	isInt := true
	for i := 0; i < len(s); i++ {
		c := s[i]
		if !(c >= '0' && c <= '9') && !(i == 0 && c == '-' && len(s) > 1) {
			isInt = false
			break
		}
	}
	if isInt {
		if s[0] == '-' {
			v, err := strconv.ParseInt(s, 10, 64)
			if err != nil {
				return nil, fmt.Errorf("integer %q: %v", s, err)
			}
			return &Node{Kind: KInt, I: v, NumText: s}, nil
		}
		v, err := strconv.ParseUint(s, 10, 64)
		if err != nil {
			return nil, fmt.Errorf("integer %q: %v", s, err)
		}
		if v <= math.MaxInt64 {
			return &Node{Kind: KInt, I: int64(v), NumText: s}, nil
		}
		return &Node{Kind: KUint, U: v, NumText: s}, nil
	}
	// a double: any decimal number text with a fraction and / or an exponent
	// (the pinned library prints strconv's 'E' format; 0.5, 5e-1 and 5E-01
	// denote the same value and the property does not pick one)
	if !strings.ContainsAny(s, ".eE") {
		return nil, fmt.Errorf("scalar %q is neither a literal, an integer nor a decimal number", s)
	}
	for i := 0; i < len(s); i++ {
		c := s[i]
		if !(c >= '0' && c <= '9') && c != '-' && c != '+' && c != '.' && c != 'E' && c != 'e' {
			return nil, fmt.Errorf("bad double %q", s)
		}
	}
	f, err := strconv.ParseFloat(s, 64)
	if err != nil {
		return nil, fmt.Errorf("double %q: %v", s, err)
	}
	return &Node{Kind: KDouble, F: f}, nil
}

func (p *parser) value(depth int) (*Node, error) {
	if depth > maxDepth+1 {
		return nil, p.errf("nesting too deep")
	}
	switch {
	case p.eat("JSON_OBJECT("):
		n := &Node{Kind: KObject}
		if p.eat(")") {
			return n, nil
		}
		for {
			if !p.eat("'") {
				return nil, p.errf("expected quoted key")
			}
			k, err := p.quoted()
			if err != nil {
				return nil, err
			}
			if !p.eat(",") {
				return nil, p.errf("expected ',' after key")
			}
			v, err := p.value(depth + 1)
			if err != nil {
				return nil, err
			}
			n.Keys = append(n.Keys, append([]byte{}, k...))
			n.Vals = append(n.Vals, v)
			if p.eat(",") {
				continue
			}
			if p.eat(")") {
				return n, nil
			}
			return nil, p.errf("expected ',' or ')' in JSON_OBJECT")
		}
	case p.eat("JSON_ARRAY("):
		n := &Node{Kind: KArray}
		if p.eat(")") {
			return n, nil
		}
		for {
			v, err := p.value(depth + 1)
			if err != nil {
				return nil, err
			}
			n.Vals = append(n.Vals, v)
			if p.eat(",") {
				continue
			}
			if p.eat(")") {
				return n, nil
			}
			return nil, p.errf("expected ',' or ')' in JSON_ARRAY")
		}
	case p.eat("CAST('"):
		txt, err := p.quoted()
		if err != nil {
			return nil, err
		}
		if !p.eat(" AS ") {
			return nil, p.errf("expected ' AS ' in CAST")
		}
		j := p.i
		for j < len(p.b) && (p.b[j] >= 'A' && p.b[j] <= 'Z') {
			j++
		}
		typ := string(p.b[p.i:j])
		p.i = j
		n := &Node{Raw: string(txt), HasRaw: true}
		switch typ {
		case "DATE":
			n.Kind = KDate
			if !p.eat(")") {
				return nil, p.errf("expected ')' after DATE")
			}
		case "TIME":
			n.Kind = KTime
			if !p.eat("(6))") {
				return nil, p.errf("expected '(6))' after TIME")
			}
		case "DATETIME":
			n.Kind = KDateTime
			if !p.eat("(6))") {
				return nil, p.errf("expected '(6))' after DATETIME")
			}
		case "DECIMAL":
			n.Kind = KDecimal
			var ok bool
			if !p.eat("(") {
				return nil, p.errf("expected '(' after DECIMAL")
			}
			if n.P, ok = p.number(); !ok || !p.eat(",") {
				return nil, p.errf("bad DECIMAL precision")
			}
			if n.Sc, ok = p.number(); !ok || !p.eat("))") {
				return nil, p.errf("bad DECIMAL scale")
			}
			fillDecimal(n)
			return n, nil
		default:
			return nil, p.errf("unknown CAST target %q", typ)
		}
		fillTemporal(n)
		return n, nil
	case p.eat("'"):
		s, err := p.quoted()
		if err != nil {
			return nil, err
		}
		return &Node{Kind: KString, S: append([]byte{}, s...)}, nil
	}
	j := p.i
	for j < len(p.b) && p.b[j] != ',' && p.b[j] != ')' {
		j++
	}
	n, err := scalarToken(p.b[p.i:j])
	if err != nil {
		return nil, p.errf("%v", err)
	}
	p.i = j
	return n, nil
}

func (p *parser) number() (int, bool) {
	j := p.i
	v := 0
	for j < len(p.b) && p.b[j] >= '0' && p.b[j] <= '9' && j-p.i < 6 {
		v = v*10 + int(p.b[j]-'0')
		j++
	}
	if j == p.i {
		return 0, false
	}
	p.i = j
	return v, true
}

// fillDecimal fills the digit strings when the printed text is a plain decimal
// number; Raw always holds the printed text.
func fillDecimal(n *Node) {
	s := n.Raw
	if strings.HasPrefix(s, "-") {
		n.Neg = true
		s = s[1:]
	}
	ip, fp := s, ""
	if k := strings.IndexByte(s, '.'); k >= 0 {
		ip, fp = s[:k], s[k+1:]
	}
	if ip == "" || !allDigits(ip) || !allDigits(fp) {
		return
	}
	n.IntDigits, n.FracDigits = ip, fp
}

func digitsField(s string) (int, bool) {
	if s == "" || len(s) > 9 || !allDigits(s) {
		return -1, false
	}
	v, _ := strconv.Atoi(s)
	return v, true
}

// fillTemporal reads the fields of a temporal literal leniently; anything that
// is not digits and the expected separators leaves the fields at -1 (never
// equal to a valid value). Raw always holds the printed text.
func fillTemporal(n *Node) {
	bad := func() { n.Y, n.Mo, n.D, n.H, n.Mi, n.Sec, n.Micro = -1, -1, -1, -1, -1, -1, -1 }
	s := n.Raw
	date, tm := "", ""
	switch n.Kind {
	case KDate:
		date = s
	case KTime:
		tm = s
	case KDateTime:
		k := strings.IndexByte(s, ' ')
		if k < 0 {
			bad()
			return
		}
		date, tm = s[:k], s[k+1:]
	}
	ok := true
	get := func(s string) int {
		v, o := digitsField(s)
		if !o {
			ok = false
		}
		return v
	}
	if n.Kind != KTime {
		f := strings.Split(date, "-")
		if len(f) != 3 {
			bad()
			return
		}
		n.Y, n.Mo, n.D = get(f[0]), get(f[1]), get(f[2])
	}
	if n.Kind != KDate {
		if n.Kind == KTime && strings.HasPrefix(tm, "-") {
			n.Neg = true
			tm = tm[1:]
		}
		frac := ""
		if k := strings.IndexByte(tm, '.'); k >= 0 {
			frac = tm[k+1:]
			tm = tm[:k]
			if frac == "" {
				ok = false
			}
		}
		f := strings.Split(tm, ":")
		if len(f) != 3 {
			bad()
			return
		}
		n.H, n.Mi, n.Sec = get(f[0]), get(f[1]), get(f[2])
		if frac != "" {
			if len(frac) == 6 {
				n.Micro = get(frac)
			} else {
				// the grammar prints exactly six fraction digits; anything else
				// cannot denote a microsecond count
				ok = false
			}
		}
	}
	if !ok {
		bad()
	}
}

// ---------------------------------------------------------------- comparison

// Mismatch is one difference between the wanted and the decoded document.
type Mismatch struct {
	Path   string // like $.k[3]
	Idx    []int  // child indices from the root
	Want   *Node  // node of the wanted document at Path
	Got    *Node  // node of the decoded document at Path (nil if none)
	What   string // kind | count | key | value | precision-scale
	Reason string
}

// Equal compares trees: key order and bytes, nesting, integers by exact value
// (KInt and KUint with the same mathematical value are equal), doubles by bit
// pattern, strings bytewise, temporal values by fields, decimals by canonical
// text and (P,Sc). On a difference it returns false and "path: reason" of the
// first mismatch in document order.
func Equal(want, got *Node) (bool, string) {
	m := Diff(want, got, 1)
	if len(m) == 0 {
		return true, ""
	}
	return false, m[0].Path + ": " + m[0].Reason
}

// Diff lists mismatches in document order (at most max; max <= 0 means 64). A
// mismatch at a node does not stop the comparison of its siblings.
func Diff(want, got *Node, max int) []Mismatch {
	if max <= 0 {
		max = 64
	}
	d := &differ{max: max}
	d.diff(want, got)
	return d.out
}

type differ struct {
	max  int
	out  []Mismatch
	path []byte
	idx  []int
}

func (d *differ) add(w, g *Node, what, reason string) {
	if len(d.out) >= d.max {
		return
	}
	p := "$" + string(d.path)
	d.out = append(d.out, Mismatch{Path: p, Idx: append([]int{}, d.idx...), Want: w, Got: g, What: what, Reason: reason})
}

func intParts(n *Node) (neg bool, mag uint64) {
	if n.Kind == KUint {
		return false, n.U
	}
	if n.I < 0 {
		return true, uint64(-n.I) // -MinInt64 wraps to 2^63, which is its magnitude
	}
	return false, uint64(n.I)
}

func intText(n *Node) string {
	if n.Kind == KUint {
		return strconv.FormatUint(n.U, 10)
	}
	return strconv.FormatInt(n.I, 10)
}

func clip(b []byte) string {
	if len(b) > 48 {
		return fmt.Sprintf("%q…(%d bytes)", b[:48], len(b))
	}
	return fmt.Sprintf("%q", b)
}

func pathKey(k []byte) string {
	simple := len(k) > 0 && len(k) <= 32
	for _, c := range k {
		if !(c >= 'a' && c <= 'z' || c >= 'A' && c <= 'Z' || c >= '0' && c <= '9' || c == '_') {
			simple = false
			break
		}
	}
	if simple {
		return "." + string(k)
	}
	if len(k) > 32 {
		return fmt.Sprintf(".%q…", k[:32])
	}
	return fmt.Sprintf(".%q", k)
}

func isInt(k Kind) bool { return k == KInt || k == KUint }

func describe(n *Node) string {
	switch n.Kind {
	case KInt, KUint:
		return n.Kind.String() + " " + intText(n)
	case KDouble:
		return "double " + strconv.FormatFloat(n.F, 'E', -1, 64)
	case KString:
		return "string " + clip(n.S)
	case KObject, KArray:
		return fmt.Sprintf("%s with %d members", n.Kind, len(n.Vals))
	case KDate, KTime, KDateTime:
		if n.HasRaw {
			return fmt.Sprintf("%s %q", n.Kind, n.Raw)
		}
		return fmt.Sprintf("%s %q", n.Kind, TemporalText(n))
	case KDecimal:
		if n.HasRaw {
			return fmt.Sprintf("decimal(%d,%d) %q", n.P, n.Sc, n.Raw)
		}
		return fmt.Sprintf("decimal(%d,%d) %q", n.P, n.Sc, DecimalText(n))
	}
	return n.Kind.String()
}

func (d *differ) diff(w, g *Node) {
	if len(d.out) >= d.max {
		return
	}
	if g == nil {
		d.add(w, g, "kind", "no value decoded, want "+describe(w))
		return
	}
	// (a double printed in integer form — 3 for 3.0, -0 — is the same number)
	dblAsInt := w.Kind == KDouble && isInt(g.Kind) && g.NumText != ""
	if w.Kind != g.Kind && !(isInt(w.Kind) && isInt(g.Kind)) && !dblAsInt {
		d.add(w, g, "kind", fmt.Sprintf("want %s, got %s", describe(w), describe(g)))
		return
	}
	switch w.Kind {
	case KNull, KTrue, KFalse:
	case KInt, KUint:
		wn, wm := intParts(w)
		gn, gm := intParts(g)
		if wn != gn || wm != gm {
			d.add(w, g, "value", fmt.Sprintf("integer want %s got %s", intText(w), intText(g)))
		}
	case KDouble:
		gf := g.F
		if dblAsInt {
			var err error
			if gf, err = strconv.ParseFloat(g.NumText, 64); err != nil {
				gf = math.NaN()
			}
		}
		if math.Float64bits(w.F) != math.Float64bits(gf) {
			d.add(w, g, "value", fmt.Sprintf("double want bits %016x (%s) got %016x (%s)", math.Float64bits(w.F),
				strconv.FormatFloat(w.F, 'E', -1, 64), math.Float64bits(gf), strconv.FormatFloat(gf, 'E', -1, 64)))
		}
	case KString:
		if !bytes.Equal(w.S, g.S) {
			d.add(w, g, "value", fmt.Sprintf("string want %s got %s", clip(w.S), clip(g.S)))
		}
	case KDate, KTime, KDateTime:
		if w.Y != g.Y || w.Mo != g.Mo || w.D != g.D || w.H != g.H || w.Mi != g.Mi || w.Sec != g.Sec || w.Micro != g.Micro || w.Neg != g.Neg {
			gt := g.Raw
			if !g.HasRaw {
				gt = TemporalText(g)
			}
			d.add(w, g, "value", fmt.Sprintf("%s want '%s' got '%s'", w.Kind, TemporalText(w), gt))
		}
	case KDecimal:
		wt := DecimalText(w)
		gt := g.Raw
		if !g.HasRaw {
			gt = DecimalText(g)
		}
		if w.P != g.P || w.Sc != g.Sc {
			d.add(w, g, "precision-scale", fmt.Sprintf("decimal want DECIMAL(%d,%d) got DECIMAL(%d,%d)", w.P, w.Sc, g.P, g.Sc))
		} else if wt != gt {
			d.add(w, g, "value", fmt.Sprintf("decimal(%d,%d) want '%s' got '%s'", w.P, w.Sc, wt, gt))
		}
	case KObject, KArray:
		if len(w.Vals) != len(g.Vals) {
			d.add(w, g, "count", fmt.Sprintf("%s want %d members got %d", w.Kind, len(w.Vals), len(g.Vals)))
			return
		}
		if w.Kind == KObject && (len(w.Keys) != len(w.Vals) || len(g.Keys) != len(g.Vals)) {
			d.add(w, g, "count", "object with keys/values length mismatch")
			return
		}
		for i := range w.Vals {
			if len(d.out) >= d.max {
				return
			}
			pl := len(d.path)
			if w.Kind == KObject {
				d.path = append(d.path, pathKey(w.Keys[i])...)
			} else {
				d.path = append(d.path, '[')
				d.path = strconv.AppendInt(d.path, int64(i), 10)
				d.path = append(d.path, ']')
			}
			d.idx = append(d.idx, i)
			if w.Kind == KObject && !bytes.Equal(w.Keys[i], g.Keys[i]) {
				d.add(w.Vals[i], g.Vals[i], "key", fmt.Sprintf("key #%d want %s got %s", i, clip(w.Keys[i]), clip(g.Keys[i])))
			}
			d.diff(w.Vals[i], g.Vals[i])
			d.idx = d.idx[:len(d.idx)-1]
			d.path = d.path[:pl]
		}
	}
}
