package val

import "strings"

// dig2bytes is the table of strings/decimal.c: bytes needed for n leftover
// decimal digits (n < 9).
var dig2bytes = [10]int{0, 1, 1, 2, 2, 3, 3, 4, 4, 4}

// DecimalBinSize is decimal_bin_size(precision, scale).
func DecimalBinSize(p, s int) int {
	intg := p - s
	return intg/9*4 + dig2bytes[intg%9] + s/9*4 + dig2bytes[s%9]
}

func digitsValue(d string) uint32 {
	var v uint32
	for i := 0; i < len(d); i++ {
		c := d[i]
		if c < '0' || c > '9' {
			panic("val: non-digit in decimal digit string")
		}
		v = v*10 + uint32(c-'0')
	}
	return v
}

func putBE(dst []byte, v uint32, n int) []byte {
	for i := n - 1; i >= 0; i-- {
		dst = append(dst, byte(v>>(8*uint(i))))
	}
	return dst
}

// EncodeDecimal is decimal2bin for a DECIMAL(p,s) value given as digit
// strings: intDigits has exactly p-s characters, fracDigits exactly s.
//
// Layout (decimal.c): the leading partial integer group (intg%9 digits) in
// dig2bytes[n] bytes, the full 9-digit integer groups in 4 bytes each, the full
// 9-digit fraction groups, the trailing partial fraction group (s%9 digits) in
// dig2bytes[n] bytes; everything big endian. For a negative value every stored
// word is XORed with -1 (all bytes inverted). Finally the top bit of the very
// first byte is flipped, so that positive values start with a 1 bit.
func EncodeDecimal(p, s int, neg bool, intDigits, fracDigits string) []byte {
	if p < 1 || s < 0 || s > p || len(intDigits) != p-s || len(fracDigits) != s {
		panic("val: EncodeDecimal: digit strings do not match (p,s)")
	}
	out := make([]byte, 0, DecimalBinSize(p, s))
	intg := p - s
	lead := intg % 9
	if lead > 0 {
		out = putBE(out, digitsValue(intDigits[:lead]), dig2bytes[lead])
	}
	for i := lead; i < intg; i += 9 {
		out = putBE(out, digitsValue(intDigits[i:i+9]), 4)
	}
	full := s / 9 * 9
	for i := 0; i < full; i += 9 {
		out = putBE(out, digitsValue(fracDigits[i:i+9]), 4)
	}
	if tail := s % 9; tail > 0 {
		out = putBE(out, digitsValue(fracDigits[full:]), dig2bytes[tail])
	}
	if neg {
		for i := range out {
			out[i] ^= 0xFF
		}
	}
	if len(out) > 0 {
		out[0] ^= 0x80
	}
	return out
}

// DecimalText is the canonical text of a DECIMAL value: optional '-', the
// integer digits without leading zeros (a single "0" if nothing is left), and
// '.' followed by all fraction digits when there are any.
func DecimalText(neg bool, intDigits, fracDigits string) string {
	var b strings.Builder
	if neg {
		b.WriteByte('-')
	}
	t := strings.TrimLeft(intDigits, "0")
	if t == "" {
		t = "0"
	}
	b.WriteString(t)
	if len(fracDigits) > 0 {
		b.WriteByte('.')
		b.WriteString(fracDigits)
	}
	return b.String()
}
