package val

import (
	"bytes"
	"encoding/hex"
	"fmt"
	"math/big"
	"math/rand"
	"strings"
	"testing"
	"time"
)

func hx(s string) []byte {
	b, err := hex.DecodeString(strings.ReplaceAll(s, " ", ""))
	if err != nil {
		panic(err)
	}
	return b
}

func randDigits(r *rand.Rand, n int) string {
	b := make([]byte, n)
	for i := range b {
		switch r.Intn(4) {
		case 0:
			b[i] = '0'
		case 1:
			b[i] = '9'
		default:
			b[i] = byte('0' + r.Intn(10))
		}
	}
	return string(b)
}

func bigOf(neg bool, id, fd string) *big.Int {
	n, ok := new(big.Int).SetString("0"+id+fd, 10)
	if !ok {
		panic("bad digits")
	}
	if neg {
		n.Neg(n)
	}
	return n
}

func TestDecimalBinSize(t *testing.T) {
	// values from the MySQL manual ("DECIMAL data type characteristics") and decimal.c
	for _, c := range []struct{ p, s, want int }{
		{1, 0, 1}, {2, 0, 1}, {3, 0, 2}, {4, 0, 2}, {5, 0, 3}, {6, 0, 3}, {7, 0, 4}, {8, 0, 4}, {9, 0, 4},
		{10, 0, 5}, {18, 9, 8}, {20, 6, 10}, {14, 4, 7}, {65, 30, 30}, {65, 0, 29}, {30, 30, 14}, {5, 5, 3},
	} {
		if got := DecimalBinSize(c.p, c.s); got != c.want {
			t.Errorf("DecimalBinSize(%d,%d)=%d want %d", c.p, c.s, got, c.want)
		}
	}
}

func TestDecimalVectors(t *testing.T) {
	// the worked example in strings/decimal.c (decimal2bin comment)
	for _, c := range []struct {
		p, s   int
		neg    bool
		id, fd string
		want   string
		text   string
	}{
		{14, 4, false, "1234567890", "1234", "81 0D FB 38 D2 04 D2", "1234567890.1234"},
		{14, 4, true, "1234567890", "1234", "7E F2 04 C7 2D FB 2D", "-1234567890.1234"},
		{14, 4, false, "1234567890", "0001", "81 0D FB 38 D2 00 01", "1234567890.0001"},
		{4, 0, false, "0000", "", "80 00", "0"},
		{5, 5, false, "", "00001", "80 00 01", "0.00001"},
		{10, 2, true, "00000001", "50", "7F FF FF FE CD", "-1.50"},
	} {
		got := EncodeDecimal(c.p, c.s, c.neg, c.id, c.fd)
		if !bytes.Equal(got, hx(c.want)) {
			t.Errorf("EncodeDecimal(%d,%d,%v,%q,%q)=% X want %s", c.p, c.s, c.neg, c.id, c.fd, got, c.want)
		}
		if tx := DecimalText(c.neg, c.id, c.fd); tx != c.text {
			t.Errorf("DecimalText=%q want %q", tx, c.text)
		}
	}
}

// independent reading of the binary form with math/big: undo the sign trick,
// then the value is sum(group * 10^(digits to the right of the group)).
func decodeDecimalBig(t *testing.T, p, s int, b []byte) *big.Int {
	if len(b) != DecimalBinSize(p, s) {
		t.Fatalf("size %d want %d", len(b), DecimalBinSize(p, s))
	}
	d := append([]byte(nil), b...)
	neg := d[0]&0x80 == 0
	d[0] ^= 0x80
	if neg {
		for i := range d {
			d[i] = ^d[i]
		}
	}
	type grp struct{ digits, bytes int }
	var gs []grp
	intg := p - s
	if intg%9 > 0 {
		gs = append(gs, grp{intg % 9, dig2bytes[intg%9]})
	}
	for i := 0; i < intg/9; i++ {
		gs = append(gs, grp{9, 4})
	}
	for i := 0; i < s/9; i++ {
		gs = append(gs, grp{9, 4})
	}
	if s%9 > 0 {
		gs = append(gs, grp{s % 9, dig2bytes[s%9]})
	}
	total := new(big.Int)
	ten := big.NewInt(10)
	off := 0
	for _, g := range gs {
		v := new(big.Int).SetBytes(d[off : off+g.bytes])
		off += g.bytes
		lim := new(big.Int).Exp(ten, big.NewInt(int64(g.digits)), nil)
		if v.Cmp(lim) >= 0 {
			t.Fatalf("group value %v does not fit %d digits", v, g.digits)
		}
		total.Mul(total, lim)
		total.Add(total, v)
	}
	if off != len(d) {
		t.Fatalf("groups cover %d of %d bytes", off, len(d))
	}
	if neg {
		total.Neg(total)
	}
	return total
}

func TestDecimalAgainstBig(t *testing.T) {
	r := rand.New(rand.NewSource(42))
	n := 0
	for p := 1; p <= 65; p++ {
		for s := 0; s <= p && s <= 30; s++ {
			for k := 0; k < 40; k++ {
				id, fd := randDigits(r, p-s), randDigits(r, s)
				neg := r.Intn(2) == 0
				want := bigOf(neg, id, fd)
				if want.Sign() == 0 {
					neg = false
				}
				enc := EncodeDecimal(p, s, neg, id, fd)
				got := decodeDecimalBig(t, p, s, enc)
				if got.Cmp(want) != 0 {
					t.Fatalf("(%d,%d) neg=%v %q.%q: bytes % X decode to %v want %v", p, s, neg, id, fd, enc, got, want)
				}
				// the text, read back as a number scaled by 10^s, is the same value
				txt := DecimalText(neg, id, fd)
				rat, ok := new(big.Rat).SetString(txt)
				if !ok {
					t.Fatalf("text %q unparsable", txt)
				}
				sc := new(big.Rat).SetInt(new(big.Int).Exp(big.NewInt(10), big.NewInt(int64(s)), nil))
				rat.Mul(rat, sc)
				if !rat.IsInt() || rat.Num().Cmp(want) != 0 {
					t.Fatalf("text %q is %v want %v", txt, rat, want)
				}
				if s > 0 && len(txt)-strings.IndexByte(txt, '.')-1 != s {
					t.Fatalf("text %q has wrong scale", txt)
				}
				n++
			}
		}
	}
	t.Logf("%d values", n)
}

// decimal2bin is designed so that memcmp order equals numeric order.
func TestDecimalOrderPreserving(t *testing.T) {
	r := rand.New(rand.NewSource(7))
	for p := 1; p <= 65; p++ {
		for s := 0; s <= p && s <= 30; s++ {
			for k := 0; k < 30; k++ {
				id1, fd1, id2, fd2 := randDigits(r, p-s), randDigits(r, s), randDigits(r, p-s), randDigits(r, s)
				if k%3 == 0 { // close neighbours
					id2 = id1
					if s > 0 {
						fd2 = fd1[:s-1] + string(byte('0'+r.Intn(10)))
					}
				}
				n1, n2 := r.Intn(2) == 0, r.Intn(2) == 0
				a, b := bigOf(n1, id1, fd1), bigOf(n2, id2, fd2)
				if a.Sign() == 0 {
					n1 = false
				}
				if b.Sign() == 0 {
					n2 = false
				}
				ea, eb := EncodeDecimal(p, s, n1, id1, fd1), EncodeDecimal(p, s, n2, id2, fd2)
				if bytes.Compare(ea, eb) != a.Cmp(b) {
					t.Fatalf("(%d,%d) %v vs %v: bytes % X vs % X compare %d", p, s, a, b, ea, eb, bytes.Compare(ea, eb))
				}
			}
		}
	}
}

func TestTemporalVectors(t *testing.T) {
	eq := func(name string, got []byte, want string) {
		t.Helper()
		if !bytes.Equal(got, hx(want)) {
			t.Errorf("%s = % X want %s", name, got, want)
		}
	}
	eq("date 2010-10-03", EncDate(2010, 10, 3), "43 b5 0f")
	eq("time 15:45:32", EncTimeOld(false, 15, 45, 32), "a4 5b 02")
	eq("time -00:00:01", EncTimeOld(true, 0, 0, 1), "ff ff ff")
	eq("time -838:59:59", EncTimeOld(true, 838, 59, 59), "59 0a 80") // 2^24-8385959 = 0x800a59
	eq("datetime old", EncDateTimeOld(1984, 3, 4, 15, 45, 32), "a4 07 48 6e 0b 12 00 00")
	eq("timestamp old", EncTimestampOld(0x58d137c5), "c5 37 d1 58")
	if time.Date(2017, 3, 21, 14, 25, 9, 0, time.UTC).Unix() != 0x58d137c5 {
		t.Fatal("reference instant wrong")
	}
	for fsp, want := range []string{"58 d1 37 c5", "58 d1 37 c5 46", "58 d1 37 c5 4c", "58 d1 37 c5 1d e2", "58 d1 37 c5 1d e6", "58 d1 37 c5 0b ad f6", "58 d1 37 c5 0b ad f8"} {
		eq(fmt.Sprintf("timestamp2 fsp%d", fsp), EncTimestamp2(0x58d137c5, 765432, fsp), want)
	}
	for fsp, want := range []string{"99 8c aa fb 51", "99 8c aa fb 51 46", "99 8c aa fb 51 4c", "99 8c aa fb 51 1d e2", "99 8c aa fb 51 1d e6", "99 8c aa fb 51 0b ad f6", "99 8c aa fb 51 0b ad f8"} {
		eq(fmt.Sprintf("datetime2 fsp%d", fsp), EncDateTime2(2012, 6, 21, 15, 45, 17, 765432, fsp), want)
	}
	// table in the comment of my_time_packed_from_binary (my_time.c)
	for _, c := range []struct {
		neg        bool
		s, unit    int // value = s seconds + unit units of the last digit
		b2, b4, b6 string
	}{
		{false, 0, 0, "80 00 00 00", "80 00 00 00 00", "80 00 00 00 00 00"},
		{true, 0, 1, "7f ff ff ff", "7f ff ff ff ff", "7f ff ff ff ff ff"},
		{true, 0, 99, "7f ff ff 9d", "7f ff ff ff 9d", "7f ff ff ff ff 9d"},
		{true, 1, 0, "7f ff ff 00", "7f ff ff 00 00", "7f ff ff 00 00 00"},
		{true, 1, 1, "7f ff fe ff", "7f ff fe ff ff", "7f ff fe ff ff ff"},
		{true, 1, 10, "7f ff fe f6", "7f ff fe ff f6", "7f ff fe ff ff f6"},
	} {
		eq("time2(2)", EncTime2(c.neg, 0, 0, c.s, c.unit*10000, 2), c.b2)
		eq("time2(4)", EncTime2(c.neg, 0, 0, c.s, c.unit*100, 4), c.b4)
		eq("time2(6)", EncTime2(c.neg, 0, 0, c.s, c.unit, 6), c.b6)
	}
	eq("time2(0) 00:00:00", EncTime2(false, 0, 0, 0, 0, 0), "80 00 00")
	eq("time2(1) 00:00:01.1", EncTime2(false, 0, 0, 1, 100000, 1), "80 00 01 0a")
	eq("time2(2) 00:00:01.10", EncTime2(false, 0, 0, 1, 100000, 2), "80 00 01 0a")
	eq("time2(0) 15:34:54", EncTime2(false, 15, 34, 54, 999999, 0), "80 f8 b6")
	eq("time2(0) -15:34:54", EncTime2(true, 15, 34, 54, 0, 0), "7f 07 4a")
}

// Re-derivation of TIME2: the stored form is the (3+k)-byte big-endian number
// offset + sign * (hms * 256^k + scaled fraction), k = fraction bytes, the
// fraction scaled to 2k digits.
func time2Alt(neg bool, h, m, s, micro, fsp int) []byte {
	k := (fsp + 1) / 2
	us := micro - micro%pow10[6-fsp]
	scaled := int64(us / pow10[6-2*k])
	n := (int64(h)<<12|int64(m)<<6|int64(s))<<(8*uint(k)) + scaled
	if neg {
		n = -n
	}
	n += int64(0x800000) << (8 * uint(k))
	out := make([]byte, 3+k)
	for i := len(out) - 1; i >= 0; i-- {
		out[i] = byte(n)
		n >>= 8
	}
	return out
}

// my_time_packed_from_binary, written from the my_time.c reader: returns the packed value.
func time2Read(b []byte, fsp int) int64 {
	ip := int64(b[0])<<16 | int64(b[1])<<8 | int64(b[2])
	ip -= 0x800000
	switch fsp {
	case 0:
		return ip << 24
	case 1, 2:
		frac := int64(b[3])
		if ip < 0 && frac != 0 {
			ip++
			frac -= 0x100
		}
		return ip<<24 + frac*10000
	case 3, 4:
		frac := int64(b[3])<<8 | int64(b[4])
		if ip < 0 && frac != 0 {
			ip++
			frac -= 0x10000
		}
		return ip<<24 + frac*100
	default:
		v := int64(0)
		for i := 0; i < 6; i++ {
			v = v<<8 | int64(b[i])
		}
		return v - 0x800000000000
	}
}

func TestTime2Derivations(t *testing.T) {
	r := rand.New(rand.NewSource(3))
	for i := 0; i < 400000; i++ {
		fsp := r.Intn(7)
		h, m, s, us := r.Intn(839), r.Intn(60), r.Intn(60), r.Intn(1000000)
		switch r.Intn(6) {
		case 0:
			h, m, s = 0, 0, 0
		case 1:
			us = 0
		case 2:
			h = 838
		}
		neg := r.Intn(2) == 0
		tr := TruncMicro(us, fsp)
		if h == 0 && m == 0 && s == 0 && tr == 0 {
			neg = false
		}
		got := EncTime2(neg, h, m, s, us, fsp)
		if len(got) != 3+(fsp+1)/2 {
			t.Fatalf("length %d for fsp %d", len(got), fsp)
		}
		if alt := time2Alt(neg, h, m, s, us, fsp); !bytes.Equal(got, alt) {
			t.Fatalf("neg=%v %d:%d:%d.%06d fsp %d: % X vs re-derivation % X", neg, h, m, s, us, fsp, got, alt)
		}
		want := (int64(h)<<12|int64(m)<<6|int64(s))<<24 + int64(tr)
		if neg {
			want = -want
		}
		if back := time2Read(got, fsp); back != want {
			t.Fatalf("neg=%v %d:%d:%d.%06d fsp %d: % X reads back %d want %d", neg, h, m, s, us, fsp, got, back, want)
		}
	}
	// binary order == numeric order (the reason for the offset format)
	for fsp := 0; fsp <= 6; fsp++ {
		for i := 0; i < 50000; i++ {
			h1, m1, s1, u1, n1 := r.Intn(3), r.Intn(60), r.Intn(60), r.Intn(1000000), r.Intn(2) == 0
			h2, m2, s2, u2, n2 := r.Intn(3), r.Intn(60), r.Intn(60), r.Intn(1000000), r.Intn(2) == 0
			if i%2 == 0 {
				h2, m2, s2, n2 = h1, m1, s1, n1
			}
			v1 := packedTime(n1, h1, m1, s1, TruncMicro(u1, fsp))
			v2 := packedTime(n2, h2, m2, s2, TruncMicro(u2, fsp))
			c := 0
			if v1 < v2 {
				c = -1
			} else if v1 > v2 {
				c = 1
			}
			if bytes.Compare(EncTime2(n1, h1, m1, s1, u1, fsp), EncTime2(n2, h2, m2, s2, u2, fsp)) != c {
				t.Fatalf("order broken fsp %d: %d vs %d", fsp, v1, v2)
			}
		}
	}
}

func TestTexts(t *testing.T) {
	for _, c := range []struct{ got, want string }{
		{DateText(0, 0, 0), "0000-00-00"},
		{DateText(2024, 2, 29), "2024-02-29"},
		{DateText(9999, 12, 31), "9999-12-31"},
		{TimeText(false, 0, 0, 0, 0, 0), "00:00:00"},
		{TimeText(true, 0, 0, 1, 0, 0), "-00:00:01"},
		{TimeText(true, 1, 1, 1, 0, 0), "-01:01:01"},
		{TimeText(true, 838, 59, 59, 0, 0), "-838:59:59"},
		{TimeText(false, 100, 0, 0, 5, 6), "100:00:00.000005"},
		{TimeText(true, 0, 0, 0, 500000, 1), "-00:00:00.5"},
		{TimeText(true, 0, 0, 0, 50000, 1), "00:00:00.0"},
		{TimeText(false, 1, 2, 3, 123456, 3), "01:02:03.123"},
		{DateTimeText(2012, 6, 21, 15, 45, 17, 765432, 5), "2012-06-21 15:45:17.76543"},
		{DateTimeText(0, 0, 0, 0, 0, 0, 0, 0), "0000-00-00 00:00:00"},
		{TimestampText(0, 0, 3, time.UTC), "0000-00-00 00:00:00.000"},
		{TimestampText(1, 0, 0, time.UTC), "1970-01-01 00:00:01"},
		{TimestampText(0x58d137c5, 765432, 4, time.UTC), "2017-03-21 14:25:09.7654"},
		{TimestampText(0x58d137c5, 0, 0, time.FixedZone("x", 5*3600+45*60)), "2017-03-21 20:10:09"},
		{TimestampText(4294967295, 999999, 6, time.UTC), "2106-02-07 06:28:15.999999"},
	} {
		if c.got != c.want {
			t.Errorf("got %q want %q", c.got, c.want)
		}
	}
}
