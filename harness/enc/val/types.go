// Package val holds independent encoders for single column values ("cell
// images" of row events) and the canonical text MySQL prints for them. It is
// written from the MySQL sources (strings/decimal.c, sql-common/my_time.c,
// include/field_types.h) and does not import or copy the library under test.
package val

// MySQL column type codes (enum_field_types, include/field_types.h) as they
// appear in TABLE_MAP events.
const (
	TypeDecimal    = 0
	TypeTiny       = 1
	TypeShort      = 2
	TypeLong       = 3
	TypeFloat      = 4
	TypeDouble     = 5
	TypeNull       = 6
	TypeTimestamp  = 7
	TypeLongLong   = 8
	TypeInt24      = 9
	TypeDate       = 10
	TypeTime       = 11
	TypeDateTime   = 12
	TypeYear       = 13
	TypeNewDate    = 14
	TypeVarchar    = 15
	TypeBit        = 16
	TypeTimestamp2 = 17
	TypeDateTime2  = 18
	TypeTime2      = 19
	TypeJSON       = 245
	TypeNewDecimal = 246
	TypeEnum       = 247
	TypeSet        = 248
	TypeTinyBlob   = 249
	TypeMediumBlob = 250
	TypeLongBlob   = 251
	TypeBlob       = 252
	TypeVarString  = 253
	TypeString     = 254
	TypeGeometry   = 255
)
