// Package val: TEMPORARY STUB (replaced by the real package).
package val

import "time"

func DecimalBinSize(p, s int) int                                         { return 0 }
func EncodeDecimal(p, s int, neg bool, intDigits, fracDigits string) []byte { return nil }
func DecimalText(neg bool, intDigits, fracDigits string) string            { return "" }
func EncDate(y, m, d int) []byte                                           { return nil }
func DateText(y, m, d int) string                                          { return "" }
func EncTimeOld(neg bool, h, m, s int) []byte                              { return nil }
func TimeText(neg bool, h, m, s, micro, fsp int) string                    { return "" }
func EncDateTimeOld(y, mo, d, h, mi, s int) []byte                         { return nil }
func DateTimeText(y, mo, d, h, mi, s, micro, fsp int) string               { return "" }
func EncTimestampOld(sec uint32) []byte                                    { return nil }
func TimestampText(sec uint32, micro, fsp int, loc *time.Location) string  { return "" }
func EncTime2(neg bool, h, m, s, micro, fsp int) []byte                    { return nil }
func EncDateTime2(y, mo, d, h, mi, s, micro, fsp int) []byte               { return nil }
func EncTimestamp2(sec uint32, micro, fsp int) []byte                      { return nil }
