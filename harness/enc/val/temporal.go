package val

import "time"

// All functions take the fraction as microseconds (0..999999) and truncate it
// themselves to the column's fsp (number of fraction digits, 0..6): a column
// declared with fsp digits never stores more.

var pow10 = [7]int{1, 10, 100, 1000, 10000, 100000, 1000000}

// TruncMicro drops the digits of micro that an fsp-digit column cannot hold.
func TruncMicro(micro, fsp int) int {
	if fsp < 0 || fsp > 6 {
		panic("val: fsp out of range")
	}
	if micro < 0 || micro > 999999 {
		panic("val: micro out of range")
	}
	return micro - micro%pow10[6-fsp]
}

func appendNum(b []byte, v, width int) []byte {
	if v < 0 {
		panic("val: negative field")
	}
	var tmp [20]byte
	i := len(tmp)
	for v > 0 || i == len(tmp) {
		i--
		tmp[i] = byte('0' + v%10)
		v /= 10
	}
	for len(tmp)-i < width {
		i--
		tmp[i] = '0'
	}
	return append(b, tmp[i:]...)
}

func appendFrac(b []byte, micro, fsp int) []byte {
	if fsp == 0 {
		return b
	}
	b = append(b, '.')
	return appendNum(b, TruncMicro(micro, fsp)/pow10[6-fsp], fsp)
}

// ---------------------------------------------------------------- DATE

// EncDate is the 3-byte little-endian DATE / NEWDATE image: day | month<<5 | year<<9.
func EncDate(y, m, d int) []byte {
	v := uint32(d) | uint32(m)<<5 | uint32(y)<<9
	return []byte{byte(v), byte(v >> 8), byte(v >> 16)}
}

// DateText is "YYYY-MM-DD".
func DateText(y, m, d int) string {
	b := make([]byte, 0, 10)
	b = appendNum(b, y, 4)
	b = append(b, '-')
	b = appendNum(b, m, 2)
	b = append(b, '-')
	b = appendNum(b, d, 2)
	return string(b)
}

// ---------------------------------------------------------------- TIME

// EncTimeOld is the pre-5.6.4 TIME image: the signed number ±hhmmss in 3 bytes,
// little endian, two's complement.
func EncTimeOld(neg bool, h, m, s int) []byte {
	n := int32(h*10000 + m*100 + s)
	if neg {
		n = -n
	}
	v := uint32(n)
	return []byte{byte(v), byte(v >> 8), byte(v >> 16)}
}

// TimeText is "[-]HH:MM:SS[.f…]": hours with at least two digits (up to 838),
// exactly fsp fraction digits. The sign is printed for every negative value,
// including -00:00:00.5; a negative zero does not exist.
func TimeText(neg bool, h, m, s, micro, fsp int) string {
	us := TruncMicro(micro, fsp)
	b := make([]byte, 0, 20)
	if neg && (h != 0 || m != 0 || s != 0 || us != 0) {
		b = append(b, '-')
	}
	b = appendNum(b, h, 2)
	b = append(b, ':')
	b = appendNum(b, m, 2)
	b = append(b, ':')
	b = appendNum(b, s, 2)
	b = appendFrac(b, us, fsp)
	return string(b)
}

// packedTime is TIME_to_longlong_time_packed: ±(((h<<12 | m<<6 | s) << 24) + micro).
func packedTime(neg bool, h, m, s, micro int) int64 {
	v := (int64(h)<<12|int64(m)<<6|int64(s))<<24 + int64(micro)
	if neg {
		v = -v
	}
	return v
}

// EncTime2 is my_time_packed_to_binary (TIME(fsp), 3 + (fsp+1)/2 bytes, big endian).
func EncTime2(neg bool, h, m, s, micro, fsp int) []byte {
	v := packedTime(neg, h, m, s, TruncMicro(micro, fsp))
	const intOfs = 0x800000          // TIMEF_INT_OFS
	const ofs = 0x800000000000       // TIMEF_OFS
	intpart := v >> 24               // MY_PACKED_TIME_GET_INT_PART: arithmetic shift
	fracpart := v % (int64(1) << 24) // MY_PACKED_TIME_GET_FRAC_PART: C remainder, sign of v
	u := uint32(intOfs + intpart)    // mi_int3store keeps the low 3 bytes
	out := []byte{byte(u >> 16), byte(u >> 8), byte(u)}
	switch fsp {
	case 0:
	case 1, 2:
		out = append(out, byte(int8(fracpart/10000)))
	case 3, 4:
		w := uint16(int16(fracpart / 100))
		out = append(out, byte(w>>8), byte(w))
	case 5, 6:
		x := uint64(v + ofs)
		out = []byte{byte(x >> 40), byte(x >> 32), byte(x >> 24), byte(x >> 16), byte(x >> 8), byte(x)}
	}
	return out
}

// ---------------------------------------------------------------- DATETIME

// EncDateTimeOld is the pre-5.6.4 DATETIME image: the number YYYYMMDDhhmmss in 8 bytes LE.
func EncDateTimeOld(y, mo, d, h, mi, s int) []byte {
	n := uint64(y)*10000000000 + uint64(mo)*100000000 + uint64(d)*1000000 +
		uint64(h)*10000 + uint64(mi)*100 + uint64(s)
	out := make([]byte, 8)
	for i := 0; i < 8; i++ {
		out[i] = byte(n >> (8 * uint(i)))
	}
	return out
}

// DateTimeText is "YYYY-MM-DD HH:MM:SS[.f…]".
func DateTimeText(y, mo, d, h, mi, s, micro, fsp int) string {
	b := make([]byte, 0, 26)
	b = appendNum(b, y, 4)
	b = append(b, '-')
	b = appendNum(b, mo, 2)
	b = append(b, '-')
	b = appendNum(b, d, 2)
	b = append(b, ' ')
	b = appendNum(b, h, 2)
	b = append(b, ':')
	b = appendNum(b, mi, 2)
	b = append(b, ':')
	b = appendNum(b, s, 2)
	b = appendFrac(b, micro, fsp)
	return string(b)
}

// appendFracBytes appends the fraction bytes shared by DATETIME2 and
// TIMESTAMP2 (non-negative fractions): 1 byte micro/10000 for fsp 1-2, 2 bytes
// micro/100 for fsp 3-4, 3 bytes micro for fsp 5-6, big endian.
func appendFracBytes(out []byte, micro, fsp int) []byte {
	us := TruncMicro(micro, fsp)
	switch fsp {
	case 1, 2:
		out = append(out, byte(us/10000))
	case 3, 4:
		w := us / 100
		out = append(out, byte(w>>8), byte(w))
	case 5, 6:
		out = append(out, byte(us>>16), byte(us>>8), byte(us))
	}
	return out
}

// EncDateTime2 is my_datetime_packed_to_binary: 5 bytes BE of
// 0x8000000000 + ((y*13+mo)<<22 | d<<17 | h<<12 | mi<<6 | s), then the fraction bytes.
func EncDateTime2(y, mo, d, h, mi, s, micro, fsp int) []byte {
	ym := uint64(y)*13 + uint64(mo)
	ymd := ym<<5 | uint64(d)
	hms := uint64(h)<<12 | uint64(mi)<<6 | uint64(s)
	x := uint64(0x8000000000) + (ymd<<17 | hms)
	out := []byte{byte(x >> 32), byte(x >> 24), byte(x >> 16), byte(x >> 8), byte(x)}
	return appendFracBytes(out, micro, fsp)
}

// ---------------------------------------------------------------- TIMESTAMP

// EncTimestampOld is the pre-5.6.4 TIMESTAMP image: seconds since the epoch, 4 bytes LE.
func EncTimestampOld(sec uint32) []byte {
	return []byte{byte(sec), byte(sec >> 8), byte(sec >> 16), byte(sec >> 24)}
}

// EncTimestamp2 is my_timestamp_to_binary: 4 bytes BE seconds, then the fraction bytes.
func EncTimestamp2(sec uint32, micro, fsp int) []byte {
	out := []byte{byte(sec >> 24), byte(sec >> 16), byte(sec >> 8), byte(sec)}
	return appendFracBytes(out, micro, fsp)
}

// TimestampText renders a TIMESTAMP the way the server does for a session in
// time zone loc: seconds 0 is the zero timestamp "0000-00-00 00:00:00" (with an
// all-zero fraction), anything else is the civil time of that instant in loc.
func TimestampText(sec uint32, micro, fsp int, loc *time.Location) string {
	if sec == 0 {
		return DateTimeText(0, 0, 0, 0, 0, 0, 0, fsp)
	}
	t := time.Unix(int64(sec), 0).In(loc)
	return DateTimeText(t.Year(), int(t.Month()), t.Day(), t.Hour(), t.Minute(), t.Second(), micro, fsp)
}
