// Package ev is an independent encoder of MySQL binlog v4 events, written from
// the MySQL internals documentation (see DESIGN.md Appendix A). It shares no
// code with the repository under test.
package ev

import (
	"encoding/binary"
	"hash/crc32"
)

// Event type codes (binlog_event.h).
const (
	Unknown           = 0
	StartV3           = 1
	Query             = 2
	Stop              = 3
	Rotate            = 4
	IntVar            = 5
	Load              = 6
	Slave             = 7
	CreateFile        = 8
	AppendBlock       = 9
	ExecLoad          = 10
	DeleteFile        = 11
	NewLoad           = 12
	Rand              = 13
	UserVar           = 14
	FormatDescription = 15
	XID               = 16
	BeginLoadQuery    = 17
	ExecuteLoadQuery  = 18
	TableMap          = 19
	WriteRowsV0       = 20
	UpdateRowsV0      = 21
	DeleteRowsV0      = 22
	WriteRowsV1       = 23
	UpdateRowsV1      = 24
	DeleteRowsV1      = 25
	Incident          = 26
	Heartbeat         = 27
	Ignorable         = 28
	RowsQuery         = 29
	WriteRowsV2       = 30
	UpdateRowsV2      = 31
	DeleteRowsV2      = 32
	GTID              = 33
	AnonymousGTID     = 34
	PreviousGTIDs     = 35
	TransactionCtx    = 36
	ViewChange        = 37
	XAPrepare         = 38
	MariaAnnotateRows = 160
	MariaCheckpoint   = 161
	MariaGTID         = 162
	MariaGTIDList     = 163
)

// Column type codes (mysql_com.h / field_types).
const (
	TDecimal    = 0
	TTiny       = 1
	TShort      = 2
	TLong       = 3
	TFloat      = 4
	TDouble     = 5
	TNull       = 6
	TTimestamp  = 7
	TLongLong   = 8
	TInt24      = 9
	TDate       = 10
	TTime       = 11
	TDateTime   = 12
	TYear       = 13
	TNewDate    = 14
	TVarchar    = 15
	TBit        = 16
	TTimestamp2 = 17
	TDateTime2  = 18
	TTime2      = 19
	TJSON       = 245
	TNewDecimal = 246
	TEnum       = 247
	TSet        = 248
	TTinyBlob   = 249
	TMediumBlob = 250
	TLongBlob   = 251
	TBlob       = 252
	TVarString  = 253
	TString     = 254
	TGeometry   = 255
)

// Flags
const (
	FlagArtificial = 0x0020
	FlagStmtEnd    = 0x0001 // rows event flag STMT_END_F
)

// Cfg describes how a binlog file is written.
type Cfg struct {
	Checksum       bool   // CRC32 on every event
	ChecksumAlg    byte   // value of the algorithm byte when Checksum is false (0 = off, 255 = undef)
	ServerVersion  string // up to 50 bytes
	NumTypes       int    // number of post-header-length entries in the format description
	TableID4       bool   // 4-byte table ids (table map and rows v1 post header 6)
	RowsV2         bool   // rows events v2 (30..32) instead of v1 (23..25)
	GTIDPostHeader int    // 25 (5.6) or 42 (5.7+)
	ServerID       uint32
	// PadOnes sets the unused high bits of the last byte of the presence and
	// NULL bitmaps of rows events (servers set them, bitmap_set_all; a reader
	// must ignore them).
	PadOnes bool
}

// DefaultCfg is a 5.7-like configuration.
func DefaultCfg() *Cfg {
	return &Cfg{ServerVersion: "5.7.30-log", NumTypes: 38, RowsV2: true, GTIDPostHeader: 42, ServerID: 1}
}

func le16(v uint16) []byte { b := make([]byte, 2); binary.LittleEndian.PutUint16(b, v); return b }
func le32(v uint32) []byte { b := make([]byte, 4); binary.LittleEndian.PutUint32(b, v); return b }
func le64(v uint64) []byte { b := make([]byte, 8); binary.LittleEndian.PutUint64(b, v); return b }

// Lenenc is the length-encoded integer of the client/server protocol.
func Lenenc(n uint64) []byte {
	switch {
	case n < 251:
		return []byte{byte(n)}
	case n < 1<<16:
		return []byte{0xfc, byte(n), byte(n >> 8)}
	case n < 1<<24:
		return []byte{0xfd, byte(n), byte(n >> 8), byte(n >> 16)}
	default:
		b := []byte{0xfe}
		return append(b, le64(n)...)
	}
}

// LenencWide encodes n in a chosen (possibly over-wide) form: 1, 3, 4 or 9 bytes.
func LenencWide(n uint64, width int) []byte {
	switch width {
	case 3:
		return []byte{0xfc, byte(n), byte(n >> 8)}
	case 4:
		return []byte{0xfd, byte(n), byte(n >> 8), byte(n >> 16)}
	case 9:
		return append([]byte{0xfe}, le64(n)...)
	}
	return Lenenc(n)
}

// PostHeaderLens is the per-event-type post-header length table (index = type-1).
func (c *Cfg) PostHeaderLens() []byte {
	n := c.NumTypes
	if n < 27 {
		n = 27
	}
	t := make([]byte, n)
	set := func(typ int, v byte) {
		if typ-1 < len(t) {
			t[typ-1] = v
		}
	}
	set(StartV3, 56)
	set(Query, 13)
	set(Rotate, 8)
	set(Load, 18)
	set(CreateFile, 4)
	set(AppendBlock, 4)
	set(ExecLoad, 4)
	set(DeleteFile, 4)
	set(NewLoad, 18)
	fdl := 2 + 50 + 4 + 1 + n
	if fdl > 255 {
		fdl = 255
	}
	set(FormatDescription, byte(fdl))
	set(BeginLoadQuery, 4)
	set(ExecuteLoadQuery, 26)
	tm, r1 := byte(8), byte(8)
	if c.TableID4 {
		tm, r1 = 6, 6
	}
	set(TableMap, tm)
	set(WriteRowsV1, r1)
	set(UpdateRowsV1, r1)
	set(DeleteRowsV1, r1)
	set(Incident, 2)
	set(WriteRowsV2, 10)
	set(UpdateRowsV2, 10)
	set(DeleteRowsV2, 10)
	g := byte(c.GTIDPostHeader)
	if g == 0 {
		g = 25
	}
	set(GTID, g)
	set(AnonymousGTID, g)
	set(TransactionCtx, 18)
	set(ViewChange, 52)
	return t
}

// Header builds the 19-byte common header.
func Header(ts uint32, typ byte, serverID uint32, evLen uint32, nextPos uint32, flags uint16) []byte {
	h := make([]byte, 19)
	binary.LittleEndian.PutUint32(h[0:], ts)
	h[4] = typ
	binary.LittleEndian.PutUint32(h[5:], serverID)
	binary.LittleEndian.PutUint32(h[9:], evLen)
	binary.LittleEndian.PutUint32(h[13:], nextPos)
	binary.LittleEndian.PutUint16(h[17:], flags)
	return h
}

// Raw builds header+body and appends a CRC32 when withCRC.
func Raw(ts uint32, typ byte, serverID uint32, flags uint16, body []byte, nextPos uint32, withCRC bool) []byte {
	l := 19 + len(body)
	if withCRC {
		l += 4
	}
	b := append(Header(ts, typ, serverID, uint32(l), nextPos, flags), body...)
	if withCRC {
		b = append(b, le32(crc32.ChecksumIEEE(b))...)
	}
	return b
}

// Len is the on-disk length of an event with this body under the configuration.
func (c *Cfg) Len(body []byte) int {
	l := 19 + len(body)
	if c.Checksum {
		l += 4
	}
	return l
}

// Event builds an event that starts at file offset start; next_position is its end.
func (c *Cfg) Event(ts uint32, typ byte, flags uint16, body []byte, start uint32) []byte {
	return Raw(ts, typ, c.ServerID, flags, body, start+uint32(c.Len(body)), c.Checksum)
}

// EventNext builds an event with an explicit next_position (fake events use 0).
func (c *Cfg) EventNext(ts uint32, typ byte, flags uint16, body []byte, nextPos uint32) []byte {
	return Raw(ts, typ, c.ServerID, flags, body, nextPos, c.Checksum)
}

// FormatDescriptionBody is version, server version, create time, header length,
// post-header lengths and the checksum algorithm byte.
func (c *Cfg) FormatDescriptionBody(createTS uint32) []byte {
	b := le16(4)
	sv := make([]byte, 50)
	copy(sv, c.ServerVersion)
	b = append(b, sv...)
	b = append(b, le32(createTS)...)
	b = append(b, 19)
	b = append(b, c.PostHeaderLens()...)
	alg := c.ChecksumAlg
	if c.Checksum {
		alg = 1
	}
	return append(b, alg)
}

// FormatDescriptionLen is the on-disk length of the format description event.
func (c *Cfg) FormatDescriptionLen() int { return 19 + len(c.FormatDescriptionBody(0)) + 4 }

// FormatDescriptionEvent always carries the algorithm byte and a CRC.
func (c *Cfg) FormatDescriptionEvent(ts uint32, nextPos uint32, flags uint16) []byte {
	return Raw(ts, FormatDescription, c.ServerID, flags, c.FormatDescriptionBody(ts), nextPos, true)
}

// RotateBody is position[8] name.
func RotateBody(pos uint64, name string) []byte { return append(le64(pos), name...) }

// XIDBody is xid[8].
func XIDBody(xid uint64) []byte { return le64(xid) }

// IntVarBody is type[1] value[8].
func IntVarBody(typ byte, v uint64) []byte { return append([]byte{typ}, le64(v)...) }

// RandBody is seed1[8] seed2[8].
func RandBody(s1, s2 uint64) []byte { return append(le64(s1), le64(s2)...) }

// RowsQueryBody is len[1] text.
func RowsQueryBody(text string) []byte {
	l := len(text)
	if l > 255 {
		l = 255
	}
	return append([]byte{byte(l)}, text...)
}

// QueryBody is thread_id exec_time db_len error vars_len vars db 0 sql.
func QueryBody(threadID, execTime uint32, db string, errCode uint16, statusVars []byte, sql string) []byte {
	b := le32(threadID)
	b = append(b, le32(execTime)...)
	b = append(b, byte(len(db)))
	b = append(b, le16(errCode)...)
	b = append(b, le16(uint16(len(statusVars)))...)
	b = append(b, statusVars...)
	b = append(b, db...)
	b = append(b, 0)
	return append(b, sql...)
}

// StatusVar payload builders, in the order a server emits them.
type StatusVars struct{ b []byte }

func (s *StatusVars) Bytes() []byte { return s.b }
func (s *StatusVars) Flags2(v uint32) *StatusVars {
	s.b = append(append(s.b, 0), le32(v)...)
	return s
}
func (s *StatusVars) SQLMode(v uint64) *StatusVars {
	s.b = append(append(s.b, 1), le64(v)...)
	return s
}
func (s *StatusVars) CatalogNZ(name string) *StatusVars {
	s.b = append(append(s.b, 6, byte(len(name))), name...)
	return s
}

// CatalogOld is Q_CATALOG (code 2), the 5.0.0-5.0.3 form: length, name, NUL.
func (s *StatusVars) CatalogOld(name string) *StatusVars {
	s.b = append(append(append(s.b, 2, byte(len(name))), name...), 0)
	return s
}
func (s *StatusVars) AutoIncrement(inc, off uint16) *StatusVars {
	s.b = append(append(append(s.b, 3), le16(inc)...), le16(off)...)
	return s
}
func (s *StatusVars) Charset(client, conn, server uint16) *StatusVars {
	s.b = append(append(append(append(s.b, 4), le16(client)...), le16(conn)...), le16(server)...)
	return s
}
func (s *StatusVars) TimeZone(name string) *StatusVars {
	s.b = append(append(s.b, 5, byte(len(name))), name...)
	return s
}
func (s *StatusVars) LcTimeNames(v uint16) *StatusVars {
	s.b = append(append(s.b, 7), le16(v)...)
	return s
}
func (s *StatusVars) CharsetDatabase(v uint16) *StatusVars {
	s.b = append(append(s.b, 8), le16(v)...)
	return s
}
func (s *StatusVars) TableMapForUpdate(v uint64) *StatusVars {
	s.b = append(append(s.b, 9), le64(v)...)
	return s
}
func (s *StatusVars) MasterDataWritten(v uint32) *StatusVars {
	s.b = append(append(s.b, 10), le32(v)...)
	return s
}
func (s *StatusVars) Invoker(user, host string) *StatusVars {
	s.b = append(append(s.b, 11, byte(len(user))), user...)
	s.b = append(append(s.b, byte(len(host))), host...)
	return s
}
func (s *StatusVars) UpdatedDBNames(names []string) *StatusVars {
	if names == nil {
		s.b = append(s.b, 12, 254)
		return s
	}
	s.b = append(s.b, 12, byte(len(names)))
	for _, n := range names {
		s.b = append(append(s.b, n...), 0)
	}
	return s
}
func (s *StatusVars) Microseconds(v uint32) *StatusVars {
	s.b = append(s.b, 13, byte(v), byte(v>>8), byte(v>>16))
	return s
}
func (s *StatusVars) ExplicitDefaultsTS(v byte) *StatusVars { s.b = append(s.b, 16, v); return s }
func (s *StatusVars) DDLLoggedWithXID(v uint64) *StatusVars {
	s.b = append(append(s.b, 17), le64(v)...)
	return s
}
func (s *StatusVars) DefaultCollationUTF8MB4(v uint16) *StatusVars {
	s.b = append(append(s.b, 18), le16(v)...)
	return s
}
func (s *StatusVars) SQLRequirePK(v byte) *StatusVars           { s.b = append(s.b, 19, v); return s }
func (s *StatusVars) DefaultTableEncryption(v byte) *StatusVars { s.b = append(s.b, 20, v); return s }

// MetaBytes serialises one column's metadata as it appears in a table map.
// The uint16 convention is: one-byte metadata in the low byte; NEWDECIMAL
// precision<<8|scale; STRING/ENUM/SET byte0<<8|byte1; VARCHAR/VAR_STRING the
// maximum length; BIT (bits/8)<<8 | bits%8.
func MetaBytes(typ byte, meta uint16) []byte {
	switch typ {
	case TFloat, TDouble, TTimestamp2, TDateTime2, TTime2, TJSON, TTinyBlob, TMediumBlob, TLongBlob, TBlob, TGeometry:
		return []byte{byte(meta)}
	case TNewDecimal, TEnum, TSet, TString:
		return []byte{byte(meta >> 8), byte(meta)}
	case TVarchar, TVarString, TBit:
		return []byte{byte(meta), byte(meta >> 8)}
	}
	return nil
}

// Bitmap packs bools LSB first.
func Bitmap(bits []bool) []byte {
	b := make([]byte, (len(bits)+7)/8)
	for i, v := range bits {
		if v {
			b[i/8] |= 1 << (uint(i) & 7)
		}
	}
	return b
}

// rowsBitmap packs a presence / NULL bitmap of a rows event.
func (c *Cfg) rowsBitmap(bits []bool) []byte {
	b := Bitmap(bits)
	if c.PadOnes && len(bits)%8 != 0 && len(b) > 0 {
		b[len(b)-1] |= 0xff << uint(len(bits)%8)
	}
	return b
}

func (c *Cfg) tableID(id uint64) []byte {
	if c.TableID4 {
		return le32(uint32(id))
	}
	b := le64(id)
	return b[:6]
}

// TableMapBody builds a TABLE_MAP_EVENT body. optional is appended verbatim
// (optional metadata TLVs of newer servers). ncolsWidth chooses the lenenc form
// of the column count (0 = minimal).
func (c *Cfg) TableMapBody(tableID uint64, flags uint16, db, tbl string, types []byte, meta []uint16, nullable []bool, optional []byte) []byte {
	b := c.tableID(tableID)
	b = append(b, le16(flags)...)
	b = append(b, byte(len(db)))
	b = append(b, db...)
	b = append(b, 0, byte(len(tbl)))
	b = append(b, tbl...)
	b = append(b, 0)
	b = append(b, Lenenc(uint64(len(types)))...)
	b = append(b, types...)
	var mb []byte
	for i, t := range types {
		mb = append(mb, MetaBytes(t, meta[i])...)
	}
	b = append(b, Lenenc(uint64(len(mb)))...)
	b = append(b, mb...)
	b = append(b, Bitmap(nullable)...)
	return append(b, optional...)
}

// RowImage is one row of a rows event: images are already-encoded cell bytes.
type RowImage struct {
	BeforeNull []bool // over the columns present in the before image
	Before     []byte
	AfterNull  []bool // over the columns present in the after image
	After      []byte
}

// RowsKind selects write / update / delete.
type RowsKind int

const (
	KWrite RowsKind = iota
	KUpdate
	KDelete
)

// RowsType is the event type code for the kind under the configuration.
func (c *Cfg) RowsType(k RowsKind) byte {
	if c.RowsV2 {
		return byte(WriteRowsV2 + int(k))
	}
	return byte(WriteRowsV1 + int(k))
}

// RowsBody builds a rows event body. extra is the v2 extra data (without the
// 2-byte length, which counts itself). presentBefore / presentAfter are over
// all columns.
func (c *Cfg) RowsBody(k RowsKind, tableID uint64, flags uint16, extra []byte, ncols int, presentBefore, presentAfter []bool, rows []RowImage) []byte {
	b := c.tableID(tableID)
	b = append(b, le16(flags)...)
	if c.RowsV2 {
		b = append(b, le16(uint16(2+len(extra)))...)
		b = append(b, extra...)
	}
	b = append(b, Lenenc(uint64(ncols))...)
	if k == KUpdate || k == KDelete {
		b = append(b, c.rowsBitmap(presentBefore)...)
	}
	if k == KWrite || k == KUpdate {
		b = append(b, c.rowsBitmap(presentAfter)...)
	}
	for _, r := range rows {
		if k == KUpdate || k == KDelete {
			b = append(b, c.rowsBitmap(r.BeforeNull)...)
			b = append(b, r.Before...)
		}
		if k == KWrite || k == KUpdate {
			b = append(b, c.rowsBitmap(r.AfterNull)...)
			b = append(b, r.After...)
		}
	}
	return b
}

// GTIDBody is flags sid gno (+ the 5.7 tail when the post header is 42).
func (c *Cfg) GTIDBody(flags byte, sid [16]byte, gno int64, lastCommitted, seqNo int64) []byte {
	b := []byte{flags}
	b = append(b, sid[:]...)
	b = append(b, le64(uint64(gno))...)
	if c.GTIDPostHeader >= 42 {
		b = append(b, 2)
		b = append(b, le64(uint64(lastCommitted))...)
		b = append(b, le64(uint64(seqNo))...)
	}
	return b
}

// SIDInterval is [Start, EndExclusive).
type SIDInterval struct{ Start, End int64 }

// SIDEntry is one server uuid with its intervals.
type SIDEntry struct {
	SID       [16]byte
	Intervals []SIDInterval
}

// SIDBlock is n_sids { sid n_intervals { start end_exclusive } }.
func SIDBlock(entries []SIDEntry) []byte {
	b := le64(uint64(len(entries)))
	for _, e := range entries {
		b = append(b, e.SID[:]...)
		b = append(b, le64(uint64(len(e.Intervals)))...)
		for _, iv := range e.Intervals {
			b = append(b, le64(uint64(iv.Start))...)
			b = append(b, le64(uint64(iv.End))...)
		}
	}
	return b
}

// MariaGTIDBody is seq[8] domain[4] flags2[1] + padding.
func MariaGTIDBody(seq uint64, domain uint32, flags2 byte) []byte {
	b := le64(seq)
	b = append(b, le32(domain)...)
	b = append(b, flags2)
	return append(b, make([]byte, 6)...)
}
