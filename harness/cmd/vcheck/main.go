// vcheck is the orchestrator: it rebuilds the worker from /repo's current
// working tree (build tag verif), fans the scenarios of one property out over
// child processes, merges their results, classifies race-detector logs,
// applies known_findings.txt, writes /verif/evidence/<id>.json and prints the
// verdict lines.
//
// exit 0: held on everything observed (known findings are listed, not counted)
// exit 1: at least one violation not listed in known_findings.txt
// exit 2: inconclusive or broken (build failure, watchdog, coverage floor)
package main

import (
	"bufio"
	"bytes"
	"encoding/binary"
	"encoding/json"
	"fmt"
	"os"
	"os/exec"
	"path/filepath"
	"regexp"
	"sort"
	"strconv"
	"strings"
	"sync"
	"syscall"
	"time"
)

var verifDir = func() string {
	if v := os.Getenv("VERIF_DIR"); v != "" {
		return v
	}
	return "/verif"
}()

type pass struct {
	Name   string
	Race   bool
	Shards int
	Procs  int    // GOMAXPROCS, 0 = default
	TZ     string // TZ env, "" = UTC
}

type propPlan struct {
	Level  string
	Passes func(tier string) []pass
}

func plain(n int) func(string) []pass {
	return func(string) []pass { return []pass{{Name: "plain", Shards: n}} }
}

var plans = map[string]propPlan{
	"C01": {"exploration", func(string) []pass {
		return []pass{{Name: "plain", Shards: 8}, {Name: "plain-newyork", Shards: 4, TZ: "America/New_York"}, {Name: "race", Race: true, Shards: 4}}
	}},
	"C02": {"exploration", plain(16)},
	"C03": {"exploration", plain(16)},
	"C04": {"fault_enumeration", func(string) []pass {
		return []pass{{Name: "plain", Shards: 10}, {Name: "plain-p2", Shards: 3, Procs: 2}, {Name: "plain-p1", Shards: 3, Procs: 1}}
	}},
	"C05": {"fault_enumeration", func(string) []pass {
		return []pass{
			{Name: "race-p1", Race: true, Shards: 4, Procs: 1},
			{Name: "race-p2", Race: true, Shards: 4, Procs: 2},
			{Name: "race-p4", Race: true, Shards: 4, Procs: 4},
			{Name: "race-p16", Race: true, Shards: 4, Procs: 16},
		}
	}},
	"C06": {"fault_enumeration", func(string) []pass {
		return []pass{{Name: "plain", Shards: 7}, {Name: "plain-p2", Shards: 3, Procs: 2}, {Name: "race", Race: true, Shards: 6}}
	}},
	"C07": {"exploration", plain(8)},
	"C08": {"exploration", func(string) []pass {
		return []pass{{Name: "race", Race: true, Shards: 10}, {Name: "plain", Shards: 6}}
	}},
	"C09": {"exploration", plain(16)},
	"C10": {"exploration", plain(16)},
	"C11": {"exploration", plain(16)},
	"C12": {"exploration", func(string) []pass {
		return []pass{
			{Name: "tz-utc", Shards: 4, TZ: "UTC"},
			{Name: "tz-shanghai", Shards: 3, TZ: "Asia/Shanghai"},
			{Name: "tz-newyork", Shards: 3, TZ: "America/New_York"},
			{Name: "tz-lordhowe", Shards: 3, TZ: "Australia/Lord_Howe"},
			{Name: "tz-kathmandu", Shards: 3, TZ: "Asia/Kathmandu"},
			{Name: "setlocal-berlin", Shards: 2, TZ: "UTC"},
		}
	}},
	"C13":  {"exploration", plain(16)},
	"C14":  {"exploration", plain(16)},
	"C15":  {"exploration", plain(16)},
	"C16":  {"exploration", plain(16)},
	"C17":  {"fault_enumeration", plain(16)},
	"C18":  {"exploration", plain(16)},
	"C19":  {"exploration", plain(16)},
	"C20":  {"exploration", plain(16)},
	"SELF": {"other", plain(2)},
}

// floors lists, per property, coverage cells (by prefix) that a run must have
// observed at least once; otherwise the verdict is inconclusive, never "held".
var floors = map[string][]string{
	"C01": {"combo:", "start:mid-file", "start:4"},
	"C02": {"unit:TxXID", "unit:TxRollback", "unit:Rotate", "unit:Restart", "rollback-empty-delivery", "metamorphic-equal"},
	"C03": {"history:rotation", "history:large-offsets", "resumed", "chain:rotate-between", "label:offset>=2^31"},
	"C04": {"fault:fin", "fault:rst", "fault:err", "fault:eof", "fault:cancel-master", "fault:cancel-handler", "fault:handler-err", "fault:mapper-err", "fault:mapper-count", "fault:inject-rowsquery", "fault:inject-invalid", "fault:short0", "fault:badseq", "fault:connect-refused", "fault:read-error", "fault:inject-baddecode-before", "fault:inject-baddecode-write", "fault:inject-hdronly-tablemap", "fault:inject-hdronly-rows", "fault:inject-hdronly-query"},
	"C05": {"reader:network", "reader-busy-at-stop", "handler-at-stop:blocked", "handler-at-stop:slow", "quiescent", "cause:cancel", "cause:handler", "cause:preconnect", "cause:transport", "cause:master-err", "cause:eof", "cause:undecodable-event", "cell:cancel/reader=network", "long-history-with-packets>4096"},
	"C06": {"cause:cancel", "cause:eof", "cause:master-err", "cause:transport", "cause:handler", "cause:mapper", "cause:gate-reject", "cause:unsupported-event", "cause:undecodable-event", "cause:preconnect", "err-message-carried", "error-call:immediately", "error-call:after-quiescence", "deadline-passed-between-end-and-Error()"},
	"C07": {"attempt:position-set", "attempt:stored-position", "server-id>=2^31", "set-rejected", "stored-position-after-stream", "failed-before-dump:dump-write-fail", "failed-before-dump:set-close"},
	"C08": {"mode:observe", "mode:scribble"},
	"C15": {"stream:id-rebound-after-restart", "stream:id-rebound-to-name-differing-in-case-only", "stream:id-reannounced-with-other-column-count", "stream:hundreds-of-table-ids"},
	"C17": {"gate:structured", "gate:random-valid", "gate:random-invalid", "gate:truncated-or-extended-events", "stream:inject:empty", "stream:inject:truncated-by-1", "stream:inject:random", "stream:inject:first-13", "stream:inject:first-16", "stream:inject:gv-header-only", "stream:inject:gv-random-body", "gate:zero-width-rows-events", "gate:buffers-around-2^24"},
	"C10": {"e2e:values-compared"},
	"C11": {"e2e:values-compared"},
	"C12": {"e2e:values-compared", "tz=", "time.Local-set-by-the-program-after-start"},
	"C14": {"e2e:values-compared"},
	"C16": {"charset-pairs", "e2e:several-format-descriptions"},
	"C20": {"e2e:streamed-transactions", "held:batches", "dotted-names", "big-multibyte-values"},
}

type violation struct {
	Key    string `json:"key"`
	Msg    string `json:"msg"`
	Replay string `json:"replay"`
	Count  int64  `json:"count"`
}

type result struct {
	Property     string            `json:"property"`
	Pass         string            `json:"pass"`
	Shard        int               `json:"shard"`
	Evaluations  int64             `json:"evaluations"`
	BulkDistinct int64             `json:"bulk_distinct"`
	HashFile     string            `json:"hash_file"`
	HashCount    int64             `json:"hash_count"`
	Samples      []json.RawMessage `json:"samples"`
	Cells        map[string]int64  `json:"cells"`
	Violations   []violation       `json:"violations"`
	Inconclusive []string          `json:"inconclusive"`
	Exhaustive   []string          `json:"exhaustive"`
	Notes        map[string]int64  `json:"notes"`
	Rule         string            `json:"rule"`
	Assumptions  []string          `json:"assumptions"`
	Skipped      int64             `json:"skipped"`
	Fatal        string            `json:"fatal"`
	Done         bool              `json:"done"`
}

func die(code int, format string, a ...interface{}) {
	fmt.Fprintf(os.Stderr, "vcheck: "+format+"\n", a...)
	os.Exit(code)
}

func goEnv(extra ...string) []string {
	env := os.Environ()
	env = append(env, "GOFLAGS=-mod=mod", "GOPROXY=off", "GOSUMDB=off", "GOTOOLCHAIN=local", "CGO_ENABLED=1")
	return append(env, extra...)
}

func main() {
	args := os.Args[1:]
	if len(args) < 1 {
		die(2, "usage: vcheck <Cxx> [--tier quick|thorough] [--replay file] [--seed n] [--keep]")
	}
	prop := args[0]
	tier := os.Getenv("VERIF_TIER")
	tierFromFlag := false
	replay := ""
	keep := false
	seedStr := os.Getenv("VERIF_SEED")
	for i := 1; i < len(args); i++ {
		switch args[i] {
		case "--tier":
			i++
			if i < len(args) {
				tier = args[i]
				tierFromFlag = true
			}
		case "--replay":
			i++
			if i < len(args) {
				replay = args[i]
			}
		case "--seed":
			i++
			if i < len(args) {
				seedStr = args[i]
			}
		case "--keep":
			keep = true
		default:
			die(2, "unknown argument %q", args[i])
		}
	}
	_ = tierFromFlag
	if tier != "thorough" {
		tier = "quick"
	}
	seed := uint64(1)
	if seedStr != "" {
		v, err := strconv.ParseInt(seedStr, 10, 64)
		if err != nil {
			die(2, "bad seed %q", seedStr)
		}
		seed = uint64(v)
	}
	plan, ok := plans[prop]
	if !ok {
		die(2, "unknown property %q", prop)
	}
	start := time.Now()

	tmpRoot := os.Getenv("VERIF_TMP")
	if tmpRoot == "" {
		tmpRoot = "/var/tmp"
	}
	tmp, err := os.MkdirTemp(tmpRoot, "verif."+prop+".")
	if err != nil {
		die(2, "cannot create scratch dir: %v", err)
	}
	if !keep {
		defer os.RemoveAll(tmp)
	}
	exit := func(code int) {
		if !keep {
			os.RemoveAll(tmp)
		} else {
			fmt.Println("scratch kept at", tmp)
		}
		os.Exit(code)
	}

	passes := plan.Passes(tier)
	if replay != "" {
		// a replay runs the recorded scenario once, in the pass that found it
		var w struct {
			Pass string `json:"pass"`
			Tier string `json:"tier"`
			Seed uint64 `json:"seed"`
		}
		b, err := os.ReadFile(replay)
		if err != nil {
			die(2, "cannot read replay file: %v", err)
		}
		if err := json.Unmarshal(b, &w); err != nil {
			die(2, "bad replay file: %v", err)
		}
		var sel []pass
		for _, p := range passes {
			if p.Name == w.Pass {
				p.Shards = 1
				sel = append(sel, p)
			}
		}
		if len(sel) == 0 {
			p := passes[0]
			p.Shards = 1
			sel = []pass{p}
		}
		passes = sel
		if w.Tier != "" {
			tier = w.Tier
		}
		if w.Seed != 0 {
			seed = w.Seed
		}
	}

	// ---- build the workers from /repo's current tree
	needRace, needPlain := false, false
	for _, p := range passes {
		if p.Race {
			needRace = true
		} else {
			needPlain = true
		}
	}
	harness := filepath.Join(verifDir, "harness")
	repoDir := "/repo"
	modfile := ""
	if v := os.Getenv("VERIF_REPO"); v != "" && v != "/repo" {
		// development aid: build against another checkout of the repository
		// (registered commands never set this; they always use /repo)
		repoDir = v
		gm, err := os.ReadFile(filepath.Join(harness, "go.mod"))
		if err != nil {
			die(2, "cannot read go.mod: %v", err)
		}
		modfile = filepath.Join(tmp, "alt.mod")
		_ = os.WriteFile(modfile, []byte(strings.Replace(string(gm), "=> /repo", "=> "+repoDir, 1)), 0o644)
		if b, err := os.ReadFile(filepath.Join(repoDir, "go.sum")); err == nil {
			_ = os.WriteFile(filepath.Join(tmp, "alt.sum"), b, 0o644)
		}
		fmt.Println("NOTE: building against", repoDir)
	}
	if b, err := os.ReadFile(filepath.Join(repoDir, "go.sum")); err == nil && modfile == "" {
		_ = os.WriteFile(filepath.Join(harness, "go.sum"), b, 0o644)
	}
	build := func(race bool) string {
		out := filepath.Join(tmp, "vworker")
		a := []string{"build", "-tags", "verif"}
		if modfile != "" {
			a = append(a, "-modfile="+modfile)
		}
		if race {
			out += "-race"
			a = append(a, "-race")
		}
		a = append(a, "-o")
		a = append(a, out, "./cmd/vworker")
		cmd := exec.Command("go", a...)
		cmd.Dir = harness
		cmd.Env = goEnv()
		if o, err := cmd.CombinedOutput(); err != nil {
			fmt.Printf("BUILD-FAILED property=%s\n%s\n", prop, o)
			exit(2)
		}
		return out
	}
	var binPlain, binRace string
	var bw sync.WaitGroup
	if needPlain {
		bw.Add(1)
		go func() { defer bw.Done(); binPlain = build(false) }()
	}
	if needRace {
		bw.Add(1)
		go func() { defer bw.Done(); binRace = build(true) }()
	}
	bw.Wait()

	// ---- fan out
	watchdog := 25 * time.Minute
	if tier == "thorough" {
		watchdog = 4 * time.Hour
	}
	if v := os.Getenv("VERIF_WATCHDOG_S"); v != "" {
		if n, err := strconv.Atoi(v); err == nil {
			watchdog = time.Duration(n) * time.Second
		}
	}
	replayDir := filepath.Join(verifDir, "replays")
	if modfile != "" {
		replayDir = filepath.Join(tmpRoot, "verif-dev-replays")
	}
	type job struct {
		p      pass
		shard  int
		out    string
		stderr string
		err    string
	}
	var jobs []*job
	for _, p := range passes {
		for s := 0; s < p.Shards; s++ {
			jobs = append(jobs, &job{p: p, shard: s,
				out:    filepath.Join(tmp, fmt.Sprintf("res.%s.%d.json", p.Name, s)),
				stderr: filepath.Join(tmp, fmt.Sprintf("err.%s.%d.txt", p.Name, s))})
		}
	}
	var wg sync.WaitGroup
	for _, j := range jobs {
		wg.Add(1)
		go func(j *job) {
			defer wg.Done()
			bin := binPlain
			if j.p.Race {
				bin = binRace
			}
			a := []string{"-prop", prop, "-tier", tier, "-seed", strconv.FormatUint(seed, 10),
				"-shard", strconv.Itoa(j.shard), "-nshards", strconv.Itoa(j.p.Shards), "-pass", j.p.Name,
				"-out", j.out, "-tmp", tmp, "-replaydir", replayDir}
			if replay != "" {
				a = append(a, "-replay", replay)
			}
			cmd := exec.Command(bin, a...)
			tz := j.p.TZ
			if tz == "" {
				tz = "UTC"
			}
			env := append(os.Environ(), "TZ="+tz, "GOTRACEBACK=all")
			if j.p.Procs > 0 {
				env = append(env, "GOMAXPROCS="+strconv.Itoa(j.p.Procs))
			}
			if j.p.Race {
				env = append(env, fmt.Sprintf("GORACE=halt_on_error=0 exitcode=0 history_size=2 log_path=%s",
					filepath.Join(tmp, fmt.Sprintf("race.%s.%d", j.p.Name, j.shard))))
			}
			cmd.Env = env
			ef, _ := os.Create(j.stderr)
			cmd.Stdout = ef
			cmd.Stderr = ef
			if err := cmd.Start(); err != nil {
				j.err = "start: " + err.Error()
				return
			}
			done := make(chan error, 1)
			go func() { done <- cmd.Wait() }()
			select {
			case err := <-done:
				if err != nil {
					j.err = "exit: " + err.Error()
				}
			case <-time.After(watchdog):
				_ = cmd.Process.Signal(syscall.SIGQUIT)
				select {
				case <-done:
				case <-time.After(20 * time.Second):
					_ = cmd.Process.Kill()
					<-done
				}
				j.err = "watchdog"
			}
			ef.Close()
		}(j)
	}
	wg.Wait()

	// ---- merge
	var (
		evals, bulk, skipped int64
		samples              []json.RawMessage
		cells                = map[string]int64{}
		notes                = map[string]int64{}
		vios                 = map[string]*violation{}
		inconcl              []string
		exhaustive           = map[string]bool{}
		assumptions          = map[string]bool{}
		rule                 string
		hashes               = map[uint64]struct{}{}
		broken               []string
	)
	for _, j := range jobs {
		b, err := os.ReadFile(j.out)
		var r result
		if err == nil {
			err = json.Unmarshal(b, &r)
		}
		if err != nil || !r.Done {
			tail := tailFile(j.stderr, 60)
			why := j.err
			if r.Fatal != "" {
				why += " fatal: " + firstLines(r.Fatal, 30)
			}
			last := lastJournal(j.out + ".journal")
			if msg, frame, ok := libraryGoroutinePanic(j.stderr); ok {
				// the process was taken down by a panic in a goroutine the
				// library started (nothing the caller of Stream can recover):
				// a violation of whatever the check was observing, not a
				// broken check
				key := "lib-goroutine-panic:" + short(frame)
				if v := vios[key]; v != nil {
					v.Count++
				} else {
					path := filepath.Join(replayDir, fmt.Sprintf("%s-crash-%016x.txt", prop, fnv([]byte(key))))
					_ = os.MkdirAll(replayDir, 0o755)
					_ = os.WriteFile(path, []byte(key+"\nlast scenario: "+last+"\n\n"+tailFile(j.stderr, 400)), 0o644)
					vios[key] = &violation{Key: key, Msg: fmt.Sprintf("a goroutine started by the library panicked and ended the process: %s (in %s); last scenario: %s", msg, short(frame), last), Replay: path, Count: 1}
				}
			} else if frame, ok := libraryStackOverflow(j.stderr); ok && prop != "C17" {
				// the library's own recursion ran away on an input of the check
				// and the runtime ended the process (not a panic: nothing can
				// recover it). Every input of these checks is well formed, so
				// this is the property failing, not the check; C17, which feeds
				// garbage, keeps reporting such an end as a broken run (DESIGN §10.3).
				key := "lib-stack-overflow:" + short(frame)
				if v := vios[key]; v != nil {
					v.Count++
				} else {
					path := filepath.Join(replayDir, fmt.Sprintf("%s-crash-%016x.txt", prop, fnv([]byte(key))))
					_ = os.MkdirAll(replayDir, 0o755)
					_ = os.WriteFile(path, []byte(key+"\nlast scenario: "+last+"\n\n"+firstLines(tailFile(j.stderr, 100000), 120)), 0o644)
					vios[key] = &violation{Key: key, Msg: fmt.Sprintf("the library recursed until the runtime ended the process (fatal error: stack overflow in %s); last scenario: %s", short(frame), last), Replay: path, Count: 1}
				}
			} else {
				broken = append(broken, fmt.Sprintf("pass %s shard %d did not finish (%s); last scenario: %s\n%s", j.p.Name, j.shard, why, last, tail))
			}
			if err != nil {
				continue
			}
		} else if j.err != "" {
			broken = append(broken, fmt.Sprintf("pass %s shard %d: %s\n%s", j.p.Name, j.shard, j.err, tailFile(j.stderr, 40)))
		}
		evals += r.Evaluations
		bulk += r.BulkDistinct
		skipped += r.Skipped
		for _, s := range r.Samples {
			if len(samples) < 5 {
				samples = append(samples, s)
			}
		}
		for k, v := range r.Cells {
			cells[k] += v
		}
		for k, v := range r.Notes {
			notes[k] += v
		}
		for _, v := range r.Violations {
			if o, ok := vios[v.Key]; ok {
				o.Count += v.Count
			} else {
				vv := v
				vios[v.Key] = &vv
			}
		}
		inconcl = append(inconcl, r.Inconclusive...)
		for _, e := range r.Exhaustive {
			exhaustive[e] = true
		}
		for _, a := range r.Assumptions {
			assumptions[a] = true
		}
		if r.Rule != "" {
			rule = r.Rule
		}
		if r.HashFile != "" {
			if hb, err := os.ReadFile(r.HashFile); err == nil {
				for i := 0; i+8 <= len(hb); i += 8 {
					hashes[binary.LittleEndian.Uint64(hb[i:])] = struct{}{}
				}
			}
		}
	}

	// ---- race logs
	raceBlocks := 0
	raceKeys := map[string]*raceReport{}
	if needRace {
		files, _ := filepath.Glob(filepath.Join(tmp, "race.*"))
		sort.Strings(files)
		for _, f := range files {
			for _, rep := range parseRaceLog(f) {
				raceBlocks++
				if o, ok := raceKeys[rep.Key]; ok {
					o.Count++
				} else {
					r := rep
					r.Count = 1
					raceKeys[rep.Key] = &r
				}
			}
		}
	}
	notes["race_report_blocks"] = int64(raceBlocks)
	raceKeyList := sortedKeys(raceKeys)
	for _, k := range raceKeyList {
		rep := raceKeys[k]
		switch raceDisposition(prop, rep) {
		case "harness":
			broken = append(broken, "race report entirely inside harness code (broken check):\n"+rep.Text)
		case "violation":
			path := filepath.Join(replayDir, fmt.Sprintf("%s-race-%016x.txt", prop, fnv([]byte(rep.Key))))
			_ = os.MkdirAll(replayDir, 0o755)
			_ = os.WriteFile(path, []byte(rep.Key+"\n\n"+rep.Text), 0o644)
			vios[rep.Key] = &violation{Key: rep.Key, Msg: "race detector report", Replay: path, Count: int64(rep.Count)}
		}
	}

	// ---- known findings
	known := loadKnown(filepath.Join(verifDir, "known_findings.txt"), prop)
	var newVios, knownHits []*violation
	for _, k := range sortedKeys(vios) {
		v := vios[k]
		if _, ok := known[v.Key]; ok {
			knownHits = append(knownHits, v)
		} else {
			newVios = append(newVios, v)
		}
	}

	// ---- coverage floor: the monitors must have seen what the property is about
	if replay == "" {
		for _, want := range floors[prop] {
			seen := false
			for k, v := range cells {
				if strings.HasPrefix(k, want) && v > 0 {
					seen = true
					break
				}
			}
			if !seen {
				inconcl = append(inconcl, fmt.Sprintf("coverage floor not met: no observation of %q in this run", want))
			}
		}
		if evals == 0 {
			inconcl = append(inconcl, "coverage floor not met: the run evaluated nothing")
		}
	}

	distinct := int64(len(hashes)) + bulk
	wall := time.Since(start).Seconds()

	// ---- evidence
	exh := []string{}
	for e := range exhaustive {
		exh = append(exh, e)
	}
	sort.Strings(exh)
	ass := []string{}
	for a := range assumptions {
		ass = append(ass, a)
	}
	sort.Strings(ass)
	if samples == nil {
		samples = []json.RawMessage{}
	}
	cov := map[string]interface{}{
		"evaluations":           evals,
		"distinct_nontrivial":   distinct,
		"rule":                  rule,
		"samples":               samples,
		"exhaustive":            false,
		"exhaustive_subdomains": exh,
		"cells_observed":        cells,
		"counters":              notes,
		"skipped_by_early_exit": skipped,
		"passes":                passNames(passes),
		"child_processes":       len(jobs),
	}
	vlist := []map[string]interface{}{}
	for _, v := range newVios {
		vlist = append(vlist, map[string]interface{}{"key": v.Key, "msg": v.Msg, "replay": v.Replay, "count": v.Count})
	}
	klist := []map[string]interface{}{}
	for _, v := range knownHits {
		klist = append(klist, map[string]interface{}{"key": v.Key, "count": v.Count})
	}
	verdict := "held_on_observed"
	if len(newVios) > 0 {
		verdict = "violated"
	} else if len(broken) > 0 || len(inconcl) > 0 {
		verdict = "inconclusive"
	}
	cov["verdict"] = verdict
	cov["violations_found"] = vlist
	cov["known_findings_observed"] = klist
	if len(inconcl) > 0 {
		if len(inconcl) > 20 {
			inconcl = inconcl[:20]
		}
		cov["inconclusive"] = inconcl
	}
	if len(broken) > 0 {
		var bb []string
		for _, s := range broken {
			bb = append(bb, firstLines(s, 8))
		}
		cov["broken"] = bb
	}
	ev := map[string]interface{}{
		"property_id": prop,
		"tier":        tier,
		"seed":        int64(seed),
		"level":       plan.Level,
		"coverage":    cov,
		"assumptions": ass,
		"wall_s":      wall,
		"violations":  len(newVios),
	}
	if replay == "" && prop != "SELF" && modfile == "" {
		eb, _ := json.MarshalIndent(ev, "", " ")
		_ = os.MkdirAll(filepath.Join(verifDir, "evidence"), 0o755)
		if err := os.WriteFile(filepath.Join(verifDir, "evidence", prop+".json"), append(eb, '\n'), 0o644); err != nil {
			die(2, "cannot write evidence: %v", err)
		}
	}

	// ---- report
	fmt.Printf("property=%s tier=%s seed=%d evaluations=%d distinct_nontrivial=%d wall=%.1fs verdict=%s\n",
		prop, tier, seed, evals, distinct, wall, verdict)
	cellKeys := make([]string, 0, len(cells))
	for k := range cells {
		cellKeys = append(cellKeys, k)
	}
	sort.Strings(cellKeys)
	if len(cellKeys) > 0 {
		var sb strings.Builder
		for i, k := range cellKeys {
			if i >= 60 {
				fmt.Fprintf(&sb, " …(%d more)", len(cellKeys)-i)
				break
			}
			fmt.Fprintf(&sb, " %s=%d", k, cells[k])
		}
		fmt.Println("observed:" + sb.String())
	}
	for _, v := range knownHits {
		fmt.Printf("KNOWN-FINDING: property=%s %s (seen %d times) — %s\n", prop, v.Key, v.Count, known[v.Key])
	}
	for _, s := range broken {
		fmt.Println("BROKEN:", s)
	}
	for _, s := range inconcl {
		fmt.Println("INCONCLUSIVE:", s)
	}
	for _, v := range newVios {
		fmt.Printf("violation detail: key=%s count=%d %s\n", v.Key, v.Count, v.Msg)
	}
	for _, v := range newVios {
		fmt.Printf("VIOLATION property=%s replay=%s\n", prop, v.Replay)
	}
	switch verdict {
	case "violated":
		exit(1)
	case "inconclusive":
		exit(2)
	}
	exit(0)
}

func passNames(ps []pass) []string {
	var out []string
	for _, p := range ps {
		s := fmt.Sprintf("%s×%d", p.Name, p.Shards)
		out = append(out, s)
	}
	return out
}

func sortedKeys[V any](m map[string]V) []string {
	ks := make([]string, 0, len(m))
	for k := range m {
		ks = append(ks, k)
	}
	sort.Strings(ks)
	return ks
}

func fnv(b []byte) uint64 {
	h := uint64(14695981039346656037)
	for _, c := range b {
		h ^= uint64(c)
		h *= 1099511628211
	}
	return h
}

func tailFile(path string, n int) string {
	b, err := os.ReadFile(path)
	if err != nil {
		return ""
	}
	lines := strings.Split(strings.TrimRight(string(b), "\n"), "\n")
	if len(lines) > n {
		lines = lines[len(lines)-n:]
	}
	return strings.Join(lines, "\n")
}

// libraryGoroutinePanic inspects the stderr of a worker that died: it reports
// a Go panic whose goroutine was created by library code and whose innermost
// non-runtime frame is library or driver code (no harness frame above it).
func libraryGoroutinePanic(path string) (msg, frame string, ok bool) {
	b, err := os.ReadFile(path)
	if err != nil {
		return "", "", false
	}
	s := string(b)
	i := strings.LastIndex(s, "\npanic: ")
	if i < 0 {
		if strings.HasPrefix(s, "panic: ") {
			i = -1
		} else {
			return "", "", false
		}
	}
	s = s[i+1:]
	lines := strings.Split(s, "\n")
	msg = strings.TrimPrefix(lines[0], "panic: ")
	// the first goroutine block after the message is the panicking goroutine
	start := -1
	for k, ln := range lines {
		if strings.HasPrefix(ln, "goroutine ") {
			start = k
			break
		}
	}
	if start < 0 {
		return "", "", false
	}
	created := false
	for _, ln := range lines[start+1:] {
		if ln == "" {
			break
		}
		if strings.HasPrefix(ln, "\t") {
			continue
		}
		fn := ln
		if strings.HasPrefix(fn, "created by ") {
			fn = strings.TrimPrefix(fn, "created by ")
			if k := strings.Index(fn, " in goroutine"); k > 0 {
				fn = fn[:k]
			}
			created = strings.HasPrefix(fn, "github.com/Breeze0806/gobinlog") || strings.HasPrefix(fn, "github.com/Breeze0806/mysql")
			continue
		}
		if k := strings.LastIndexByte(fn, '('); k > 0 {
			fn = fn[:k]
		}
		if frame == "" {
			switch {
			case strings.HasPrefix(fn, "runtime.") || strings.HasPrefix(fn, "panic(") || fn == "panic" || strings.HasPrefix(fn, "sync.") || strings.HasPrefix(fn, "internal/") || strings.HasPrefix(fn, "sync/atomic."):
				continue
			case strings.HasPrefix(fn, "github.com/Breeze0806/gobinlog") || strings.HasPrefix(fn, "github.com/Breeze0806/mysql"):
				frame = fn
			default:
				return "", "", false // the innermost frame is not library code
			}
		}
	}
	return msg, frame, frame != "" && created
}

// libraryStackOverflow inspects the stderr of a worker that died: it reports
// the runtime's "fatal error: stack overflow" when the running goroutine's
// innermost frame outside the runtime and the standard library is library
// code and the visible part of its stack is library recursion (>= 10 frames).
func libraryStackOverflow(path string) (frame string, ok bool) {
	b, err := os.ReadFile(path)
	if err != nil {
		return "", false
	}
	s := string(b)
	i := strings.Index(s, "fatal error: stack overflow")
	if i < 0 {
		return "", false
	}
	s = s[i:]
	k := strings.Index(s, "[running]:\n")
	if k < 0 {
		return "", false
	}
	lib := 0
	for _, ln := range strings.Split(s[k+len("[running]:\n"):], "\n") {
		if ln == "" {
			break
		}
		if strings.HasPrefix(ln, "\t") || strings.HasPrefix(ln, "...") || strings.HasPrefix(ln, "created by ") {
			continue
		}
		fn := ln
		if p := strings.LastIndexByte(fn, '('); p > 0 {
			fn = fn[:p]
		}
		isLib := strings.HasPrefix(fn, "github.com/Breeze0806/gobinlog") || strings.HasPrefix(fn, "github.com/Breeze0806/mysql")
		if isLib {
			lib++
		}
		if frame == "" {
			// standard-library frames have no '/' in front of the package's dot or start with a std path
			first := fn
			if d := strings.IndexByte(first, '.'); d > 0 {
				first = first[:d]
			}
			std := !strings.Contains(first, ".") && !strings.HasPrefix(fn, "verifharness/") && !strings.HasPrefix(fn, "main.") && !strings.HasPrefix(fn, "github.com/")
			switch {
			case isLib:
				frame = fn
			case std:
				continue
			default:
				return "", false
			}
		}
	}
	return frame, frame != "" && lib >= 10
}

func firstLines(s string, n int) string {
	lines := strings.Split(s, "\n")
	if len(lines) > n {
		lines = lines[:n]
	}
	return strings.Join(lines, "\n")
}

func lastJournal(path string) string {
	b, err := os.ReadFile(path)
	if err != nil {
		return "?"
	}
	lines := strings.Split(strings.TrimRight(string(b), "\n"), "\n")
	return lines[len(lines)-1]
}

// loadKnown reads "finding: property=<id> key=<key> <description>" lines.
func loadKnown(path, prop string) map[string]string {
	out := map[string]string{}
	f, err := os.Open(path)
	if err != nil {
		return out
	}
	defer f.Close()
	sc := bufio.NewScanner(f)
	re := regexp.MustCompile(`^finding:\s+property=(\S+)\s+key=(\S+)\s*(.*)$`)
	for sc.Scan() {
		m := re.FindStringSubmatch(strings.TrimSpace(sc.Text()))
		if m == nil || m[1] != prop {
			continue
		}
		out[m[2]] = m[3]
	}
	return out
}

// ---------------------------------------------------------------- race logs

type raceReport struct {
	Key   string
	Text  string
	Count int
	// classification inputs
	libA, libB         string // innermost gobinlog frame of each access stack ("" if none)
	topA, topB         string // innermost frame of each access stack
	harnessA, harnessB bool   // stack touches harness code
	onlyHarnessA       bool   // the access itself is made by harness code
	onlyHarnessB       bool
}

var lineNoRe = regexp.MustCompile(`\(\)$`)

func parseRaceLog(path string) []raceReport {
	b, err := os.ReadFile(path)
	if err != nil {
		return nil
	}
	var out []raceReport
	for _, blk := range bytes.Split(b, []byte("==================")) {
		s := string(blk)
		if !strings.Contains(s, "WARNING: DATA RACE") {
			continue
		}
		out = append(out, classifyRace(s))
	}
	return out
}

func classifyRace(text string) raceReport {
	r := raceReport{Text: strings.TrimSpace(text)}
	// split into sections separated by blank lines; the first two sections that
	// start with an access line ("Write at", "Read at", "Previous write at"...)
	var stacks [][]string
	var cur []string
	inAccess := false
	flush := func() {
		if inAccess {
			stacks = append(stacks, cur)
		}
		cur = nil
		inAccess = false
	}
	for _, ln := range strings.Split(text, "\n") {
		t := strings.TrimSpace(ln)
		if t == "" {
			flush()
			continue
		}
		lt := strings.ToLower(t)
		if strings.HasPrefix(lt, "write at") || strings.HasPrefix(lt, "read at") ||
			strings.HasPrefix(lt, "previous write at") || strings.HasPrefix(lt, "previous read at") ||
			strings.HasPrefix(lt, "atomic") || strings.HasPrefix(lt, "previous atomic") {
			flush()
			inAccess = true
			continue
		}
		if inAccess && strings.HasPrefix(ln, "  ") && !strings.HasPrefix(ln, "      ") {
			fn := lineNoRe.ReplaceAllString(t, "")
			cur = append(cur, fn)
		}
	}
	flush()
	info := func(st []string) (lib, top string, harness, only bool, drv string) {
		// top = the first frame owned by the library, the driver or the harness
		// (frames above it are runtime / standard library helpers)
		for _, fn := range st {
			isLib := strings.HasPrefix(fn, "github.com/Breeze0806/gobinlog")
			isDrv := strings.HasPrefix(fn, "github.com/Breeze0806/mysql")
			isH := strings.HasPrefix(fn, "verifharness/") && !strings.HasPrefix(fn, "verifharness/xport.") // the transport wrapper is a pass-through
			if top == "" && (isLib || isDrv || isH) {
				top = fn
				only = isH
			}
			if isLib && lib == "" {
				lib = fn
			}
			if isDrv && lib == "" {
				drv = fn // ends as the driver entry point the library called
			}
			if isH {
				harness = true
			}
		}
		if top == "" && len(st) > 0 {
			top = st[0]
		}
		return
	}
	var drvA, drvB string
	if len(stacks) >= 1 {
		r.libA, r.topA, r.harnessA, r.onlyHarnessA, drvA = info(stacks[0])
	}
	if len(stacks) >= 2 {
		r.libB, r.topB, r.harnessB, r.onlyHarnessB, drvB = info(stacks[1])
	}
	// A side whose access happens inside the driver is named by the driver
	// entry point the library called (the library's own function names do not
	// matter for it); a side in library code is named by the library function.
	side := func(lib, top, drv string) string {
		if lib == "" {
			return "(" + short(top) + ")"
		}
		if strings.HasPrefix(top, "github.com/Breeze0806/mysql") && drv != "" {
			return "driver:" + short(drv)
		}
		if top != lib {
			return short(lib) + "@" + short(top)
		}
		return short(lib)
	}
	a, bb := side(r.libA, r.topA, drvA), side(r.libB, r.topB, drvB)
	if a > bb {
		a, bb = bb, a
	}
	r.Key = "race:" + a + "<->" + bb
	return r
}

var (
	deferwrapRe = regexp.MustCompile(`^.*\.deferwrap\d+\.`)
	closureRe   = regexp.MustCompile(`(\.func\d+|\.\d+|\.gowrap\d+)+$`)
)

// short normalises a function name so that keys survive inlining and closure
// numbering: package-relative, defer wrappers and closure suffixes removed.
func short(fn string) string {
	fn = strings.TrimPrefix(fn, "github.com/Breeze0806/")
	fn = strings.ReplaceAll(fn, " ", "")
	if m := deferwrapRe.FindString(fn); m != "" {
		pkg := ""
		if i := strings.IndexByte(fn, '.'); i > 0 {
			pkg = fn[:i+1]
		}
		fn = pkg + fn[len(m):]
	}
	return closureRe.ReplaceAllString(fn, "")
}

// raceDisposition decides what a race report means for the property whose
// check produced it.
func raceDisposition(prop string, r *raceReport) string {
	if r.onlyHarnessA && r.onlyHarnessB {
		return "harness"
	}
	switch prop {
	case "C05":
		// C05 claims race freedom of these executions: every report that
		// involves library or driver code counts.
		return "violation"
	case "C08":
		// C08: a report counts only when harness code (the handler reading or
		// scribbling delivered memory) races with library/driver code.
		if r.onlyHarnessA != r.onlyHarnessB {
			return "violation"
		}
		return "ignore"
	}
	return "ignore"
}
