// vworker runs one shard of one property check in its own process.
package main

import (
	"flag"
	"fmt"
	"io"
	"os"
	"path/filepath"
	"runtime"
	"strconv"
	"strings"
	"sync/atomic"
	"time"

	"github.com/Breeze0806/go/log"
	"github.com/Breeze0806/gobinlog"

	_ "verifharness/checks"
	"verifharness/core"
)

func main() {
	prop := flag.String("prop", "", "property id")
	tier := flag.String("tier", "quick", "quick|thorough")
	seed := flag.Uint64("seed", 1, "VERIF_SEED")
	shard := flag.Int("shard", 0, "shard index")
	nshards := flag.Int("nshards", 1, "number of shards")
	pass := flag.String("pass", "plain", "pass name")
	out := flag.String("out", "", "result file")
	replay := flag.String("replay", "", "witness file to replay")
	tmp := flag.String("tmp", os.TempDir(), "scratch dir")
	outdir := flag.String("replaydir", "", "directory for witness files")
	flag.Parse()

	// The library reports through a logger its user supplies. Ours discards
	// the text and, at the Info/Error/Print call sites (reader exit, end of
	// parsing, connection close, driver errors), sometimes yields or sleeps
	// briefly: a slow logger is a legitimate environment, and it widens the
	// interleavings around exactly those points. Debug calls (one per event)
	// are left alone. The shards whose number is divisible by 4 keep a plain
	// discarding logger.
	if *shard%4 == 0 {
		gobinlog.SetLogger(log.NewDefaultLogger(io.Discard, log.ErrorLevel, "[verif]"))
	} else {
		gobinlog.SetLogger(&perturbLogger{seed: *seed*1000003 + uint64(*shard)})
	}

	chk := core.Lookup(*prop)
	if chk == nil {
		fmt.Fprintf(os.Stderr, "vworker: no check registered for %q (have %v)\n", *prop, core.Props())
		os.Exit(3)
	}
	c := core.NewCtx(*prop, *tier, *seed, *shard, *nshards)
	c.Pass = *pass
	c.Race = raceEnabled
	c.Replay = *replay
	c.TmpDir = *tmp
	c.OutDir = *outdir
	if *out != "" {
		if j, err := os.Create(filepath.Join(filepath.Dir(*out), filepath.Base(*out)+".journal")); err == nil {
			c.Journal = j
			defer j.Close()
		}
	}
	// memory watchdog: a library that loops allocating on a corrupted event must
	// not take the sandbox down; the run is then inconclusive, never "held"
	limit := uint64(1536 << 20) // resident set; a normal worker stays below 100 MiB
	go func() {
		for {
			time.Sleep(200 * time.Millisecond)
			rss := residentBytes()
			if rss > limit {
				msg := fmt.Sprintf("worker exceeded its memory bound (%d MiB resident); the scenario logged last in the journal was running", rss>>20)
				fmt.Fprintln(os.Stderr, "vworker:", msg)
				c.Log("MEMORY-BOUND-EXCEEDED")
				if *out != "" {
					_ = c.Finish(*out, msg)
				}
				os.Exit(5)
			}
		}
	}()
	fatal := core.Guard(func() { chk(c) })
	if fatal != "" {
		fmt.Fprintln(os.Stderr, "vworker: check crashed:", fatal)
	}
	if *out != "" {
		if err := c.Finish(*out, fatal); err != nil {
			fmt.Fprintln(os.Stderr, "vworker: cannot write result:", err)
			os.Exit(3)
		}
	}
	if fatal != "" {
		os.Exit(3)
	}
}

// residentBytes reads the resident set size from /proc/self/statm.
func residentBytes() uint64 {
	b, err := os.ReadFile("/proc/self/statm")
	if err != nil {
		return 0
	}
	f := strings.Fields(string(b))
	if len(f) < 2 {
		return 0
	}
	pages, _ := strconv.ParseUint(f[1], 10, 64)
	return pages * uint64(os.Getpagesize())
}

// perturbLogger: see main.
type perturbLogger struct {
	seed uint64
	n    atomic.Uint64
}

func (l *perturbLogger) perturb() {
	x := (l.n.Add(1) + l.seed) * 0x9e3779b97f4a7c15
	x ^= x >> 29
	switch x % 16 {
	case 0, 1, 2, 3:
		runtime.Gosched()
	case 4, 5:
		time.Sleep(time.Duration(20+x>>8%200) * time.Microsecond)
	case 6:
		time.Sleep(time.Duration(1+x>>8%3) * time.Millisecond)
	}
}

func (l *perturbLogger) Errorf(string, ...interface{}) { l.perturb() }
func (l *perturbLogger) Infof(string, ...interface{})  { l.perturb() }
func (l *perturbLogger) Debugf(string, ...interface{}) {}
func (l *perturbLogger) Print(...interface{})          { l.perturb() }
func (l *perturbLogger) Printf(string, ...interface{}) { l.perturb() }
