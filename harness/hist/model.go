package hist

import "verifharness/enc/ev"

// Statement type codes as the streamer's StatementType enumerates them.
const (
	StUnknown = iota
	StBegin
	StCommit
	StRollback
	StInsert
	StUpdate
	StDelete
	StCreate
	StAlter
	StDrop
	StTruncate
	StRename
	StSet
)

var keywordTypes = map[string]int{
	"begin": StBegin, "commit": StCommit, "rollback": StRollback, "insert": StInsert, "update": StUpdate,
	"delete": StDelete, "create": StCreate, "alter": StAlter, "drop": StDrop, "truncate": StTruncate,
	"rename": StRename, "set": StSet,
}

// FirstWordType classifies a statement by its first word, case-insensitively
// (the rule C02 states); an own implementation, not the repository's.
func FirstWordType(sql string) int {
	isSpace := func(c byte) bool { return c == ' ' || c == '\t' || c == '\n' || c == '\r' }
	lowerWord := func(from int) (string, int) {
		i := from
		for i < len(sql) && isSpace(sql[i]) {
			i++
		}
		j := i
		for j < len(sql) && !isSpace(sql[j]) {
			j++
		}
		b := []byte(sql[i:j])
		for k, c := range b {
			if c >= 'A' && c <= 'Z' {
				b[k] = c + 32
			}
		}
		return string(b), j
	}
	// comments in front of the statement are not the statement: /* ... */,
	// -- ... and # ... to the end of the line; the content of a version comment
	// /*!NNNNN ... */ is executed, so the keyword is looked for inside it
	start := 0
	for {
		for start < len(sql) && isSpace(sql[start]) {
			start++
		}
		rest := sql[start:]
		switch {
		case len(rest) >= 3 && rest[:3] == "/*!":
			start += 3
			for start < len(sql) && sql[start] >= '0' && sql[start] <= '9' {
				start++
			}
			continue
		case len(rest) >= 2 && rest[:2] == "/*":
			k := 2
			for k+1 < len(rest) && !(rest[k] == '*' && rest[k+1] == '/') {
				k++
			}
			if k+1 >= len(rest) {
				return StUnknown
			}
			start += k + 2
			continue
		case len(rest) >= 1 && rest[0] == '#', len(rest) >= 3 && rest[:2] == "--" && isSpace(rest[2]):
			k := 0
			for k < len(rest) && rest[k] != '\n' {
				k++
			}
			if k >= len(rest) {
				return StUnknown
			}
			start += k + 1
			continue
		}
		break
	}
	// the keyword ends at the first white-space character (statements are
	// logged as the client wrote them: a tab or a line break may follow it)
	// or where a version comment closes
	end := start
	for end < len(sql) && !isSpace(sql[end]) && !(sql[end] == '*' && end+1 < len(sql) && sql[end+1] == '/') {
		end++
	}
	b := []byte(sql[start:end])
	for k, c := range b {
		if c >= 'A' && c <= 'Z' {
			b[k] = c + 32
		}
	}
	w := string(b)
	t, ok := keywordTypes[w]
	if !ok {
		return StUnknown
	}
	if t == StRollback {
		// ROLLBACK TO [SAVEPOINT] x undoes part of an open transaction and does not end it
		if next, _ := lowerWord(end); next == "to" {
			return StUnknown
		}
	}
	return t
}

// ExpCol is one expected column of a row image.
type ExpCol struct {
	Name   string
	Type   byte
	Absent bool
	Val    Value
}

// ExpEvent is one expected change of a transaction.
type ExpEvent struct {
	Type    int
	DB      string // table for row changes
	Table   string
	QueryDB string
	SQL     string
	Charset *[3]uint16
	TS      int64
	Values  [][]ExpCol // after images (insert, update)
	Idents  [][]ExpCol // before images (update, delete)
	IDs     []uint64   // change ids carried by this event
}

// ExpTx is one expected delivery.
type ExpTx struct {
	Now, Next Pos
	TS        int64
	Events    []ExpEvent
	Unit      int
	Index     int // ordinal among the deliveries of the whole history
}

// Expect computes the deliveries of a stream that starts at start (a unit
// boundary) and runs to the end of the history. Rules are C02/C03's sentences.
func Expect(h *History, l *Layout, start Pos) []ExpTx {
	var out []ExpTx
	cur := start
	index := 0
	startFile := -1
	for i, f := range l.Files {
		if f.Name == start.File {
			startFile = i
		}
	}
	lastFile := startFile
	for ui := range h.Units {
		u := &h.Units[ui]
		sp := l.Spans[ui]
		fname := l.Files[sp.File].Name
		started := startFile >= 0 && (sp.File > startFile || (sp.File == startFile && int64(sp.Start) >= start.Off))
		if started && sp.File != lastFile {
			// the stream crossed into this file: it saw the (fake) rotate naming it
			cur = Pos{fname, 4}
			lastFile = sp.File
		}
		if u.Kind.Delivers() {
			if !started {
				index++
				continue
			}
			tx := ExpTx{Now: cur, Unit: ui, Index: index, TS: int64(u.EndTS)}
			index++
			tx.Next = Pos{fname, int64(sp.CommitEnds[0])}
			switch u.Kind {
			case TxXID, TxCommit:
				for si := range u.Stmts {
					tx.Events = append(tx.Events, stmtEvents(&u.Stmts[si])...)
				}
			case TxRollback:
				// nothing delivered but the (empty) transaction itself
			case AutoRows:
				tx.Events = stmtEvents(&u.Stmts[0])
				tx.TS = tx.Events[len(tx.Events)-1].TS
			case DDL, StmtDML:
				tx.Events = []ExpEvent{{Type: FirstWordType(u.SQL), QueryDB: u.DB, SQL: u.SQL, Charset: u.Charset,
					TS: int64(u.EndTS), IDs: []uint64{u.ID}}}
			}
			out = append(out, tx)
			cur = tx.Next
			continue
		}
		if u.Kind == Rotate && started {
			cur = Pos{u.NextFile, 4}
			lastFile = sp.File + 1
		}
	}
	return out
}

func stmtEvents(s *Stmt) []ExpEvent {
	switch s.Kind {
	case StmtQuery:
		return []ExpEvent{{Type: FirstWordType(s.SQL), QueryDB: s.DB, SQL: s.SQL, Charset: s.Charset, TS: int64(s.TS), IDs: []uint64{s.ID}}}
	case StmtUnknown:
		return nil
	}
	var out []ExpEvent
	for ri := range s.Rows {
		r := &s.Rows[ri]
		e := ExpEvent{DB: r.Table.DB, Table: r.Table.Name, TS: int64(r.TS)}
		switch r.Kind {
		case ev.KWrite:
			e.Type = StInsert
		case ev.KUpdate:
			e.Type = StUpdate
		case ev.KDelete:
			e.Type = StDelete
		}
		for _, row := range r.Rows {
			if r.Kind == ev.KWrite || r.Kind == ev.KUpdate {
				e.Values = append(e.Values, image(r.Table, r.PresentAfter, row.After))
			}
			if r.Kind == ev.KUpdate || r.Kind == ev.KDelete {
				e.Idents = append(e.Idents, image(r.Table, r.PresentBefore, row.Before))
			}
		}
		out = append(out, e)
	}
	return out
}

func image(t *Table, present []bool, vals []Value) []ExpCol {
	cols := make([]ExpCol, len(t.Cols))
	for i, c := range t.Cols {
		cols[i] = ExpCol{Name: c.Name, Type: c.Type}
		if !present[i] {
			cols[i].Absent = true
			continue
		}
		cols[i].Val = vals[i]
	}
	return cols
}
