// Package hist defines logical binlog histories (units over logical values),
// their byte layout (built with the independent encoder enc/ev) and, by a
// separate piece of code (model.go), the deliveries a correct streamer must make.
package hist

import (
	"fmt"

	"verifharness/enc/bjson"
	"verifharness/enc/ev"
)

// Pos is a binlog coordinate.
type Pos struct {
	File string `json:"file"`
	Off  int64  `json:"off"`
}

func (p Pos) String() string { return fmt.Sprintf("(%s,%d)", p.File, p.Off) }

// Column is one column of a table as the master knows it.
type Column struct {
	Name     string
	Type     byte
	Meta     uint16
	Unsigned bool
	Nullable bool
}

// Table is a table version (what a table map announces).
type Table struct {
	ID    uint64
	DB    string
	Name  string
	Flags uint16
	Cols  []Column
	// Optional is appended to the table map (optional metadata of newer servers).
	Optional []byte
}

// Value is one logical cell value with its wire encoding and expected text.
type Value struct {
	Null bool
	Enc  []byte      // cell image bytes (empty for NULL)
	Text []byte      // expected delivered bytes (non-nil, possibly empty) unless JSON != nil
	JSON *bjson.Node // for JSON columns: the expected document (text is compared after parsing)
}

// Row is one row: Before and After have one entry per table column; entries of
// columns absent from the image are ignored.
type Row struct {
	Before []Value
	After  []Value
}

// RowsEvent is one rows event of a statement.
type RowsEvent struct {
	Kind          ev.RowsKind
	Table         *Table
	PresentBefore []bool // over all columns (update/delete)
	PresentAfter  []bool // over all columns (write/update)
	Rows          []Row
	TS            uint32
	Extra         []byte // v2 extra data
	Flags         uint16
}

// StmtKind distinguishes the statements inside a transaction.
type StmtKind int

const (
	StmtRows    StmtKind = iota // table maps + rows events
	StmtQuery                   // statement-format insert/update/delete logged as a query
	StmtUnknown                 // a statement the streamer does not classify (SAVEPOINT, ...)
)

// Stmt is one statement inside a transaction (or an autocommitted row change).
type Stmt struct {
	Kind      StmtKind
	TableMaps []*Table // announced before the rows events, in order
	MapTS     uint32
	Rows      []RowsEvent
	SQL       string
	DB        string
	Charset   *[3]uint16
	TS        uint32
	ID        uint64 // change id carried by a query statement
}

// UnitKind is the alphabet of C02.
type UnitKind int

const (
	TxXID UnitKind = iota
	TxCommit
	TxRollback
	DDL
	AutoRows
	StmtDML
	Rotate
	GTID
	AnonGTID
	PrevGTIDs
	Heartbeat
	UnknownEvent
	UnknownStmt
	Restart // the file ends without a ROTATE event (server stop or crash); the next file is announced only by the artificial rotate
	NumUnitKinds
)

var unitNames = [...]string{"TxXID", "TxCommit", "TxRollback", "DDL", "AutoRows", "StmtDML", "Rotate",
	"GTID", "AnonGTID", "PrevGTIDs", "Heartbeat", "UnknownEvent", "UnknownStmt", "Restart"}

func (k UnitKind) String() string {
	if int(k) < len(unitNames) {
		return unitNames[k]
	}
	return fmt.Sprintf("unit%d", int(k))
}

// Delivers reports whether the unit makes the streamer call the handler.
func (k UnitKind) Delivers() bool { return k <= StmtDML }

// Unit is one binlog unit.
type Unit struct {
	Kind     UnitKind
	BeginSQL string // transactions: the BEGIN text (any casing)
	EndSQL   string // TxCommit / TxRollback: the closing text
	BeginTS  uint32
	EndTS    uint32 // timestamp of the commit event (XID / COMMIT / ROLLBACK / DDL / DML query)
	XID      uint64
	Stmts    []Stmt // transactions and AutoRows (exactly one StmtRows with one rows event)
	SQL      string // DDL / StmtDML / UnknownStmt
	DB       string
	Charset  *[3]uint16
	Vars     []byte // extra status variables placed before/after the charset (already in server order), optional
	ID       uint64 // change id of a DDL / StmtDML unit
	// Rotate
	NextFile string
	// UnknownEvent
	EvType byte
	EvBody []byte
	EvTS   uint32
	// GTID
	SID [16]byte
	GNO int64
	// PrevGTIDs
	SIDBlock []byte
	// with GTIDs on, a GTID event precedes each delivering unit
	WithGTID bool
}

// History is a list of units plus per-file configuration.
type History struct {
	FirstFile string
	Units     []Unit
	Cfgs      []*ev.Cfg // one per file (index = number of Rotate / Restart units before); the last is reused
	Bases     []uint32  // offset of the first event after the format description per file (0 = contiguous)
	FDETS     uint32
}

func (h *History) cfg(file int) *ev.Cfg {
	if file < len(h.Cfgs) {
		return h.Cfgs[file]
	}
	return h.Cfgs[len(h.Cfgs)-1]
}

// LEvent is one stored event.
type LEvent struct {
	Start, End uint32
	Bytes      []byte
	Unit       int
	Kind       string
	CommitOf   int // index into the delivery list this event commits, or -1
}

// LFile is one binlog file.
type LFile struct {
	Name   string
	Cfg    *ev.Cfg
	FDETS  uint32
	FDEEnd uint32 // 4 + len(format description)
	Events []LEvent
}

// UnitSpan locates a unit in the layout.
type UnitSpan struct {
	File       int
	Start, End uint32
	CommitEnds []uint32 // end offset of each commit event of the unit (one, except none for non-delivering units)
}

// Layout is the byte form of a history.
type Layout struct {
	Files []*LFile
	Spans []UnitSpan
}

// Boundaries returns every unit boundary (a valid start position) of the layout.
func (l *Layout) Boundaries() []Pos {
	var out []Pos
	for fi, f := range l.Files {
		out = append(out, Pos{f.Name, 4})
		seen := map[uint32]bool{4: true}
		for ui, sp := range l.Spans {
			if sp.File != fi {
				continue
			}
			_ = ui
			if !seen[sp.Start] {
				seen[sp.Start] = true
				out = append(out, Pos{f.Name, int64(sp.Start)})
			}
		}
		if n := len(f.Events); n > 0 {
			e := f.Events[n-1].End
			if !seen[e] {
				out = append(out, Pos{f.Name, int64(e)})
			}
		}
	}
	return out
}

// Build lays the history out into files.
func (h *History) Build() *Layout {
	l := &Layout{Spans: make([]UnitSpan, len(h.Units))}
	fileIdx := 0
	newFile := func(name string) *LFile {
		c := h.cfg(fileIdx)
		f := &LFile{Name: name, Cfg: c, FDETS: h.FDETS + uint32(fileIdx)}
		f.FDEEnd = 4 + uint32(c.FormatDescriptionLen())
		l.Files = append(l.Files, f)
		return f
	}
	f := newFile(h.FirstFile)
	off := f.FDEEnd
	if fileIdx < len(h.Bases) && h.Bases[fileIdx] != 0 {
		off = h.Bases[fileIdx]
	}
	delivery := 0
	for ui := range h.Units {
		u := &h.Units[ui]
		c := f.Cfg
		sp := UnitSpan{File: fileIdx, Start: off}
		add := func(ts uint32, typ byte, flags uint16, body []byte, kind string, commit bool) {
			b := c.Event(ts, typ, flags, body, off)
			e := LEvent{Start: off, End: off + uint32(len(b)), Bytes: b, Unit: ui, Kind: kind, CommitOf: -1}
			if commit {
				e.CommitOf = delivery
				delivery++
				sp.CommitEnds = append(sp.CommitEnds, e.End)
			}
			f.Events = append(f.Events, e)
			off = e.End
		}
		query := func(ts uint32, db, sql string, cs *[3]uint16, extra []byte, kind string, commit bool) {
			sv := &ev.StatusVars{}
			sv.Flags2(0).SQLMode(0x40000000)
			if cs != nil {
				sv.Charset(cs[0], cs[1], cs[2])
			}
			vars := append(sv.Bytes(), extra...)
			add(ts, ev.Query, 0, ev.QueryBody(uint32(ui+7), 0, db, 0, vars, sql), kind, commit)
		}
		stmt := func(s *Stmt, commitLast bool) {
			switch s.Kind {
			case StmtRows:
				for _, t := range s.TableMaps {
					types := make([]byte, len(t.Cols))
					meta := make([]uint16, len(t.Cols))
					nullable := make([]bool, len(t.Cols))
					for i, col := range t.Cols {
						types[i], meta[i], nullable[i] = col.Type, col.Meta, col.Nullable
					}
					add(s.MapTS, ev.TableMap, 0, c.TableMapBody(t.ID, t.Flags, t.DB, t.Name, types, meta, nullable, t.Optional), "tablemap", false)
				}
				for ri := range s.Rows {
					r := &s.Rows[ri]
					imgs := make([]ev.RowImage, len(r.Rows))
					for i, row := range r.Rows {
						imgs[i] = encodeRow(r, row)
					}
					flags := r.Flags
					if ri == len(s.Rows)-1 {
						flags |= ev.FlagStmtEnd
					}
					add(r.TS, c.RowsType(r.Kind), 0, c.RowsBody(r.Kind, r.Table.ID, flags, r.Extra, len(r.Table.Cols), r.PresentBefore, r.PresentAfter, imgs), "rows", commitLast && ri == len(s.Rows)-1)
				}
			case StmtQuery, StmtUnknown:
				query(s.TS, s.DB, s.SQL, s.Charset, nil, "stmt-query", false)
			}
		}
		if u.WithGTID && u.Kind.Delivers() {
			add(u.BeginTS, ev.GTID, 0, c.GTIDBody(1, u.SID, u.GNO, int64(ui), int64(ui+1)), "gtid", false)
		}
		switch u.Kind {
		case TxXID, TxCommit, TxRollback:
			query(u.BeginTS, u.DB, u.BeginSQL, u.Charset, nil, "begin", false)
			for si := range u.Stmts {
				stmt(&u.Stmts[si], false)
			}
			if u.Kind == TxXID {
				add(u.EndTS, ev.XID, 0, ev.XIDBody(u.XID), "xid", true)
			} else {
				query(u.EndTS, u.DB, u.EndSQL, u.Charset, nil, "end-query", true)
			}
		case DDL, StmtDML:
			query(u.EndTS, u.DB, u.SQL, u.Charset, u.Vars, "query", true)
		case AutoRows:
			stmt(&u.Stmts[0], true)
		case UnknownStmt:
			query(u.EndTS, u.DB, u.SQL, u.Charset, nil, "unknown-stmt", false)
		case GTID:
			add(u.EvTS, ev.GTID, 0, c.GTIDBody(0, u.SID, u.GNO, 0, 0), "gtid", false)
		case AnonGTID:
			add(u.EvTS, ev.AnonymousGTID, 0, c.GTIDBody(0, [16]byte{}, 0, 0, 0), "anon-gtid", false)
		case PrevGTIDs:
			add(u.EvTS, ev.PreviousGTIDs, 0, u.SIDBlock, "prev-gtids", false)
		case UnknownEvent:
			add(u.EvTS, u.EvType, 0, u.EvBody, "unknown-event", false)
		case Heartbeat:
			// not part of the file: zero width, next_position = current offset
			b := c.EventNext(0, ev.Heartbeat, 0, []byte(f.Name), off)
			f.Events = append(f.Events, LEvent{Start: off, End: off, Bytes: b, Unit: ui, Kind: "heartbeat", CommitOf: -1})
		case Rotate:
			add(u.EvTS, ev.Rotate, 0, ev.RotateBody(4, u.NextFile), "rotate", false)
		case Restart:
			if u.EvType == ev.Stop { // clean shutdown writes a STOP event; a crash writes nothing
				add(u.EvTS, ev.Stop, 0, nil, "stop", false)
			}
		}
		sp.End = off
		l.Spans[ui] = sp
		if u.Kind == Rotate || u.Kind == Restart {
			fileIdx++
			f = newFile(u.NextFile)
			off = f.FDEEnd
			if fileIdx < len(h.Bases) && h.Bases[fileIdx] != 0 {
				off = h.Bases[fileIdx]
			}
		}
	}
	return l
}

func encodeRow(r *RowsEvent, row Row) ev.RowImage {
	var img ev.RowImage
	side := func(present []bool, vals []Value) ([]bool, []byte) {
		var nulls []bool
		var b []byte
		for i, p := range present {
			if !p {
				continue
			}
			v := vals[i]
			nulls = append(nulls, v.Null)
			if !v.Null {
				b = append(b, v.Enc...)
			}
		}
		return nulls, b
	}
	if r.Kind == ev.KUpdate || r.Kind == ev.KDelete {
		img.BeforeNull, img.Before = side(r.PresentBefore, row.Before)
	}
	if r.Kind == ev.KWrite || r.Kind == ev.KUpdate {
		img.AfterNull, img.After = side(r.PresentAfter, row.After)
	}
	return img
}
