// Package sim is a simulated MySQL master: the server side of protocol 41
// (HandshakeV10, mysql_native_password accepted blindly, COM_QUERY, COM_PING,
// COM_BINLOG_DUMP, COM_QUIT) serving a hist.Layout the way mysql_binlog_send
// does, with a per-connection fault script and pacing. Written from the MySQL
// protocol documentation; shares no code with the repository under test.
package sim

import (
	"encoding/binary"
	"fmt"
	"io"
	"net"
	"strings"
	"sync"
	"sync/atomic"
	"time"

	"verifharness/enc/ev"
	"verifharness/hist"
)

// ---------------------------------------------------------------- trace

// Rec is one record of the scenario trace.
type Rec struct {
	Seq  int64  `json:"seq"`
	Kind string `json:"kind"`
	A    int64  `json:"a"`
	B    int64  `json:"b"`
	S    string `json:"s,omitempty"`
}

// Trace is a mutex-protected append-only log with a logical clock.
type Trace struct {
	mu   sync.Mutex
	seq  int64
	Recs []Rec
}

// Add appends a record and returns its sequence number.
func (t *Trace) Add(kind string, a, b int64, s string) int64 {
	t.mu.Lock()
	t.seq++
	q := t.seq
	if len(t.Recs) < 20000 {
		t.Recs = append(t.Recs, Rec{Seq: q, Kind: kind, A: a, B: b, S: s})
	}
	t.mu.Unlock()
	return q
}

// Snapshot copies the records.
func (t *Trace) Snapshot() []Rec {
	t.mu.Lock()
	defer t.mu.Unlock()
	return append([]Rec(nil), t.Recs...)
}

// Tail returns the last n records.
func (t *Trace) Tail(n int) []Rec {
	t.mu.Lock()
	defer t.mu.Unlock()
	if len(t.Recs) > n {
		return append([]Rec(nil), t.Recs[len(t.Recs)-n:]...)
	}
	return append([]Rec(nil), t.Recs...)
}

// ---------------------------------------------------------------- scripts

// FaultKind enumerates what the master can do at a packet index.
type FaultKind int

const (
	FNone     FaultKind = iota
	FClose              // FIN: close the socket gracefully
	FReset              // RST: SetLinger(0) + close
	FShort              // replace packet k by Payload (raw packet payload, e.g. {0x00})
	FBadSeq             // send packet k with a wrong sequence id
	FErr                // send ERR(code,msg) instead of packet k, then idle
	FEOF                // send EOF instead of packet k, then idle
	FInject             // send Payload (an event, will be prefixed with 0x00) before packet k, then go on
	FHold               // stop before packet k until Release() (then go on)
	FStopIdle           // stop sending before packet k and stay idle (socket open)
	FReplace            // replace packet k by an event Payload (prefixed with 0x00), then go on
)

func (k FaultKind) String() string {
	return [...]string{"none", "fin", "rst", "short", "badseq", "err", "eof", "inject", "hold", "stop-idle", "replace"}[k]
}

// Fault is one scripted action.
type Fault struct {
	Kind     FaultKind
	Payload  []byte
	Payload2 []byte // FInject: a second event sent right after Payload
	Code     uint16
	Msg      string
	State    string // sqlstate marker ("" = none, else 5 chars)
	OnReach  func() // called in the master's goroutine when the index is reached, before acting
}

// EndKind is what happens after the last stored event.
type EndKind int

const (
	EndIdle EndKind = iota
	EndEOF
	EndErr
	EndFIN
	EndRST
)

func (k EndKind) String() string { return [...]string{"idle", "eof", "err", "fin", "rst"}[k] }

// Script drives one connection.
type Script struct {
	Handshake     string // "", "garbage", "close", "autherr", "reset"
	SetHold       bool   // withhold the answer to the SET @master_binlog_checksum query until released
	SetReject     bool   // answer the SET @master_binlog_checksum query with ERR
	SetRejectCode uint16 // error code for SetReject (0 = 1193)
	SetClose      bool   // close the socket instead of answering the SET query
	Faults        map[int]Fault
	End           EndKind
	EndCode       uint16
	EndMsg        string
	EndState      string
	LockStep      bool
	AnyPosEOF     bool  // answer any dump request with EOF at once (handshake tests)
	MicroDelays   []int // microseconds to sleep before packet i (cyclic), nil = none
	OnPacket      func(i int)
}

// DumpReq is a decoded COM_BINLOG_DUMP.
type DumpReq struct {
	Pos      uint32 `json:"pos"`
	Flags    uint16 `json:"flags"`
	ServerID uint32 `json:"server_id"`
	File     string `json:"file"`
}

// Cmd is one received command.
type Cmd struct {
	Kind  byte     `json:"kind"`
	Query string   `json:"query,omitempty"`
	Dump  *DumpReq `json:"dump,omitempty"`
	// Rejected: the master answered this query with an ERR packet.
	Rejected bool `json:"rejected,omitempty"`
}

// ConnLog is what the master observed on one connection.
type ConnLog struct {
	mu          sync.Mutex
	Index       int
	Cmds        []Cmd
	PacketsSent int
	BadResume   bool
	PeerClosed  bool // the server side saw EOF / error on read
	QuitSeen    bool
	FaultDone   []string
	Finished    bool // the master finished serving (end action done)
	HoldReached bool
	WriteErr    string
	AckTimeouts int
	acks        chan struct{}
}

// ConnSnap is a lock-free copy of a ConnLog.
type ConnSnap struct {
	Index       int
	Cmds        []Cmd
	PacketsSent int
	BadResume   bool
	PeerClosed  bool
	QuitSeen    bool
	FaultDone   []string
	Finished    bool
	HoldReached bool
	WriteErr    string
	AckTimeouts int
}

// Snapshot returns a copy safe to read.
func (c *ConnLog) Snapshot() ConnSnap {
	c.mu.Lock()
	defer c.mu.Unlock()
	return ConnSnap{Index: c.Index, Cmds: append([]Cmd(nil), c.Cmds...), PacketsSent: c.PacketsSent, BadResume: c.BadResume,
		PeerClosed: c.PeerClosed, QuitSeen: c.QuitSeen, FaultDone: append([]string(nil), c.FaultDone...), Finished: c.Finished,
		HoldReached: c.HoldReached, WriteErr: c.WriteErr, AckTimeouts: c.AckTimeouts}
}

// Dumps returns the dump requests received on the connection.
func (c *ConnLog) Dumps() []DumpReq {
	c.mu.Lock()
	defer c.mu.Unlock()
	var out []DumpReq
	for _, cmd := range c.Cmds {
		if cmd.Dump != nil {
			out = append(out, *cmd.Dump)
		}
	}
	return out
}

// Master is the simulated server.
type Master struct {
	ln     net.Listener
	Tr     *Trace
	mu     sync.Mutex
	layout *hist.Layout
	script []*Script
	defScr *Script
	conns  []*ConnLog
	done   chan struct{}
	wg     sync.WaitGroup
	hold   chan struct{}
	nconn  int32
	open   map[net.Conn]bool
}

// NewMaster starts listening on 127.0.0.1:0.
func NewMaster(l *hist.Layout, tr *Trace) (*Master, error) {
	ln, err := net.Listen("tcp", "127.0.0.1:0")
	if err != nil {
		return nil, err
	}
	m := &Master{ln: ln, Tr: tr, layout: l, done: make(chan struct{}),
		hold: make(chan struct{}, 64), defScr: &Script{End: EndEOF}, open: map[net.Conn]bool{}}
	m.wg.Add(1)
	go m.acceptLoop()
	return m, nil
}

// Addr is host:port.
func (m *Master) Addr() string { return m.ln.Addr().String() }

// SetScripts installs the scripts for the following connections (in accept order).
func (m *Master) SetScripts(s ...*Script) {
	m.mu.Lock()
	m.script = append(m.script, s...)
	m.mu.Unlock()
}

// SetDefault sets the script used when the list is exhausted.
func (m *Master) SetDefault(s *Script) { m.mu.Lock(); m.defScr = s; m.mu.Unlock() }

// Ack tells a lock-step master that the handler has dealt with a delivery; it
// goes to the most recent connection (attempts are sequential).
func (m *Master) Ack() {
	m.mu.Lock()
	var cl *ConnLog
	if n := len(m.conns); n > 0 {
		cl = m.conns[n-1]
	}
	m.mu.Unlock()
	if cl == nil {
		return
	}
	select {
	case cl.acks <- struct{}{}:
	default:
	}
}

// AckWait is how long a lock-step master waits for the handler before it
// goes on anyway (pacing is best effort; it never decides a verdict).
var AckWait = 400 * time.Millisecond

// Release lets a master parked in FHold continue.
func (m *Master) Release() {
	select {
	case m.hold <- struct{}{}:
	default:
	}
}

// Conns returns the connection logs so far.
func (m *Master) Conns() []*ConnLog {
	m.mu.Lock()
	defer m.mu.Unlock()
	return append([]*ConnLog(nil), m.conns...)
}

// Close stops the master and waits for its goroutines.
func (m *Master) Close() {
	select {
	case <-m.done:
	default:
		close(m.done)
	}
	m.ln.Close()
	m.mu.Lock()
	for c := range m.open {
		c.Close()
	}
	m.mu.Unlock()
	m.wg.Wait()
}

func (m *Master) acceptLoop() {
	defer m.wg.Done()
	for {
		c, err := m.ln.Accept()
		if err != nil {
			return
		}
		m.mu.Lock()
		select {
		case <-m.done:
			// accepted while Close was already under way: Close will not see this
			// connection in m.open any more, so nobody else would ever close it
			m.mu.Unlock()
			c.Close()
			return
		default:
		}
		idx := len(m.conns)
		cl := &ConnLog{Index: idx, acks: make(chan struct{}, 4096)}
		m.conns = append(m.conns, cl)
		scr := m.defScr
		if idx < len(m.script) {
			scr = m.script[idx]
		}
		m.open[c] = true
		m.mu.Unlock()
		m.Tr.Add("accept", int64(idx), 0, "")
		m.wg.Add(1)
		go func() {
			defer m.wg.Done()
			m.serve(c, cl, scr)
			c.Close()
			m.mu.Lock()
			delete(m.open, c)
			m.mu.Unlock()
		}()
	}
}

// ---------------------------------------------------------------- protocol

type pconn struct {
	c   net.Conn
	seq byte
}

func (p *pconn) writePacket(payload []byte) error {
	for {
		n := len(payload)
		if n > 0xffffff {
			n = 0xffffff
		}
		hdr := []byte{byte(n), byte(n >> 8), byte(n >> 16), p.seq}
		p.seq++
		buf := append(hdr, payload[:n]...)
		if _, err := p.c.Write(buf); err != nil {
			return err
		}
		payload = payload[n:]
		if n < 0xffffff {
			return nil
		}
	}
}

func (p *pconn) readPacket() ([]byte, error) {
	var hdr [4]byte
	if _, err := io.ReadFull(p.c, hdr[:]); err != nil {
		return nil, err
	}
	n := int(hdr[0]) | int(hdr[1])<<8 | int(hdr[2])<<16
	p.seq = hdr[3] + 1
	b := make([]byte, n)
	if _, err := io.ReadFull(p.c, b); err != nil {
		return nil, err
	}
	return b, nil
}

func okPacket() []byte { return []byte{0x00, 0x00, 0x00, 0x02, 0x00, 0x00, 0x00} }

// ErrPacket builds an ERR packet; state "" omits the sqlstate marker.
func ErrPacket(code uint16, state, msg string) []byte {
	b := []byte{0xff, byte(code), byte(code >> 8)}
	if state != "" {
		b = append(b, '#')
		b = append(b, (state + "HY000")[:5]...)
	}
	return append(b, msg...)
}

func eofPacket() []byte { return []byte{0xfe, 0x00, 0x00, 0x02, 0x00} }

func handshakeV10(connID uint32) []byte {
	b := []byte{10}
	b = append(b, "5.7.30-verif-sim"...)
	b = append(b, 0)
	b = append(b, byte(connID), byte(connID>>8), byte(connID>>16), byte(connID>>24))
	b = append(b, "abcdefgh"...) // auth data part 1
	b = append(b, 0)
	caps := uint32(0x00000001 | 0x00000004 | 0x00000008 | 0x00000200 | 0x00002000 | 0x00008000 | 0x00080000 | 0x00010000 | 0x00020000)
	b = append(b, byte(caps), byte(caps>>8))
	b = append(b, 33)         // charset utf8
	b = append(b, 0x02, 0x00) // status autocommit
	b = append(b, byte(caps>>16), byte(caps>>24))
	b = append(b, 21)
	b = append(b, make([]byte, 10)...)
	b = append(b, "ijklmnopqrst"...) // part 2 (12) + NUL
	b = append(b, 0)
	b = append(b, "mysql_native_password"...)
	return append(b, 0)
}

func (m *Master) serve(c net.Conn, cl *ConnLog, scr *Script) {
	p := &pconn{c: c}
	switch scr.Handshake {
	case "close":
		return
	case "reset":
		if tc, ok := c.(*net.TCPConn); ok {
			tc.SetLinger(0)
		}
		return
	case "garbage":
		p.writePacket([]byte{0x09, 'x', 'y', 'z'}) // protocol version 9: unsupported
		return
	case "errhello":
		p.writePacket(ErrPacket(1040, "08004", "Too many connections"))
		return
	}
	if err := p.writePacket(handshakeV10(uint32(cl.Index + 1))); err != nil {
		return
	}
	if _, err := p.readPacket(); err != nil { // handshake response
		return
	}
	if scr.Handshake == "autherr" {
		p.writePacket(ErrPacket(1045, "28000", "Access denied for user"))
		return
	}
	if err := p.writePacket(okPacket()); err != nil {
		return
	}
	for {
		pkt, err := p.readPacket()
		if err != nil {
			cl.mu.Lock()
			cl.PeerClosed = true
			cl.mu.Unlock()
			m.Tr.Add("peer-closed", int64(cl.Index), 0, "")
			return
		}
		if len(pkt) == 0 {
			continue
		}
		switch pkt[0] {
		case 0x01: // COM_QUIT
			cl.mu.Lock()
			cl.Cmds = append(cl.Cmds, Cmd{Kind: 0x01})
			cl.QuitSeen = true
			cl.mu.Unlock()
			m.Tr.Add("quit", int64(cl.Index), 0, "")
			return
		case 0x0e: // COM_PING
			cl.mu.Lock()
			cl.Cmds = append(cl.Cmds, Cmd{Kind: 0x0e})
			cl.mu.Unlock()
			p.writePacket(okPacket())
		case 0x03: // COM_QUERY
			q := string(pkt[1:])
			cl.mu.Lock()
			cl.Cmds = append(cl.Cmds, Cmd{Kind: 0x03, Query: q})
			cl.mu.Unlock()
			m.Tr.Add("query", int64(cl.Index), 0, q)
			lq := strings.ToLower(strings.TrimSpace(q))
			switch {
			case strings.HasPrefix(lq, "select @@max_allowed_packet"):
				m.sendMaxAllowedPacket(p)
			case strings.Contains(lq, "master_binlog_checksum") && scr.SetHold:
				cl.mu.Lock()
				cl.HoldReached = true
				cl.mu.Unlock()
				m.Tr.Add("hold-reached", int64(cl.Index), -1, "set")
				select {
				case <-m.hold:
					p.writePacket(okPacket())
				case <-m.done:
					return
				}
			case strings.Contains(lq, "master_binlog_checksum") && scr.SetClose:
				return
			case strings.Contains(lq, "master_binlog_checksum") && scr.SetReject:
				code := scr.SetRejectCode
				if code == 0 {
					code = 1193
				}
				cl.mu.Lock()
				cl.Cmds[len(cl.Cmds)-1].Rejected = true
				cl.mu.Unlock()
				p.writePacket(ErrPacket(code, "HY000", "Unknown system variable 'binlog_checksum'"))
			default:
				p.writePacket(okPacket())
			}
		case 0x12: // COM_BINLOG_DUMP
			if len(pkt) < 11 {
				p.writePacket(ErrPacket(1047, "08S01", "Unknown command"))
				continue
			}
			d := &DumpReq{Pos: binary.LittleEndian.Uint32(pkt[1:]), Flags: binary.LittleEndian.Uint16(pkt[5:]),
				ServerID: binary.LittleEndian.Uint32(pkt[7:]), File: string(pkt[11:])}
			cl.mu.Lock()
			cl.Cmds = append(cl.Cmds, Cmd{Kind: 0x12, Dump: d})
			cl.mu.Unlock()
			m.Tr.Add("dump", int64(cl.Index), int64(d.Pos), d.File)
			m.dump(p, cl, scr, d)
			return
		default:
			cl.mu.Lock()
			cl.Cmds = append(cl.Cmds, Cmd{Kind: pkt[0]})
			cl.mu.Unlock()
			p.writePacket(ErrPacket(1047, "08S01", "Unknown command"))
		}
	}
}

func (m *Master) sendMaxAllowedPacket(p *pconn) {
	p.writePacket([]byte{1})
	col := []byte{3, 'd', 'e', 'f', 0, 0, 0, 20}
	col = append(col, "@@max_allowed_packet"...)
	col = append(col, 0, 0x0c, 63, 0, 21, 0, 0, 0, 8, 0xa0, 0, 0, 0, 0)
	p.writePacket(col)
	p.writePacket(eofPacket())
	p.writePacket(append([]byte{7}, "4194304"...))
	p.writePacket(eofPacket())
}

// dump serves the binlog from the requested position.
func (m *Master) dump(p *pconn, cl *ConnLog, scr *Script, d *DumpReq) {
	m.mu.Lock()
	l := m.layout
	m.mu.Unlock()
	// a watcher sees the peer closing (or sending COM_QUIT) while we stream
	peerGone := make(chan struct{})
	var localClose int32
	defer atomic.StoreInt32(&localClose, 1)
	m.wg.Add(1)
	go func() {
		defer m.wg.Done()
		defer close(peerGone)
		buf := make([]byte, 64)
		for {
			n, err := p.c.Read(buf)
			if n >= 5 && buf[4] == 0x01 {
				cl.mu.Lock()
				cl.QuitSeen = true
				cl.mu.Unlock()
				m.Tr.Add("quit", int64(cl.Index), 0, "")
			}
			if err != nil {
				if atomic.LoadInt32(&localClose) == 0 {
					cl.mu.Lock()
					cl.PeerClosed = true
					cl.mu.Unlock()
					m.Tr.Add("peer-closed", int64(cl.Index), 0, "")
				}
				return
			}
		}
	}()
	idle := func() {
		select {
		case <-peerGone:
		case <-m.done:
		}
	}
	finish := func() {
		cl.mu.Lock()
		cl.Finished = true
		cl.mu.Unlock()
		m.Tr.Add("master-finished", int64(cl.Index), 0, "")
	}

	if scr.AnyPosEOF {
		p.writePacket(eofPacket())
		finish()
		idle()
		return
	}
	fi := -1
	for i, f := range l.Files {
		if f.Name == d.File {
			fi = i
		}
	}
	bad := func(msg string) {
		cl.mu.Lock()
		cl.BadResume = true
		cl.mu.Unlock()
		m.Tr.Add("bad-resume", int64(cl.Index), int64(d.Pos), d.File)
		p.writePacket(ErrPacket(1236, "HY000", msg))
		finish()
		idle()
	}
	if fi < 0 {
		bad("Could not find first log file name in binary log index file")
		return
	}
	if d.Pos < 4 {
		bad("Client requested master to start replication from position < 4")
		return
	}
	f := l.Files[fi]
	first := 0
	if d.Pos != 4 {
		first = -1
		for i, e := range f.Events {
			if e.Start == d.Pos {
				first = i
				break
			}
		}
		if first < 0 {
			if n := len(f.Events); n > 0 && f.Events[n-1].End == d.Pos {
				first = n
			} else if len(f.Events) == 0 && d.Pos == f.FDEEnd {
				first = 0
			} else {
				bad("binlog truncated in the middle of event; consider out of sync")
				return
			}
		}
	}

	pktIdx := 0
	// send returns false when the stream must stop.
	send := func(evBytes []byte, commitOf int) bool {
		if scr.OnPacket != nil {
			scr.OnPacket(pktIdx)
		}
		if len(scr.MicroDelays) > 0 {
			if us := scr.MicroDelays[pktIdx%len(scr.MicroDelays)]; us > 0 {
				time.Sleep(time.Duration(us) * time.Microsecond)
			}
		}
		if flt, ok := scr.Faults[pktIdx]; ok {
			if flt.OnReach != nil {
				flt.OnReach()
			}
			cl.mu.Lock()
			cl.FaultDone = append(cl.FaultDone, fmt.Sprintf("%s@%d", flt.Kind, pktIdx))
			cl.mu.Unlock()
			m.Tr.Add("fault", int64(cl.Index), int64(pktIdx), flt.Kind.String())
			switch flt.Kind {
			case FClose:
				finish()
				return false
			case FReset:
				if tc, ok := p.c.(*net.TCPConn); ok {
					tc.SetLinger(0)
				}
				finish()
				return false
			case FShort:
				p.writePacket(flt.Payload)
				pktIdx++
				return true // the regular packet k is replaced
			case FReplace:
				p.writePacket(append([]byte{0}, flt.Payload...))
				pktIdx++
				return true
			case FBadSeq:
				p.seq += 7
				p.writePacket(append([]byte{0}, evBytes...))
				pktIdx++
				return true
			case FErr:
				p.writePacket(ErrPacket(flt.Code, flt.State, flt.Msg))
				finish()
				idle()
				return false
			case FEOF:
				p.writePacket(eofPacket())
				finish()
				idle()
				return false
			case FInject:
				p.writePacket(append([]byte{0}, flt.Payload...))
				if flt.Payload2 != nil {
					p.writePacket(append([]byte{0}, flt.Payload2...))
				}
			case FHold:
				cl.mu.Lock()
				cl.HoldReached = true
				cl.mu.Unlock()
				m.Tr.Add("hold-reached", int64(cl.Index), int64(pktIdx), "")
				select {
				case <-m.hold:
				case <-peerGone:
					finish()
					return false
				case <-m.done:
					return false
				}
			case FStopIdle:
				cl.mu.Lock()
				cl.HoldReached = true
				cl.mu.Unlock()
				m.Tr.Add("hold-reached", int64(cl.Index), int64(pktIdx), "")
				finish()
				idle()
				return false
			}
		}
		if evBytes == nil {
			return true
		}
		if commitOf >= 0 {
			m.Tr.Add("commit-sent", int64(cl.Index), int64(commitOf), "")
		}
		if err := p.writePacket(append([]byte{0}, evBytes...)); err != nil {
			cl.mu.Lock()
			cl.WriteErr = err.Error()
			cl.mu.Unlock()
			finish()
			return false
		}
		pktIdx++
		cl.mu.Lock()
		cl.PacketsSent = pktIdx
		cl.mu.Unlock()
		if commitOf >= 0 && scr.LockStep {
			select {
			case <-cl.acks:
			case <-peerGone:
				finish()
				return false
			case <-m.done:
				return false
			case <-time.After(AckWait):
				cl.mu.Lock()
				cl.AckTimeouts++
				cl.mu.Unlock()
			}
		}
		return true
	}

	for _, pk := range planFrom(l, fi, first, d.Pos) {
		if !send(pk.Bytes, pk.CommitOf) {
			return
		}
	}
	// a fault addressed one past the last packet still fires
	if flt, ok := scr.Faults[pktIdx]; ok && flt.Kind != FNone {
		if !send(nil, -1) {
			return
		}
	}
	switch scr.End {
	case EndEOF:
		p.writePacket(eofPacket())
		finish()
		idle()
	case EndErr:
		p.writePacket(ErrPacket(scr.EndCode, scr.EndState, scr.EndMsg))
		finish()
		idle()
	case EndFIN:
		finish()
	case EndRST:
		if tc, ok := p.c.(*net.TCPConn); ok {
			tc.SetLinger(0)
		}
		finish()
	default:
		finish()
		idle()
	}
}

// PlanPkt is one packet of a dump stream.
type PlanPkt struct {
	Bytes    []byte
	CommitOf int    // delivery index this event commits, or -1
	Kind     string // fake-rotate, fde, or the layout's event kind
	File     int
	Start    uint32
	End      uint32
}

func planFrom(l *hist.Layout, fi, first int, pos uint32) []PlanPkt {
	var out []PlanPkt
	f := l.Files[fi]
	prevCfg := f.Cfg // algorithm in force for the first fake rotate: the file's own
	for ; fi < len(l.Files); fi++ {
		f = l.Files[fi]
		// fake rotate: timestamp 0, next_position 0, artificial
		out = append(out, PlanPkt{Bytes: prevCfg.EventNext(0, ev.Rotate, ev.FlagArtificial, ev.RotateBody(uint64(pos), f.Name), 0), CommitOf: -1, Kind: "fake-rotate", File: fi})
		// format description; next_position 0 when not starting at 4
		if pos == 4 {
			out = append(out, PlanPkt{Bytes: f.Cfg.FormatDescriptionEvent(f.FDETS, f.FDEEnd, 0), CommitOf: -1, Kind: "fde", File: fi, Start: 4, End: f.FDEEnd})
		} else {
			out = append(out, PlanPkt{Bytes: f.Cfg.FormatDescriptionEvent(f.FDETS, 0, 0), CommitOf: -1, Kind: "fde", File: fi})
		}
		for i := first; i < len(f.Events); i++ {
			e := f.Events[i]
			out = append(out, PlanPkt{Bytes: e.Bytes, CommitOf: e.CommitOf, Kind: e.Kind, File: fi, Start: e.Start, End: e.End})
		}
		first = 0
		pos = 4
		prevCfg = f.Cfg
	}
	return out
}

// Plan returns the packets a dump from pos would consist of, or nil when the
// position is not one the master accepts.
func Plan(l *hist.Layout, pos hist.Pos) []PlanPkt {
	fi := -1
	for i, f := range l.Files {
		if f.Name == pos.File {
			fi = i
		}
	}
	if fi < 0 || pos.Off < 4 || pos.Off > 0xffffffff {
		return nil
	}
	f := l.Files[fi]
	first := 0
	if pos.Off != 4 {
		first = -1
		for i, e := range f.Events {
			if int64(e.Start) == pos.Off {
				first = i
				break
			}
		}
		if first < 0 {
			if n := len(f.Events); n > 0 && int64(f.Events[n-1].End) == pos.Off {
				first = n
			} else if len(f.Events) == 0 && pos.Off == int64(f.FDEEnd) {
				first = 0
			} else {
				return nil
			}
		}
	}
	return planFrom(l, fi, first, uint32(pos.Off))
}
