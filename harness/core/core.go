// Package core is the small framework every property check runs inside: a
// deterministic PRNG, sharding, case accounting (evaluations, distinct
// non-trivial cases, coverage cells, samples), violation recording with
// witness files, and the result file handed back to the orchestrator.
//
// Nothing here reads the clock for a decision; wall time is only reported.
package core

import (
	"encoding/binary"
	"encoding/json"
	"fmt"
	"os"
	"path/filepath"
	"runtime/debug"
	"sort"
	"strings"
	"sync"
)

// ---------------------------------------------------------------- PRNG

// Rng is splitmix64; streams are derived from (seed, stream ids...) only.
type Rng struct{ s uint64 }

func mix(z uint64) uint64 {
	z += 0x9e3779b97f4a7c15
	z = (z ^ (z >> 30)) * 0xbf58476d1ce4e5b9
	z = (z ^ (z >> 27)) * 0x94d049bb133111eb
	return z ^ (z >> 31)
}

// NewRng derives an independent stream from a seed and a list of stream ids.
func NewRng(seed uint64, stream ...uint64) *Rng {
	s := mix(seed ^ 0x5eed5eed5eed5eed)
	for _, x := range stream {
		s = mix(s ^ mix(x))
	}
	return &Rng{s: s}
}

// StrID turns a label into a stream id.
func StrID(s string) uint64 { return Hash64([]byte(s)) }

func (r *Rng) U64() uint64 {
	r.s += 0x9e3779b97f4a7c15
	z := r.s
	z = (z ^ (z >> 30)) * 0xbf58476d1ce4e5b9
	z = (z ^ (z >> 27)) * 0x94d049bb133111eb
	return z ^ (z >> 31)
}
func (r *Rng) U32() uint32 { return uint32(r.U64() >> 32) }

// Intn returns a value in [0,n); n must be > 0.
func (r *Rng) Intn(n int) int {
	if n <= 0 {
		panic("Intn: n <= 0")
	}
	return int(r.U64() % uint64(n))
}

// Range returns a value in [lo,hi].
func (r *Rng) Range(lo, hi int) int { return lo + r.Intn(hi-lo+1) }
func (r *Rng) Bool() bool           { return r.U64()&1 == 1 }

// Chance is true with probability num/den.
func (r *Rng) Chance(num, den int) bool { return r.Intn(den) < num }
func (r *Rng) Bytes(n int) []byte {
	b := make([]byte, n)
	i := 0
	for ; i+8 <= n; i += 8 {
		binary.LittleEndian.PutUint64(b[i:], r.U64())
	}
	if i < n {
		v := r.U64()
		for ; i < n; i++ {
			b[i] = byte(v)
			v >>= 8
		}
	}
	return b
}

// Perm returns a permutation of 0..n-1.
func (r *Rng) Perm(n int) []int {
	p := make([]int, n)
	for i := range p {
		p[i] = i
	}
	for i := n - 1; i > 0; i-- {
		j := r.Intn(i + 1)
		p[i], p[j] = p[j], p[i]
	}
	return p
}

// Hash64 is FNV-1a.
func Hash64(b []byte) uint64 {
	h := uint64(14695981039346656037)
	for _, c := range b {
		h ^= uint64(c)
		h *= 1099511628211
	}
	return h
}

// HashAdd folds more bytes into a running FNV-1a hash.
func HashAdd(h uint64, b []byte) uint64 {
	if h == 0 {
		h = 14695981039346656037
	}
	for _, c := range b {
		h ^= uint64(c)
		h *= 1099511628211
	}
	return h
}

// HashU64 folds an integer into a running hash.
func HashU64(h uint64, v uint64) uint64 {
	var b [8]byte
	binary.LittleEndian.PutUint64(b[:], v)
	return HashAdd(h, b[:])
}

// ---------------------------------------------------------------- results

// Violation is one refuted execution.
type Violation struct {
	Key    string `json:"key"`    // stable key (what fails), used against known_findings.txt
	Msg    string `json:"msg"`    // one line for humans
	Replay string `json:"replay"` // witness file
	Count  int64  `json:"count"`  // how many executions showed this key
}

// Result is what one worker process reports.
type Result struct {
	Property     string            `json:"property"`
	Tier         string            `json:"tier"`
	Seed         uint64            `json:"seed"`
	Shard        int               `json:"shard"`
	NShards      int               `json:"nshards"`
	Pass         string            `json:"pass"`
	Evaluations  int64             `json:"evaluations"`
	BulkDistinct int64             `json:"bulk_distinct"` // distinct non-trivial by construction (enumerations)
	HashFile     string            `json:"hash_file"`     // distinct non-trivial case hashes (8 bytes LE each)
	HashCount    int64             `json:"hash_count"`
	Samples      []json.RawMessage `json:"samples"`
	Cells        map[string]int64  `json:"cells"`
	Violations   []Violation       `json:"violations"`
	Inconclusive []string          `json:"inconclusive"`
	Exhaustive   []string          `json:"exhaustive"`
	Notes        map[string]int64  `json:"notes"`
	Rule         string            `json:"rule"`
	Assumptions  []string          `json:"assumptions"`
	Skipped      int64             `json:"skipped"`
	Fatal        string            `json:"fatal,omitempty"`
	Done         bool              `json:"done"`
}

// Ctx is handed to a check.
type Ctx struct {
	Prop    string
	Tier    string // quick | thorough
	Seed    uint64
	Shard   int
	NShards int
	Pass    string // name of the pass (build / env variant) this process runs in
	Race    bool   // built with -race
	Replay  string // witness file to replay, or ""
	TmpDir  string
	OutDir  string // where witness files go (/verif/replays/<prop>)
	Journal *os.File

	mu        sync.Mutex
	res       Result
	hashes    map[uint64]struct{}
	vioByKey  map[string]int
	maxHashes int
}

// NewCtx builds a context; the caller fills the exported fields first.
func NewCtx(prop, tier string, seed uint64, shard, nshards int) *Ctx {
	c := &Ctx{Prop: prop, Tier: tier, Seed: seed, Shard: shard, NShards: nshards}
	c.res = Result{Property: prop, Tier: tier, Seed: seed, Shard: shard, NShards: nshards,
		Cells: map[string]int64{}, Notes: map[string]int64{}}
	c.hashes = map[uint64]struct{}{}
	c.vioByKey = map[string]int{}
	c.maxHashes = 6_000_000
	return c
}

// Quick reports whether this is the quick tier.
func (c *Ctx) Quick() bool { return c.Tier != "thorough" }

// N picks a case count by tier.
func (c *Ctx) N(quick, thorough int) int {
	if c.Quick() {
		return quick
	}
	return thorough
}

// Mine reports whether scenario index i belongs to this shard.
func (c *Ctx) Mine(i int) bool {
	if c.NShards <= 1 {
		return true
	}
	return i%c.NShards == c.Shard
}

// Rng derives a stream for (property, ids...).
func (c *Ctx) Rng(stream ...uint64) *Rng {
	ids := append([]uint64{StrID(c.Prop)}, stream...)
	return NewRng(c.Seed, ids...)
}

// Case accounts one evaluated case. hash identifies the case (0 = do not
// track distinctness); nontrivial is the check's own rule.
func (c *Ctx) Case(hash uint64, nontrivial bool) {
	c.mu.Lock()
	c.res.Evaluations++
	if nontrivial && hash != 0 && len(c.hashes) < c.maxHashes {
		c.hashes[hash] = struct{}{}
	}
	c.mu.Unlock()
}

// Bulk accounts an enumeration: n evaluations of which distinctNontrivial are
// distinct and non-trivial by construction (each enumerated exactly once).
func (c *Ctx) Bulk(n, distinctNontrivial int64) {
	c.mu.Lock()
	c.res.Evaluations += n
	c.res.BulkDistinct += distinctNontrivial
	c.mu.Unlock()
}

// Cell counts an observed coverage cell (a state, class or interleaving seen).
func (c *Ctx) Cell(name string) { c.CellN(name, 1) }
func (c *Ctx) CellN(name string, n int64) {
	c.mu.Lock()
	c.res.Cells[name] += n
	c.mu.Unlock()
}

// Note accumulates a named counter reported in the evidence.
func (c *Ctx) Note(name string, n int64) {
	c.mu.Lock()
	c.res.Notes[name] += n
	c.mu.Unlock()
}

// Sample keeps a few written-out cases for the evidence file.
func (c *Ctx) Sample(v interface{}) {
	c.mu.Lock()
	defer c.mu.Unlock()
	if len(c.res.Samples) >= 4 {
		return
	}
	b, err := json.Marshal(v)
	if err != nil {
		b, _ = json.Marshal(fmt.Sprintf("%+v", v))
	}
	if len(b) > 1500 {
		b, _ = json.Marshal(string(b[:1500]) + "…(truncated)")
	}
	c.res.Samples = append(c.res.Samples, b)
}

// WantSample reports whether more samples are wanted (to avoid building them).
func (c *Ctx) WantSample() bool {
	c.mu.Lock()
	defer c.mu.Unlock()
	return len(c.res.Samples) < 4
}

// SetRule states how cases are generated and what counts as non-trivial.
func (c *Ctx) SetRule(rule string) { c.mu.Lock(); c.res.Rule = rule; c.mu.Unlock() }

// Assume records an assumption / trusted-base item.
func (c *Ctx) Assume(s string) {
	c.mu.Lock()
	c.res.Assumptions = append(c.res.Assumptions, s)
	c.mu.Unlock()
}

// ExhaustiveDomain records a sub-domain that was enumerated completely.
func (c *Ctx) ExhaustiveDomain(s string) {
	c.mu.Lock()
	c.res.Exhaustive = append(c.res.Exhaustive, s)
	c.mu.Unlock()
}

// Inconclusive records that part of the run could not decide.
func (c *Ctx) Inconclusive(why string) {
	c.mu.Lock()
	if len(c.res.Inconclusive) < 50 {
		c.res.Inconclusive = append(c.res.Inconclusive, why)
	}
	c.mu.Unlock()
}

// Skip counts scenarios not run because of the early-exit rule.
func (c *Ctx) Skip(n int64) { c.mu.Lock(); c.res.Skipped += n; c.mu.Unlock() }

// KeyCount says how often a violation key has been seen in this process.
func (c *Ctx) KeyCount(key string) int {
	c.mu.Lock()
	defer c.mu.Unlock()
	if i, ok := c.vioByKey[key]; ok {
		return int(c.res.Violations[i].Count)
	}
	return 0
}

// TotalViolations is the number of refuted executions so far.
func (c *Ctx) TotalViolations() int64 {
	c.mu.Lock()
	defer c.mu.Unlock()
	var n int64
	for _, v := range c.res.Violations {
		n += v.Count
	}
	return n
}

func sanitize(s string) string {
	var b strings.Builder
	for _, r := range s {
		switch {
		case r >= 'a' && r <= 'z', r >= 'A' && r <= 'Z', r >= '0' && r <= '9', r == '-', r == '_', r == '.':
			b.WriteRune(r)
		default:
			b.WriteByte('_')
		}
		if b.Len() >= 80 {
			break
		}
	}
	return b.String()
}

// Violation records a refuted execution. key must be stable (it names what
// fails, not the particular run); witness is written to a replay file for the
// first occurrence of each key.
func (c *Ctx) Violation(key, msg string, witness interface{}) {
	c.mu.Lock()
	defer c.mu.Unlock()
	if i, ok := c.vioByKey[key]; ok {
		c.res.Violations[i].Count++
		return
	}
	path := ""
	if c.OutDir != "" {
		_ = os.MkdirAll(c.OutDir, 0o755)
		path = filepath.Join(c.OutDir, fmt.Sprintf("%s-%s-s%d-%016x.json", c.Prop, sanitize(key), c.Seed, Hash64([]byte(key+msg))))
		w := map[string]interface{}{
			"property": c.Prop, "tier": c.Tier, "seed": c.Seed, "pass": c.Pass,
			"key": key, "msg": msg, "witness": witness,
		}
		b, err := json.MarshalIndent(w, "", " ")
		if err != nil {
			b, _ = json.Marshal(map[string]interface{}{"property": c.Prop, "tier": c.Tier, "seed": c.Seed,
				"key": key, "msg": msg, "witness": fmt.Sprintf("%+v", witness)})
		}
		_ = os.WriteFile(path, b, 0o644)
	}
	if len(msg) > 600 {
		msg = msg[:600] + "…"
	}
	c.vioByKey[key] = len(c.res.Violations)
	c.res.Violations = append(c.res.Violations, Violation{Key: key, Msg: msg, Replay: path, Count: 1})
}

// Log writes a line to the journal (scenario ids are logged before running).
func (c *Ctx) Log(format string, args ...interface{}) {
	if c.Journal == nil {
		return
	}
	c.mu.Lock()
	fmt.Fprintf(c.Journal, format+"\n", args...)
	c.mu.Unlock()
}

// Guard runs f and converts a panic into an error string with the stack.
func Guard(f func()) (perr string) {
	defer func() {
		if r := recover(); r != nil {
			perr = fmt.Sprintf("panic: %v\n%s", r, debug.Stack())
		}
	}()
	f()
	return ""
}

// Finish writes the result file.
func (c *Ctx) Finish(path string, fatal string) error {
	c.mu.Lock()
	defer c.mu.Unlock()
	c.res.Pass = c.Pass
	c.res.Fatal = fatal
	c.res.Done = fatal == ""
	if len(c.hashes) > 0 {
		hf := path + ".hashes"
		buf := make([]byte, 0, 8*len(c.hashes))
		keys := make([]uint64, 0, len(c.hashes))
		for h := range c.hashes {
			keys = append(keys, h)
		}
		sort.Slice(keys, func(i, j int) bool { return keys[i] < keys[j] })
		var b [8]byte
		for _, h := range keys {
			binary.LittleEndian.PutUint64(b[:], h)
			buf = append(buf, b[:]...)
		}
		if err := os.WriteFile(hf, buf, 0o644); err != nil {
			return err
		}
		c.res.HashFile = hf
		c.res.HashCount = int64(len(keys))
	}
	b, err := json.Marshal(&c.res)
	if err != nil {
		return err
	}
	return os.WriteFile(path, b, 0o644)
}

// ---------------------------------------------------------------- registry

// Check is a property check; it reports through ctx.
type Check func(c *Ctx)

var registry = map[string]Check{}

// Register installs the check for a property id.
func Register(prop string, f Check) { registry[prop] = f }

// Lookup finds a check.
func Lookup(prop string) Check { return registry[prop] }

// Props lists registered property ids.
func Props() []string {
	var out []string
	for k := range registry {
		out = append(out, k)
	}
	sort.Strings(out)
	return out
}
