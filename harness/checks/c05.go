package checks

import (
	"fmt"
	"time"

	"verifharness/core"
	"verifharness/enc/ev"
	"verifharness/gen"
	"verifharness/hist"
	"verifharness/run"
	"verifharness/sim"
	"verifharness/xport"
)

// C05: Stream always terminates and leaves nothing behind; Error() never
// blocks; the handler is only called inside Stream, one call at a time; no
// data race (race reports are collected by the orchestrator from GORACE logs).
func init() { core.Register("C05", checkC05) }

// stopScn is one way to end a stream, at one point, in one timing.
type stopScn struct {
	Hist    int       `json:"hist"`
	Spec    faultSpec `json:"spec"`
	Rep     int       `json:"rep"`
	Wrapped bool      `json:"wrapped"`
}

func stopHistory(c *core.Ctx, idx int) (*hist.History, []*hist.Table) {
	if idx >= longHistBase {
		return longHistory(c.Rng(core.StrID("stophist-long"), uint64(idx)), idx)
	}
	return smallHistory(c.Rng(core.StrID("stophist"), uint64(idx)), idx)
}

// Long histories (hundreds of events after the stop point): with the handler
// blocked and the master far ahead, the library's reader has far more to hand
// over than any plausible read-ahead buffer holds, so the "reader is holding
// an event" states are reached however the hand-off is implemented.
const longHistBase = 1 << 30

func longHistory(r *core.Rng, idx int) (*hist.History, []*hist.Table) {
	cb := allCombos()[r.Intn(24)]
	o := cb.hopts(r)
	o.MaxCols = 3
	o.MaxRows = 1
	o.MaxStmts = 2
	o.MaxEvents = 1
	o.MaxTables = 2
	o.NoJSON = true
	if idx%2 == 1 {
		o.Switch = 1
		return gen.RandomHistory(r, o, 90+r.Intn(40), 1)
	}
	// every other long history: rows with blobs that make packets larger than
	// the driver's initial 4096-byte read buffer (and than twice / four times it)
	o.BlobLens = []int{4100, 4200, 5000, 9000, 17000}
	b := gen.NewBuilder(r, o)
	t := b.RandTable(4242, "dbl", "big", 1)
	t.Cols = append(t.Cols, hist.Column{Name: "v", Type: ev.TVarchar, Meta: 300, Nullable: true},
		hist.Column{Name: "b", Type: ev.TMediumBlob, Meta: 3, Nullable: true}, hist.Column{Name: "n", Type: ev.TLong})
	b.Tables = []*hist.Table{t}
	for i := 0; i < 90+r.Intn(40); i++ {
		b.Add([]hist.UnitKind{hist.TxXID, hist.TxXID, hist.TxCommit, hist.AutoRows, hist.DDL}[r.Intn(5)])
	}
	return b.H, b.Tables
}

// longScenarios: the stop causes that matter when much is pending, at a few
// transactions only (the enumeration over every index is done on the small
// histories).
func longScenarios(c *core.Ctx, hidx int, planLen, ntx int, reps int) []stopScn {
	r := c.Rng(core.StrID("stopscn-long"), uint64(hidx))
	var out []stopScn
	add := func(f faultSpec) {
		for rep := 0; rep < reps; rep++ {
			out = append(out, stopScn{Hist: hidx, Spec: f, Rep: rep, Wrapped: true})
		}
	}
	for _, j := range []int{0, 1, ntx / 3, ntx / 2} {
		if j >= ntx {
			continue
		}
		add(faultSpec{Kind: "cancel-blocked", At: j})
		add(faultSpec{Kind: "cancel-late-packet", At: j})
		add(faultSpec{Kind: "handler-err", At: j})
		add(faultSpec{Kind: "handler-err", At: j, Slow: 300})
		add(faultSpec{Kind: "cancel-handler", At: j})
		add(faultSpec{Kind: "handler-err-cancel", At: j})
		for _, k := range []string{"fin-blocked", "rst-blocked", "err-blocked", "eof-blocked"} {
			f := faultSpec{Kind: k, At: j}
			if k == "err-blocked" {
				f.Code, f.Msg, f.State = uint16(1+r.Intn(65535)), randMsg(r), "HY000"
			}
			add(f)
		}
	}
	for _, k := range []int{planLen / 2, planLen - 1, planLen} {
		add(faultSpec{Kind: "cancel-idle", At: k})
		add(faultSpec{Kind: "fin", At: k, Slow: 200})
		add(faultSpec{Kind: "err", At: k, Slow: 200, Code: 1236, Msg: randMsg(r)})
		add(faultSpec{Kind: "cancel-master", At: k, Slow: 200})
	}
	return out
}

var c05PacketKinds = []string{"fin", "rst", "err", "eof", "zerolen", "badseq", "short0", "cut", "inject-rowsquery", "inject-intvar", "inject-rand", "inject-invalid", "cancel-master",
	"inject-baddecode-before", "inject-baddecode-after", "inject-baddecode-write", "inject-baddecode-delete",
	"inject-hdronly-tablemap", "inject-hdronly-rows", "inject-hdronly-query", "inject-hdronly-fde", "inject-hdronly-rotate", "inject-hdronly-nocrc-rotate"}

// stopScenarios enumerates stop cause x stop point x pacing x handler speed.
func stopScenarios(c *core.Ctx, hidx int, planLen, ntx int, reps int) []stopScn {
	r := c.Rng(core.StrID("stopscn"), uint64(hidx))
	var out []stopScn
	add := func(f faultSpec) {
		for rep := 0; rep < reps; rep++ {
			out = append(out, stopScn{Hist: hidx, Spec: f, Rep: rep, Wrapped: true})
		}
	}
	for k := 0; k <= planLen; k++ {
		for _, kind := range c05PacketKinds {
			for _, lock := range []bool{false, true} {
				f := faultSpec{Kind: kind, At: k, Lock: lock}
				if kind == "err" {
					f.Code, f.Msg = uint16(1+r.Intn(65535)), randMsg(r)
					if r.Bool() {
						f.State = "HY000"
					}
				}
				if r.Chance(1, 3) {
					f.Slow = 100 + r.Intn(400)
				}
				add(f)
			}
		}
		add(faultSpec{Kind: "cancel-idle", At: k})
	}
	for j := 0; j < ntx; j++ {
		for _, lock := range []bool{false, true} {
			add(faultSpec{Kind: "handler-err", At: j, Lock: lock})
			add(faultSpec{Kind: "handler-err", At: j, Lock: lock, Slow: 300})
			add(faultSpec{Kind: "cancel-handler", At: j, Lock: lock})
			add(faultSpec{Kind: "handler-err-cancel", At: j, Lock: lock})
			add(faultSpec{Kind: "handler-ctxerr-cancel", At: j, Lock: lock})
		}
		add(faultSpec{Kind: "cancel-blocked", At: j})
		add(faultSpec{Kind: "cancel-late-packet", At: j})
		// the master ends the stream (FIN / RST / ERR / EOF) while the handler is blocked
		for _, k := range []string{"fin-blocked", "rst-blocked", "err-blocked", "eof-blocked"} {
			f := faultSpec{Kind: k, At: j}
			if k == "err-blocked" {
				f.Code, f.Msg, f.State = uint16(1+r.Intn(65535)), randMsg(r), "HY000"
			}
			add(f)
		}
	}
	for n := 0; n < 3; n++ {
		for _, lock := range []bool{false, true} {
			add(faultSpec{Kind: "mapper-err", At: n, Lock: lock})
			add(faultSpec{Kind: "mapper-count", At: n, Lock: lock})
			add(faultSpec{Kind: "mapper-err-cancel", At: n, Lock: lock})
			add(faultSpec{Kind: "mapper-count-cancel", At: n, Lock: lock})
		}
	}
	for _, kind := range preconnKinds {
		add(faultSpec{Kind: kind})
	}
	add(faultSpec{Kind: "cancel-during-set"})
	add(faultSpec{Kind: "cancel-at-dial"})
	add(faultSpec{Kind: "clean-eof"})
	add(faultSpec{Kind: "clean-eof", Lock: true})
	add(faultSpec{Kind: "read-error", At: 1 + r.Intn(400)})
	return out
}

// runStop executes one stop scenario and returns the observation.
func runStop(c *core.Ctx, s *run.Session, l *hist.Layout, start hist.Pos, scn stopScn, o attemptOpts, r *core.Rng) *attemptObs {
	spec := scn.Spec
	switch spec.Kind {
	case "cancel-idle":
		// the master withholds packet k; the reader waits for the network; then cancel
		ob := &attemptObs{Spec: spec, Reader: "unknown", Handler: "fast"}
		plan := sim.Plan(l, start)
		ob.PlanLen = len(plan)
		at := spec.At
		if at > len(plan) {
			at = len(plan)
		}
		scr := &sim.Script{End: sim.EndIdle, Faults: map[int]sim.Fault{at: {Kind: sim.FHold}}}
		s.M.SetScripts(scr)
		hs0 := run.NoFaults()
		hs0.InlineError = o.InlineError
		rn := s.Start(hs0, nil)
		// wait until the master is parked and everything sent so far was consumed
		state := "unknown"
		for i := 0; i < 4000; i++ {
			conns := s.M.Conns()
			if len(conns) > 0 && conns[len(conns)-1].Snapshot().HoldReached {
				state = s.ReaderState()
				if state == "network" && s.CallerIdle() {
					break
				}
			}
			select {
			case <-rn.Done():
				i = 4000
			case <-time.After(250 * time.Microsecond):
			}
		}
		ob.Reader = state
		ob.Reached = true
		s.Cancel()
		ob.Res = rn.Wait(maxWait)
		s.M.Release()
		finishObs(s, ob, o)
		return ob
	case "cancel-during-set":
		// the master is slow to answer SET @master_binlog_checksum; the caller
		// cancels while the library waits for that answer
		ob := &attemptObs{Spec: spec, Reader: "unknown", Handler: "fast"}
		s.M.SetScripts(&sim.Script{End: sim.EndEOF, SetHold: true})
		hs := run.NoFaults()
		hs.InlineError = o.InlineError
		rn := s.Start(hs, nil)
		for i := 0; i < 4000; i++ {
			conns := s.M.Conns()
			if len(conns) > 0 && conns[len(conns)-1].Snapshot().HoldReached {
				ob.Reached = true
				break
			}
			select {
			case <-rn.Done():
				i = 4000
			case <-time.After(250 * time.Microsecond):
			}
		}
		s.Cancel()
		ob.Res = rn.Wait(maxWait)
		if ob.Res.Verdict != run.Returned {
			// let the attempt go on so that nothing of it is left for the next scenario
			s.M.Release()
			select {
			case <-rn.Done():
			case <-time.After(maxWait):
			}
		}
		finishObs(s, ob, o)
		return ob
	case "cancel-at-dial":
		// the caller cancels at the moment the TCP connection is established,
		// before the driver has armed its own watch of the context
		ob := &attemptObs{Spec: spec, Reader: "unknown", Handler: "fast", Reached: true}
		s.M.SetScripts(&sim.Script{End: sim.EndEOF})
		hs := run.NoFaults()
		hs.InlineError = o.InlineError
		ob.Res = s.Attempt(hs, &xport.Options{AfterDial: s.Cancel}, maxWait)
		finishObs(s, ob, o)
		return ob
	case "cancel-blocked":
		// the handler blocks at transaction j while the master is far ahead: the
		// reader ends up holding an event the parser has not taken; then cancel
		ob := &attemptObs{Spec: spec, Reader: "unknown", Handler: "blocked"}
		scr := &sim.Script{End: sim.EndIdle}
		s.M.SetScripts(scr)
		hs := run.NoFaults()
		hs.BlockAt = spec.At
		hs.InlineError = o.InlineError
		rn := s.Start(hs, nil)
		blocked := s.WaitBlocked(rn, maxWait)
		state := "unknown"
		if blocked {
			for i := 0; i < 400; i++ {
				state = s.ReaderState()
				if state == "holding" || state == "network" {
					// network means the master has nothing more to send after tx j
					if state == "holding" || i > 40 {
						break
					}
				}
				time.Sleep(100 * time.Microsecond)
			}
			ob.Reached = true
		}
		ob.Reader = state
		s.Cancel()
		s.ReleaseHandler()
		ob.Res = rn.Wait(maxWait)
		finishObs(s, ob, o)
		return ob
	case "cancel-late-packet":
		// the handler blocks at transaction j while the master withholds the packets
		// after it (reader waiting for the network); the caller cancels; only then
		// does the master send more packets, which the reader receives after the
		// cancellation but before anybody closed the connection; then the handler
		// is released
		ob := &attemptObs{Spec: spec, Reader: "unknown", Handler: "blocked"}
		plan := sim.Plan(l, start)
		holdAt := len(plan)
		seen := -1
		for i, pk := range plan {
			if pk.CommitOf >= 0 {
				seen++
				if seen == spec.At {
					holdAt = i + 1
					break
				}
			}
		}
		scr := &sim.Script{End: sim.EndIdle, Faults: map[int]sim.Fault{holdAt: {Kind: sim.FHold}}}
		s.M.SetScripts(scr)
		hs := run.NoFaults()
		hs.BlockAt = spec.At
		hs.InlineError = o.InlineError
		rn := s.Start(hs, nil)
		blocked := s.WaitBlocked(rn, maxWait)
		if blocked {
			last, stable := "", 0
			for i := 0; i < 4000; i++ {
				conns := s.M.Conns()
				if len(conns) > 0 && conns[len(conns)-1].Snapshot().HoldReached {
					st := s.ReaderState()
					if st == "network" {
						break
					}
					// a library that reads nothing while the handler runs never
					// gets there: go on once its state no longer changes
					if st == last && st != "running" {
						if stable++; stable >= 20 {
							break
						}
					} else {
						stable = 0
					}
					last = st
				}
				time.Sleep(250 * time.Microsecond)
			}
			ob.Reader = s.ReaderState()
			ob.Reached = true
			s.Cancel()
			s.M.Release()              // late packets
			for i := 0; i < 400; i++ { // let the reader meet them
				if st := s.ReaderState(); st != "network" {
					break
				}
				time.Sleep(100 * time.Microsecond)
			}
		} else {
			s.Cancel()
		}
		s.ReleaseHandler()
		ob.Res = rn.Wait(maxWait)
		finishObs(s, ob, o)
		return ob
	case "fin-blocked", "rst-blocked", "err-blocked", "eof-blocked":
		// the handler blocks at transaction j; the master, far ahead, finishes its
		// script and ends the stream its way; only then is the handler released
		ob := &attemptObs{Spec: spec, Reader: "unknown", Handler: "blocked"}
		scr := &sim.Script{}
		switch spec.Kind {
		case "fin-blocked":
			scr.End = sim.EndFIN
		case "rst-blocked":
			scr.End = sim.EndRST
		case "err-blocked":
			scr.End, scr.EndCode, scr.EndMsg, scr.EndState = sim.EndErr, spec.Code, spec.Msg, spec.State
		default:
			scr.End = sim.EndEOF
		}
		s.M.SetScripts(scr)
		hs := run.NoFaults()
		hs.BlockAt = spec.At
		hs.InlineError = o.InlineError
		rn := s.Start(hs, nil)
		blocked := s.WaitBlocked(rn, maxWait)
		if blocked {
			// wait until the master has done its part
			for i := 0; i < 4000; i++ {
				conns := s.M.Conns()
				if len(conns) > 0 && conns[len(conns)-1].Snapshot().Finished {
					break
				}
				time.Sleep(250 * time.Microsecond)
			}
			ob.Reader = s.ReaderState()
			ob.Reached = true
		}
		s.ReleaseHandler()
		ob.Res = rn.Wait(maxWait)
		finishObs(s, ob, o)
		return ob
	case "read-error":
		ob := &attemptObs{Spec: spec, Reader: "unknown", Handler: "fast", Reached: true}
		s.M.SetScripts(&sim.Script{End: sim.EndIdle})
		// the read error must fall inside the bytes the master will send
		// (handshake + OK + OK are about 100 bytes)
		total := 0
		for _, pk := range sim.Plan(l, start) {
			total += len(pk.Bytes) + 5
		}
		if total < 1 {
			total = 1
		}
		hs1 := run.NoFaults()
		hs1.InlineError = o.InlineError
		ob.Res = s.Attempt(hs1, &xport.Options{FailReadAt: int64(100 + spec.At%total)}, maxWait)
		finishObs(s, ob, o)
		return ob
	}
	return runAttempt(c, s, l, start, spec, o, r)
}

func finishObs(s *run.Session, ob *attemptObs, o attemptOpts) {
	if ob.Res.Verdict != run.Returned {
		return
	}
	errCalls := func() {
		if o.CancelBeforeError {
			s.Cancel()
		}
		if o.InlineError && ob.Res.InlineErrDone {
			ob.Err1 = &run.ErrorResult{Err: ob.Res.InlineErr, Verdict: run.Returned}
		} else if o.ErrorCalls >= 1 {
			ob.Err1 = s.CallError(maxWait)
		}
		if o.ErrorCalls >= 2 && ob.Err1.Verdict == run.Returned {
			ob.Err2 = s.CallError(maxWait)
		}
	}
	if o.ErrorFirst {
		errCalls()
	}
	if o.Leftovers {
		ob.LeftV, ob.LeftG = s.Leftovers(maxWait)
		ob.LeftDone = true
	}
	if !o.ErrorFirst {
		errCalls()
	}
}

func checkC05(c *core.Ctx) {
	c.SetRule("per small generated history: every packet index x {fin, rst, err, eof, zero-length, out-of-sequence, short, cut, injected unsupported/invalid event, injected well-formed rows event with an undecodable cell in its before / after / only image, master-side cancel} x pacing {far-ahead, lock-step} x handler {fast, slow}; cancel while the master withholds packet k (reader waiting for the network); cancel while the handler is blocked at transaction j with the master far ahead (reader holding an event); handler error / in-handler cancel at every transaction; mapper failures; 8 kinds of attempts that fail before a connection or reader exists; clean EOF; transport read error — each repeated, in -race builds under GOMAXPROCS 1/2/4/16. Monitors: quiescent-stuck rule on Stream, on the first and second Error(), leftover library goroutines, client socket closed, handler guard (in-flight counter, streamActive), race log. distinct by (history, spec, rep, pass); non-trivial iff the scripted stop was reached")
	c.Assume("Error() is only called after Stream returned")
	c.Assume("race freedom = no report from the Go race detector on these executions")
	nh := c.N(5, 30)
	reps := c.N(2, 6)
	if c.Replay != "" {
		var w struct {
			Witness struct {
				Scenario stopScn `json:"scenario"`
			} `json:"witness"`
		}
		if err := readWitness(c.Replay, &w); err != nil {
			c.Inconclusive("cannot read witness: " + err.Error())
			return
		}
		scn := w.Witness.Scenario
		h, tables := stopHistory(c, scn.Hist)
		c05Run(c, scn, h, h.Build(), tables)
		return
	}
	n := 0
	for hidx := 0; hidx < nh; hidx++ {
		h, tables := stopHistory(c, hidx)
		l := h.Build()
		start := hist.Pos{File: h.FirstFile, Off: 4}
		exp := hist.Expect(h, l, start)
		for _, scn := range stopScenarios(c, hidx, len(sim.Plan(l, start)), len(exp), reps) {
			n++
			if !c.Mine(n) {
				continue
			}
			c05Run(c, scn, h, l, tables)
		}
	}
	for k := 0; k < c.N(2, 8); k++ {
		hidx := longHistBase + k
		h, tables := stopHistory(c, hidx)
		l := h.Build()
		start := hist.Pos{File: h.FirstFile, Off: 4}
		exp := hist.Expect(h, l, start)
		big := false
		for _, pk := range sim.Plan(l, start) {
			if len(pk.Bytes) > 4096 {
				big = true
			}
		}
		for _, scn := range longScenarios(c, hidx, len(sim.Plan(l, start)), len(exp), reps) {
			n++
			if !c.Mine(n) {
				continue
			}
			c.Cell("long-history-scenario")
			if big {
				c.Cell("long-history-with-packets>4096")
			}
			c05Run(c, scn, h, l, tables)
		}
	}
}

func c05Run(c *core.Ctx, scn stopScn, h *hist.History, l *hist.Layout, tables []*hist.Table) {
	spec := scn.Spec
	cls := causeClass(spec.Kind)
	for _, sym := range []string{"error-blocks", "stream-stuck", "goroutine-leak", "socket-left-open"} {
		if c.KeyCount("c05:"+sym+":"+cls) >= 5 {
			c.Skip(1)
			return
		}
	}
	c.Log("C05 %+v", scn)
	start := hist.Pos{File: h.FirstFile, Off: 4}
	s, err := run.NewSession(l, tables, 505, start, scn.Wrapped)
	if err != nil {
		c.Inconclusive("cannot start master: " + err.Error())
		return
	}
	defer s.Close()
	r := c.Rng(core.StrID("c05run"), uint64(scn.Hist), core.Hash64([]byte(fmt.Sprint(scn.Spec))), uint64(scn.Rep))
	// goroutines leaked by an earlier scenario of this process were reported
	// there; they are excluded here so that each leak is attributed once
	for _, g := range run.LibGoroutines(nil) {
		s.Abandon(g.ID)
		c.Cell("preexisting-leaked-goroutine-excluded")
	}
	ob := runStop(c, s, l, start, scn, attemptOpts{ErrorCalls: 2, Leftovers: true, ErrorFirst: scn.Rep%2 == 0, ObserveState: true}, r)
	res := ob.Res
	wit := func(extra map[string]interface{}) map[string]interface{} {
		return witnessOf(scn, h, s, extra)
	}
	c.Case(core.HashU64(core.HashAdd(layoutHash(l), []byte(fmt.Sprint(scn.Spec, c.Pass))), uint64(scn.Rep)), ob.reached())
	if ob.reached() {
		c.Cell("cause:" + cls)
		c.Cell(fmt.Sprintf("cell:%s/reader=%s/handler=%s", cls, ob.reader(), ob.Handler))
		c.Cell("reader:" + ob.reader())
		// implementation-independent views of the same observation (the
		// coverage floor is stated on these: how the library hands events
		// from its reader to the caller is its own business)
		if rs := ob.reader(); rs == "holding" || rs == "running" {
			c.Cell("reader-busy-at-stop")
		}
		c.Cell("handler-at-stop:" + ob.Handler)
	} else {
		c.Cell("not-reached:" + cls)
	}

	switch res.Verdict {
	case run.Stuck:
		c.Violation("c05:stream-stuck:"+cls, fmt.Sprintf("%s: Stream did not return; goroutines parked for good: %s", spec, run.Sig(res.StuckDump)), wit(map[string]interface{}{"goroutines": gdump(res.StuckDump)}))
		return
	case run.Undecided:
		c.Inconclusive(fmt.Sprintf("C05 %s: Stream did not return and the stuck rule could not decide (%s)", spec, run.Sig(res.StuckDump)))
		return
	}
	if res.Panic != "" {
		c.Violation("c05:panic:"+cls, fmt.Sprintf("%s: Stream panicked: %s", spec, res.Panic), wit(nil))
	}
	for i, er := range []*run.ErrorResult{ob.Err1, ob.Err2} {
		if er == nil {
			continue
		}
		name := []string{"error-blocks", "error2-blocks"}[i]
		switch er.Verdict {
		case run.Stuck:
			c.Violation("c05:"+name+":"+cls, fmt.Sprintf("%s: Error() call %d blocks forever (reader state at the stop: %s); parked: %s", spec, i+1, ob.reader(), run.Sig(er.Dump)),
				wit(map[string]interface{}{"goroutines": gdump(er.Dump)}))
		case run.Undecided:
			c.Inconclusive(fmt.Sprintf("C05 %s: Error() call %d did not return and the stuck rule could not decide", spec, i+1))
		}
		if er.Panic != "" {
			c.Violation("c05:error-panic:"+cls, fmt.Sprintf("%s: Error() panicked: %s", spec, er.Panic), wit(nil))
		}
	}
	if ob.LeftDone {
		switch ob.LeftV {
		case run.Stuck:
			top := "?"
			for _, g := range ob.LeftG {
				top = g.Top()
				break
			}
			c.Violation("c05:goroutine-leak:"+cls, fmt.Sprintf("%s: library goroutine(s) survive quiescence: %s (first: %s)", spec, run.Sig(ob.LeftG), top), wit(map[string]interface{}{"goroutines": gdump(ob.LeftG)}))
		case run.Undecided:
			c.Inconclusive(fmt.Sprintf("C05 %s: library goroutines still alive, undecided: %s", spec, run.Sig(ob.LeftG)))
		case run.Returned:
			// nothing left that could close the socket later: it must be closed now
			for xi, xc := range res.XConns {
				if !xc.Closed() {
					c.Violation("c05:socket-left-open:"+cls, fmt.Sprintf("%s: no library goroutine is left and client socket %d of %d of this attempt was never closed", spec, xi+1, len(res.XConns)), wit(nil))
					break
				}
			}
			c.Cell("quiescent")
		}
	}
	for _, g := range s.GuardBreaches() {
		c.Violation("c05:handler-guard", fmt.Sprintf("%s: %s", spec, g), wit(nil))
		break
	}
	if c.WantSample() && ob.reached() {
		c.Sample(map[string]interface{}{"scenario": scn, "reader_state_at_stop": ob.reader(), "stream_err": errStr(res.Err), "deliveries": len(res.Delivered)})
	}
}
