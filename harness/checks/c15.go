package checks

import (
	"encoding/hex"
	"fmt"
	"strings"

	"github.com/Breeze0806/gobinlog/replication"

	"verifharness/core"
	"verifharness/enc/ev"
	"verifharness/gen"
	"verifharness/hist"
	"verifharness/run"
	"verifharness/sim"
)

// C15: table maps decode exactly and rows are attributed to the right columns.
//
// Direct half: TABLE_MAP events from the independent encoder are decoded with
// TableMap(format) / TableID(format) and compared field by field with the
// logical schema. Streamed half: hand-built histories with several table ids
// interleaved, re-announced with other column types, announced but unused and
// aliased under two ids go through the real Streamer; deliveries must equal
// the model, mapper lookups must name announced tables, and a mapper table
// with a wrong column count must be rejected with an error.
func init() { core.Register("C15", checkC15) }

// c15AllTypes are the column type codes the encoder knows metadata rules for.
var c15AllTypes = []byte{ev.TDecimal, ev.TTiny, ev.TShort, ev.TLong, ev.TFloat, ev.TDouble, ev.TNull, ev.TTimestamp,
	ev.TLongLong, ev.TInt24, ev.TDate, ev.TTime, ev.TDateTime, ev.TYear, ev.TNewDate, ev.TVarchar, ev.TBit,
	ev.TTimestamp2, ev.TDateTime2, ev.TTime2, ev.TJSON, ev.TNewDecimal, ev.TEnum, ev.TSet, ev.TTinyBlob,
	ev.TMediumBlob, ev.TLongBlob, ev.TBlob, ev.TVarString, ev.TString, ev.TGeometry}

var (
	c15Zero = []byte{ev.TDecimal, ev.TTiny, ev.TShort, ev.TLong, ev.TNull, ev.TTimestamp, ev.TLongLong, ev.TInt24,
		ev.TDate, ev.TTime, ev.TDateTime, ev.TYear, ev.TNewDate}
	c15One = []byte{ev.TFloat, ev.TDouble, ev.TTimestamp2, ev.TDateTime2, ev.TTime2, ev.TJSON, ev.TTinyBlob,
		ev.TMediumBlob, ev.TLongBlob, ev.TBlob, ev.TGeometry}
	c15Two = []byte{ev.TNewDecimal, ev.TEnum, ev.TSet, ev.TString, ev.TVarchar, ev.TVarString, ev.TBit}
)

// c15MetaDomain enumerates every metadata value a master can log for the type
// (uint16 convention of ev.MetaBytes).
func c15MetaDomain(t byte) []uint16 {
	switch t {
	case ev.TFloat:
		return []uint16{4}
	case ev.TDouble:
		return []uint16{8}
	case ev.TTimestamp2, ev.TDateTime2, ev.TTime2:
		return []uint16{0, 1, 2, 3, 4, 5, 6}
	case ev.TJSON:
		return []uint16{4}
	case ev.TTinyBlob, ev.TMediumBlob, ev.TLongBlob, ev.TBlob, ev.TGeometry:
		return []uint16{1, 2, 3, 4}
	case ev.TNewDecimal:
		var out []uint16
		for p := 1; p <= 65; p++ {
			for s := 0; s <= p && s <= 30; s++ {
				out = append(out, uint16(p)<<8|uint16(s))
			}
		}
		return out
	case ev.TEnum:
		return []uint16{uint16(ev.TEnum)<<8 | 1, uint16(ev.TEnum)<<8 | 2}
	case ev.TSet:
		var out []uint16
		for n := 1; n <= 8; n++ {
			out = append(out, uint16(ev.TSet)<<8|uint16(n))
		}
		return out
	case ev.TString:
		out := []uint16{uint16(ev.TEnum)<<8 | 1, uint16(ev.TEnum)<<8 | 2}
		for n := 1; n <= 8; n++ {
			out = append(out, uint16(ev.TSet)<<8|uint16(n))
		}
		for l := 0; l < 1024; l++ {
			out = append(out, gen.StringMeta(ev.TString, l))
		}
		return out
	case ev.TVarchar, ev.TVarString:
		out := make([]uint16, 65536)
		for i := range out {
			out[i] = uint16(i)
		}
		return out
	case ev.TBit:
		var out []uint16
		for bits := 1; bits <= 64; bits++ {
			out = append(out, uint16(bits/8)<<8|uint16(bits%8))
		}
		return out
	}
	return []uint16{0}
}

// c15Case is one direct case (self-contained: it is also the replay witness).
type c15Case struct {
	ID       uint64   `json:"id"`
	ID4      bool     `json:"id4"`
	Flags    uint16   `json:"flags"`
	DB       []byte   `json:"db"`
	Name     []byte   `json:"name"`
	Types    []byte   `json:"types"`
	Meta     []uint16 `json:"meta"`
	Nullable []bool   `json:"nullable"`
	Optional []byte   `json:"optional"`
	NumTypes int      `json:"num_types"`
	Alg      byte     `json:"alg"` // 0 off, 1 CRC32 (event carries a real CRC), 255 undefined
	Maria    bool     `json:"maria"`
	TS       uint32   `json:"ts"`
	ServerID uint32   `json:"server_id"`
	NextPos  uint32   `json:"next_pos"`
	Src      string   `json:"src"`
}

func (cs *c15Case) metaLen() int {
	n := 0
	for i, t := range cs.Types {
		n += len(ev.MetaBytes(t, cs.Meta[i]))
	}
	return n
}

func (cs *c15Case) build() ([]byte, replication.BinlogFormat) {
	cfg := &ev.Cfg{Checksum: cs.Alg == 1, ChecksumAlg: cs.Alg, ServerVersion: "8.0.36", NumTypes: cs.NumTypes,
		TableID4: cs.ID4, ServerID: cs.ServerID, GTIDPostHeader: 42}
	body := cfg.TableMapBody(cs.ID, cs.Flags, string(cs.DB), string(cs.Name), cs.Types, cs.Meta, cs.Nullable, cs.Optional)
	raw := ev.Raw(cs.TS, ev.TableMap, cs.ServerID, 0, body, cs.NextPos, cs.Alg == 1)
	f := replication.BinlogFormat{FormatVersion: 4, ServerVersion: cfg.ServerVersion, HeaderLength: 19,
		ChecksumAlgorithm: cs.Alg, HeaderSizes: cfg.PostHeaderLens()}
	return raw, f
}

// c15Eval decodes the case with the library and compares with the schema.
// It returns a key and a message, or "".
func c15Eval(cs *c15Case) (string, string) {
	raw, f := cs.build()
	buf := append([]byte(nil), raw...)
	var e replication.BinlogEvent
	if cs.Maria {
		e = replication.NewMariadbBinlogEvent(buf)
	} else {
		e = replication.NewMysql56BinlogEvent(buf)
	}
	var serr error
	if p := core.Guard(func() { e, _, serr = e.StripChecksum(f) }); p != "" {
		return "tablemap-panic", "StripChecksum panicked: " + firstLine(p)
	}
	if serr != nil {
		return "tablemap-error", "StripChecksum: " + serr.Error()
	}
	var id uint64
	if p := core.Guard(func() { id = e.TableID(f) }); p != "" {
		return "tablemap-panic", "TableID panicked: " + firstLine(p)
	}
	want := cs.ID
	if cs.ID4 {
		want &= 0xffffffff
	} else {
		want &= 0xffffffffffff
	}
	if id != want {
		return "tableid-width", fmt.Sprintf("TableID=%#x want %#x (id width %d)", id, want, map[bool]int{true: 4, false: 6}[cs.ID4])
	}
	var tm *replication.TableMap
	var err error
	if p := core.Guard(func() { tm, err = e.TableMap(f) }); p != "" {
		return "tablemap-panic", "TableMap panicked: " + firstLine(p)
	}
	if err != nil {
		msg := err.Error()
		if len(msg) > 200 {
			msg = msg[:200] + "…"
		}
		return "tablemap-error", "TableMap returned an error on a well-formed event: " + msg
	}
	if tm == nil {
		return "tablemap-error", "TableMap returned nil without an error"
	}
	if tm.Database != string(cs.DB) {
		return "tablemap-db", fmt.Sprintf("Database=%q want %q", c15Trunc([]byte(tm.Database)), c15Trunc(cs.DB))
	}
	if tm.Name != string(cs.Name) {
		return "tablemap-name", fmt.Sprintf("Name=%q want %q", c15Trunc([]byte(tm.Name)), c15Trunc(cs.Name))
	}
	if tm.Flags != cs.Flags {
		return "tablemap-flags", fmt.Sprintf("Flags=%#x want %#x", tm.Flags, cs.Flags)
	}
	n := len(cs.Types)
	if len(tm.Types) != n {
		return "tablemap-colcount", fmt.Sprintf("%d column types want %d", len(tm.Types), n)
	}
	for i := 0; i < n; i++ {
		if tm.Types[i] != cs.Types[i] {
			return "tablemap-type", fmt.Sprintf("Types[%d]=%d want %d", i, tm.Types[i], cs.Types[i])
		}
	}
	if len(tm.Metadata) != n {
		return "tablemap-metadata-count", fmt.Sprintf("%d metadata entries want %d", len(tm.Metadata), n)
	}
	for i := 0; i < n; i++ {
		if tm.Metadata[i] != cs.Meta[i] {
			return fmt.Sprintf("tablemap-metadata:%d", cs.Types[i]),
				fmt.Sprintf("Metadata[%d]=%#04x want %#04x (type %d)", i, tm.Metadata[i], cs.Meta[i], cs.Types[i])
		}
	}
	var cnt int
	bits := make([]bool, n)
	if p := core.Guard(func() {
		cnt = tm.CanBeNull.Count()
		if cnt == n {
			for i := 0; i < n; i++ {
				bits[i] = tm.CanBeNull.Bit(i)
			}
		}
	}); p != "" {
		return "tablemap-panic", "CanBeNull accessors panicked: " + firstLine(p)
	}
	if cnt != n {
		return "tablemap-nullable-count", fmt.Sprintf("CanBeNull.Count()=%d want %d", cnt, n)
	}
	for i := 0; i < n; i++ {
		if bits[i] != cs.Nullable[i] {
			return "tablemap-nullable-bit", fmt.Sprintf("CanBeNull.Bit(%d)=%v want %v (of %d columns)", i, bits[i], cs.Nullable[i], n)
		}
	}
	return "", ""
}

func c15Trunc(b []byte) []byte {
	if len(b) > 80 {
		return append(append([]byte{}, b[:80]...), "…"...)
	}
	return b
}

func (cs *c15Case) prefix(n int) *c15Case {
	v := *cs
	v.Types, v.Meta, v.Nullable = cs.Types[:n], cs.Meta[:n], cs.Nullable[:n]
	return &v
}

// c15Diagnose narrows a failure down to the feature that triggers it by
// re-evaluating simpler variants of the same schema.
func c15Diagnose(cs *c15Case, key string) string {
	if key == "tablemap-panic" {
		return key
	}
	pass := func(v *c15Case) bool { k, _ := c15Eval(v); return k == "" }
	if strings.HasPrefix(key, "tablemap-metadata:") {
		// does the type's metadata fail on its own? then it is not a matter of lengths
		var t int
		fmt.Sscanf(key, "tablemap-metadata:%d", &t)
		for i := range cs.Types {
			if int(cs.Types[i]) != t {
				continue
			}
			v := *cs
			v.Optional = nil
			v.Types, v.Meta, v.Nullable = cs.Types[i:i+1], cs.Meta[i:i+1], cs.Nullable[i:i+1]
			if !pass(&v) {
				return key
			}
		}
	}
	if len(cs.Optional) > 0 {
		v := *cs
		v.Optional = nil
		if pass(&v) {
			return "tablemap-optional-metadata-confuses"
		}
	}
	if cs.Alg == 1 {
		v := *cs
		v.Alg = 0
		if pass(&v) {
			return "tablemap-with-checksum:" + key
		}
	}
	n := len(cs.Types)
	if n >= 251 {
		// same count, no metadata at all
		v := *cs
		v.Types = make([]byte, n)
		v.Meta = make([]uint16, n)
		for i := range v.Types {
			v.Types[i] = ev.TLong
		}
		if !pass(&v) {
			if pass(v.prefix(250)) {
				return "tablemap-colcount-multibyte"
			}
			return key
		}
	}
	if cs.metaLen() >= 251 {
		k := 0
		ml := 0
		for k < n {
			l := len(ev.MetaBytes(cs.Types[k], cs.Meta[k]))
			if ml+l > 250 {
				break
			}
			ml += l
			k++
		}
		if k >= 1 && pass(cs.prefix(k)) {
			return "tablemap-metalen-multibyte"
		}
	}
	return key
}

func c15DirectCase(c *core.Ctx, cs *c15Case, account bool) {
	key, msg := c15Eval(cs)
	n := len(cs.Types)
	if account {
		switch {
		case n >= 251:
			c.Cell("cols:>=251(0xfc)")
		case n >= 240:
			c.Cell("cols:240..250")
		case n >= 9:
			c.Cell("cols:9..239")
		default:
			c.Cell("cols:1..8")
		}
		if cs.metaLen() >= 251 {
			c.Cell("metalen:>=251(0xfc)")
		}
		if len(cs.Optional) > 0 {
			c.Cell("optional-metadata:yes")
		} else {
			c.Cell("optional-metadata:no")
		}
		if cs.ID4 {
			c.Cell("tableid:4-byte")
		} else {
			c.Cell("tableid:6-byte")
		}
		switch cs.Alg {
		case 1:
			c.Cell("checksum:crc32")
		case 255:
			c.Cell("checksum:undef")
		default:
			c.Cell("checksum:off")
		}
		if len(cs.DB) == 255 || len(cs.Name) == 255 {
			c.Cell("name:255-bytes")
		}
	}
	if key == "" {
		return
	}
	key = c15Diagnose(cs, key)
	raw, f := cs.build()
	hx := hex.EncodeToString(raw)
	if len(hx) > 6000 {
		hx = hx[:6000] + "…"
	}
	c.Violation("c15:"+key, fmt.Sprintf("%s (%d columns, metadata block %d bytes, %d optional bytes, alg %d, src %s)", msg, n, cs.metaLen(), len(cs.Optional), cs.Alg, cs.Src),
		map[string]interface{}{"kind": "direct", "case": cs, "event_hex": hx, "format": map[string]interface{}{
			"FormatVersion": f.FormatVersion, "ServerVersion": f.ServerVersion, "HeaderLength": f.HeaderLength,
			"ChecksumAlgorithm": f.ChecksumAlgorithm, "HeaderSizes": hex.EncodeToString(f.HeaderSizes)}})
}

func c15Hash(cs *c15Case) uint64 {
	raw, _ := cs.build()
	h := core.Hash64(raw)
	if cs.Maria {
		h = core.HashU64(h, 1)
	}
	return core.HashU64(h, uint64(cs.Alg))
}

// ---------------------------------------------------------------- generators

var c15NameRunes = []string{"é", "ü", "日", "本", "語", "✓", "ß", "Ж", "𝄞", "a", "_", "Z", "9", "$"}

func c15Name(r *core.Rng) []byte {
	var l int
	switch r.Intn(10) {
	case 0:
		l = 1
	case 1:
		l = 255
	case 2:
		l = 254
	case 3:
		l = []int{63, 64, 65, 127, 128, 129, 192, 250, 251, 252}[r.Intn(10)]
	case 4:
		l = 1 + r.Intn(255)
	default:
		l = 2 + r.Intn(15)
	}
	b := make([]byte, 0, l+4)
	switch r.Intn(5) {
	case 0: // identifier-like ASCII
		const cs = "abcdefghijklmnopqrstuvwxyzABCDEFGHIJKLMNOPQRSTUVWXYZ0123456789_$"
		for len(b) < l {
			b = append(b, cs[r.Intn(len(cs))])
		}
	case 1: // UTF-8, cut at a character boundary and padded
		for {
			s := c15NameRunes[r.Intn(len(c15NameRunes))]
			if len(b)+len(s) > l {
				break
			}
			b = append(b, s...)
		}
		for len(b) < l {
			b = append(b, 'x')
		}
	case 2: // any non-NUL bytes
		b = r.Bytes(l)
		for i := range b {
			if b[i] == 0 {
				b[i] = 0x80 | byte(i)
				if b[i] == 0 {
					b[i] = 0xff
				}
			}
		}
	case 3: // high bytes only
		for len(b) < l {
			b = append(b, byte(0x80+r.Intn(0x80)))
		}
	default: // punctuation a quoted identifier may hold
		const cs = "a.b c`d/e\\f-g'h\"i#j\tk\xfc\xfb\xfe"
		for len(b) < l {
			b = append(b, cs[r.Intn(len(cs))])
		}
	}
	return b[:l]
}

func c15TLV(r *core.Rng) []byte {
	var out []byte
	nb := 1 + r.Intn(5)
	for i := 0; i < nb; i++ {
		var l int
		switch r.Intn(8) {
		case 0:
			l = 0
		case 1:
			l = []int{250, 251, 252, 255, 256, 300, 1000}[r.Intn(7)]
		default:
			l = 1 + r.Intn(24)
		}
		out = append(out, byte(1+r.Intn(12)))
		out = append(out, ev.Lenenc(uint64(l))...)
		out = append(out, r.Bytes(l)...)
	}
	return out
}

func c15DistinctID(r *core.Rng, width int) uint64 {
	p := r.Perm(256)
	var id uint64
	for i := 0; i < width; i++ {
		b := p[i]
		if i == width-1 && b == 0 {
			b = p[width]
		}
		id |= uint64(b) << (8 * uint(i))
	}
	return id
}

func c15Nullable(r *core.Rng, n int, cls int) []bool {
	b := make([]bool, n)
	switch cls {
	case 0: // none
	case 1:
		for i := range b {
			b[i] = true
		}
	case 2, 3:
		for i := range b {
			b[i] = i%2 == cls-2
		}
	case 4:
		for i := range b {
			b[i] = r.Bool()
		}
	case 5: // single bit in the first byte
		lim := n
		if lim > 8 {
			lim = 8
		}
		b[r.Intn(lim)] = true
	case 6: // single bit in the last byte
		first := 8 * ((n - 1) / 8)
		b[first+r.Intn(n-first)] = true
	case 7: // all but one
		for i := range b {
			b[i] = true
		}
		b[r.Intn(n)] = false
	}
	return b
}

var c15NullClassNames = []string{"none", "all", "alternating-even", "alternating-odd", "random", "single-bit-first-byte", "single-bit-last-byte", "all-but-one"}

func c15FillCommon(r *core.Rng, cs *c15Case) {
	cs.ID4 = r.Chance(1, 3)
	w := 6
	if cs.ID4 {
		w = 4
	}
	switch r.Intn(16) {
	case 0:
		cs.ID = uint64(1 + r.Intn(300))
	case 1:
		cs.ID = 1<<(8*uint(w)) - 1
	default:
		cs.ID = c15DistinctID(r, w)
	}
	cs.Flags = uint16(r.U32())
	cs.DB, cs.Name = c15Name(r), c15Name(r)
	cs.NumTypes = []int{27, 35, 38, 40, 41, 42, 100, 255}[r.Intn(8)]
	cs.Alg = []byte{0, 0, 1, 1, 255}[r.Intn(5)]
	cs.Maria = r.Chance(1, 3)
	cs.TS, cs.ServerID, cs.NextPos = r.U32(), r.U32(), r.U32()
	if r.Bool() {
		cs.Optional = c15TLV(r)
	}
}

func c15RandCase(r *core.Rng) (*c15Case, string) {
	cs := &c15Case{Src: "random"}
	c15FillCommon(r, cs)
	var n int
	switch r.Intn(16) {
	case 0, 1, 2, 3:
		n = 249 + r.Intn(5)
	case 4:
		n = 1 + r.Intn(8)
	case 5:
		n = []int{8, 9, 16, 17, 255, 256, 257, 599, 600}[r.Intn(9)]
	case 6, 7:
		n = 254 + r.Intn(347)
	case 8:
		n = 120 + r.Intn(12)
	default:
		n = 1 + r.Intn(64)
	}
	pick := func(set []byte) byte { return set[r.Intn(len(set))] }
	cs.Types = make([]byte, n)
	switch r.Intn(8) {
	case 0:
		t := pick(c15Two)
		for i := range cs.Types {
			cs.Types[i] = t
		}
	case 1:
		for i := range cs.Types {
			cs.Types[i] = pick(c15Zero)
		}
	case 2:
		for i := range cs.Types {
			cs.Types[i] = pick(c15One)
		}
	case 3: // metadata block length right around the one-byte lenenc limit
		target := 247 + r.Intn(8)
		k := r.Intn(target/2 + 1)
		j := target - 2*k
		fill := r.Intn(20)
		n = k + j + fill
		cs.Types = make([]byte, 0, n)
		for i := 0; i < k; i++ {
			cs.Types = append(cs.Types, pick(c15Two))
		}
		for i := 0; i < j; i++ {
			cs.Types = append(cs.Types, pick(c15One))
		}
		for i := 0; i < fill; i++ {
			cs.Types = append(cs.Types, pick(c15Zero))
		}
		p := r.Perm(n)
		sh := make([]byte, n)
		for i, q := range p {
			sh[i] = cs.Types[q]
		}
		cs.Types = sh
	default:
		for i := range cs.Types {
			cs.Types[i] = pick(c15AllTypes)
		}
	}
	cs.Meta = make([]uint16, n)
	for i, t := range cs.Types {
		cs.Meta[i] = gen.RandMeta(r, t, true)
	}
	ncls := r.Intn(len(c15NullClassNames))
	cs.Nullable = c15Nullable(r, n, ncls)
	return cs, c15NullClassNames[ncls]
}

// c15MetaPairs lists every (type, metadata) pair of the metadata domain in a
// seed-determined shuffled order (identical in every shard).
func c15MetaPairs(c *core.Ctx) [][2]uint16 {
	var out [][2]uint16
	for _, t := range c15AllTypes {
		for _, m := range c15MetaDomain(t) {
			out = append(out, [2]uint16{uint16(t), m})
		}
	}
	r := c.Rng(core.StrID("c15metapairs"))
	for i := len(out) - 1; i > 0; i-- {
		j := r.Intn(i + 1)
		out[i], out[j] = out[j], out[i]
	}
	return out
}

func c15Direct(c *core.Ctx) {
	total := c.N(20000, 6000000)
	idx := 0
	next := func() (int, bool) { i := idx; idx++; return i, c.Mine(i) }
	// (1) every column count 1..600 with both id widths
	for _, id4 := range []bool{false, true} {
		for n := 1; n <= 600; n++ {
			i, mine := next()
			if !mine {
				continue
			}
			r := c.Rng(core.StrID("c15count"), uint64(i))
			cs := &c15Case{Src: "every-count"}
			c15FillCommon(r, cs)
			cs.ID4 = id4
			if id4 {
				cs.ID = c15DistinctID(r, 4)
			} else {
				cs.ID = c15DistinctID(r, 6)
			}
			cs.Types, cs.Meta = make([]byte, n), make([]uint16, n)
			for k := range cs.Types {
				cs.Types[k] = c15AllTypes[r.Intn(len(c15AllTypes))]
				cs.Meta[k] = gen.RandMeta(r, cs.Types[k], true)
			}
			cs.Nullable = c15Nullable(r, n, 4)
			c15DirectCase(c, cs, true)
			c.Bulk(1, 1)
		}
	}
	c.ExhaustiveDomain("direct: every column count 1..600 x {4-byte, 6-byte} table id (random types, metadata, names)")
	// (2) every nullability bitmap of 1..10 columns
	for n := 1; n <= 10; n++ {
		for m := 0; m < 1<<uint(n); m++ {
			i, mine := next()
			if !mine {
				continue
			}
			r := c.Rng(core.StrID("c15bitmap"), uint64(i))
			cs := &c15Case{Src: "every-bitmap"}
			c15FillCommon(r, cs)
			cs.Types, cs.Meta, cs.Nullable = make([]byte, n), make([]uint16, n), make([]bool, n)
			for k := 0; k < n; k++ {
				cs.Types[k] = c15AllTypes[r.Intn(len(c15AllTypes))]
				cs.Meta[k] = gen.RandMeta(r, cs.Types[k], true)
				cs.Nullable[k] = m>>uint(k)&1 == 1
			}
			c15DirectCase(c, cs, true)
			c.Bulk(1, 1)
		}
	}
	c.ExhaustiveDomain("direct: every nullability bitmap of tables with 1..10 columns")
	// (3) a single nullable column at every position, 1..24 columns and around the multi-byte count
	for _, n := range []int{1, 2, 3, 4, 5, 6, 7, 8, 9, 10, 11, 12, 13, 14, 15, 16, 17, 18, 19, 20, 21, 22, 23, 24, 250, 251, 252, 600} {
		for pos := 0; pos < n; pos++ {
			i, mine := next()
			if !mine {
				continue
			}
			r := c.Rng(core.StrID("c15single"), uint64(i))
			cs := &c15Case{Src: "single-nullable"}
			c15FillCommon(r, cs)
			cs.Types, cs.Meta, cs.Nullable = make([]byte, n), make([]uint16, n), make([]bool, n)
			for k := 0; k < n; k++ {
				cs.Types[k] = c15AllTypes[r.Intn(len(c15AllTypes))]
				cs.Meta[k] = gen.RandMeta(r, cs.Types[k], true)
			}
			cs.Nullable[pos] = true
			c15DirectCase(c, cs, true)
			c.Bulk(1, 1)
		}
	}
	c.ExhaustiveDomain("direct: exactly one nullable column at every position for 1..24, 250, 251, 252 and 600 columns")
	// (4) every (type, metadata) pair of the metadata domain, packed 600 per table
	pairs := c15MetaPairs(c)
	for off := 0; off < len(pairs); off += 600 {
		i, mine := next()
		if !mine {
			continue
		}
		end := off + 600
		if end > len(pairs) {
			end = len(pairs)
		}
		r := c.Rng(core.StrID("c15pairs"), uint64(i))
		cs := &c15Case{Src: "every-metadata"}
		c15FillCommon(r, cs)
		n := end - off
		cs.Types, cs.Meta = make([]byte, n), make([]uint16, n)
		for k := 0; k < n; k++ {
			cs.Types[k], cs.Meta[k] = byte(pairs[off+k][0]), pairs[off+k][1]
		}
		cs.Nullable = c15Nullable(r, n, 4)
		c15DirectCase(c, cs, true)
		c.Bulk(1, 1)
		c.Note("metadata_pairs_checked", int64(n))
	}
	c.ExhaustiveDomain(fmt.Sprintf("direct: every (column type, metadata value) pair a master can log for the 31 type codes (%d pairs: all 65536 VARCHAR / VAR_STRING lengths, all CHAR/BINARY lengths 0..1023 and ENUM/SET pack lengths as STRING, every DECIMAL (p,s), BIT 1..64, fsp 0..6, blob length bytes 1..4)", len(pairs)))
	// (5) random schemas
	for ; idx < total; idx++ {
		if !c.Mine(idx) {
			continue
		}
		r := c.Rng(core.StrID("c15rand"), uint64(idx))
		cs, ncls := c15RandCase(r)
		cs.Src = fmt.Sprintf("random#%d", idx)
		c15DirectCase(c, cs, true)
		c.Cell("nullable:" + ncls)
		c.Case(c15Hash(cs), len(cs.Types) >= 2)
		if c.WantSample() && idx%4001 == 0 {
			c.Sample(map[string]interface{}{"direct": map[string]interface{}{"columns": len(cs.Types), "metadata_bytes": cs.metaLen(),
				"db_len": len(cs.DB), "name_len": len(cs.Name), "id": fmt.Sprintf("%#x", cs.ID), "id4": cs.ID4, "optional_bytes": len(cs.Optional),
				"alg": cs.Alg, "nullable": ncls}})
		}
	}
}

// ---------------------------------------------------------------- streamed half

type c15Scn struct {
	Index    int `json:"index"`
	BadCall  int `json:"bad_call"`  // 0 = clean run; k = the k-th mapper lookup answers with a wrong column count
	BadDelta int `json:"bad_delta"` // +1 / -1
}

// c15Info is what the oracle needs besides the model.
type c15Info struct {
	Announced map[[2]string]bool
	Features  []string
	Tables    []string
}

func c15Cols(r *core.Rng, tag string, n int, noJSON bool) []hist.Column {
	cols := []hist.Column{{Name: "id_" + tag, Type: ev.TLongLong, Unsigned: true}}
	ints := []byte{ev.TTiny, ev.TShort, ev.TInt24, ev.TLong, ev.TLongLong}
	it := ints[r.Intn(len(ints))]
	for i := 1; i < n; i++ {
		col := hist.Column{Name: fmt.Sprintf("%s_c%d", tag, i), Nullable: r.Chance(1, 2)}
		if r.Chance(1, 2) {
			// integer columns: neighbours differ in signedness, runs share the width
			if r.Chance(1, 4) {
				it = ints[r.Intn(len(ints))]
			}
			col.Type, col.Unsigned = it, i%2 == 0
		} else {
			for {
				col.Type = gen.PickType(r)
				if !(noJSON && col.Type == ev.TJSON) {
					break
				}
			}
			col.Meta = gen.RandMeta(r, col.Type, false)
			if gen.IsInt(col.Type) {
				col.Unsigned = i%2 == 0
			}
		}
		cols = append(cols, col)
	}
	return cols
}

// c15Retype makes another version of the table: same db, name, column count,
// column names and signedness by position; other types / metadata.
func c15Retype(r *core.Rng, t *hist.Table, id uint64, noJSON bool) *hist.Table {
	v := &hist.Table{ID: id, DB: t.DB, Name: t.Name, Flags: t.Flags, Cols: append([]hist.Column(nil), t.Cols...)}
	changed := false
	for i := 1; i < len(v.Cols); i++ {
		col := &v.Cols[i]
		switch r.Intn(4) {
		case 0: // keep
			continue
		case 1: // metadata-only change where the type has metadata
			if col.Type == ev.TVarchar || col.Type == ev.TVarString {
				if col.Meta > 255 {
					col.Meta = uint16(r.Intn(256))
				} else {
					col.Meta = uint16(256 + r.Intn(1000))
				}
				changed = true
				continue
			}
			fallthrough
		default:
			old := col.Type
			for {
				col.Type = gen.PickType(r)
				if col.Type != old && !(noJSON && col.Type == ev.TJSON) {
					break
				}
			}
			col.Meta = gen.RandMeta(r, col.Type, false)
			changed = true
		}
	}
	if !changed && len(v.Cols) > 1 {
		col := &v.Cols[1]
		if col.Type == ev.TLong {
			col.Type = ev.TShort
		} else {
			col.Type, col.Meta = ev.TLong, 0
		}
	}
	return v
}

// c15RemetaOnly makes another version of the table in which every column keeps
// its type and only metadata change (VARCHAR length class, DECIMAL precision and
// scale, fractional-second digits, BIT width, CHAR length class, blob prefix).
// It returns nil when no column carries metadata.
func c15RemetaOnly(r *core.Rng, t *hist.Table, id uint64) *hist.Table {
	v := &hist.Table{ID: id, DB: t.DB, Name: t.Name, Flags: t.Flags, Cols: append([]hist.Column(nil), t.Cols...)}
	changed := false
	for i := 1; i < len(v.Cols); i++ {
		col := &v.Cols[i]
		old := col.Meta
		switch col.Type {
		case ev.TVarchar, ev.TVarString:
			if col.Meta > 255 {
				col.Meta = uint16(r.Intn(256))
			} else {
				col.Meta = uint16(256 + r.Intn(1000))
			}
		case ev.TNewDecimal:
			// same stored size or not, both are interesting: (10,2) -> (10,4) keeps 5 bytes
			p, s := int(col.Meta>>8), int(col.Meta&0xff)
			for k := 0; k < 20 && int(col.Meta) == int(old); k++ {
				ns := r.Intn(p + 1)
				if ns > 30 {
					ns = 30
				}
				if ns != s {
					col.Meta = uint16(p)<<8 | uint16(ns)
				}
			}
		case ev.TTimestamp2, ev.TDateTime2, ev.TTime2:
			col.Meta = uint16((int(col.Meta) + 1 + r.Intn(6)) % 7)
		case ev.TBit:
			for int(col.Meta) == int(old) {
				bits := 1 + r.Intn(64)
				col.Meta = uint16(bits/8)<<8 | uint16(bits%8)
			}
		case ev.TBlob, ev.TGeometry, ev.TTinyBlob, ev.TMediumBlob, ev.TLongBlob:
			col.Meta = uint16(1 + (int(col.Meta)+r.Intn(3))%4)
		case ev.TString:
			if rt := byte(col.Meta >> 8); rt != ev.TEnum && rt != ev.TSet {
				max := int((((col.Meta >> 4) & 0x300) ^ 0x300) + (col.Meta & 0xff))
				if max > 255 {
					col.Meta = gen.StringMeta(ev.TString, r.Intn(256))
				} else {
					col.Meta = gen.StringMeta(ev.TString, 256+r.Intn(700))
				}
			}
		}
		if col.Meta != old {
			changed = true
		}
	}
	if !changed {
		return nil
	}
	return v
}

func c15History(c *core.Ctx, idx int) (*hist.History, []*hist.Table, *c15Info) {
	r := c.Rng(core.StrID("c15hist"), uint64(idx))
	cb := allCombos()[idx%24]
	o := cb.hopts(r)
	o.MaxCols, o.MaxRows, o.MaxStmts, o.MaxTables, o.MaxEvents = 4, 3, 2, 1, 2
	o.NoJSON = idx%4 != 0
	b := gen.NewBuilder(r, o)
	info := &c15Info{Announced: map[[2]string]bool{}}
	feat := map[string]bool{}
	// ---- table ids
	width := 6
	if cb.ID4 {
		width = 4
	}
	nLogical := 2 + r.Intn(3)
	maxIDs := nLogical * 3
	ids := make([]uint64, 0, maxIDs)
	if r.Bool() {
		// ids that differ in a single byte (any byte of the width)
		base := c15DistinctID(r, width)
		pos := uint(r.Intn(width))
		p := r.Perm(256)
		for k := 0; k < maxIDs; k++ {
			ids = append(ids, base&^(0xff<<(8*pos))|uint64(p[k])<<(8*pos))
		}
		feat[fmt.Sprintf("ids-differ-in-byte-%d", pos)] = true
	} else {
		seen := map[uint64]bool{}
		for len(ids) < maxIDs {
			id := c15DistinctID(r, width)
			if !seen[id] {
				seen[id] = true
				ids = append(ids, id)
			}
		}
	}
	nextID := 0
	newID := func() uint64 { id := ids[nextID]; nextID++; return id }
	// ---- logical tables and their versions
	names := [][2]string{{"db0", "t"}, {"db1", "t"}, {"db0", "u"}, {"dbü", "t\xfc é"}}
	var versions []*hist.Table // every version, first versions first per (db,name)
	var firsts []*hist.Table
	for li := 0; li < nLogical; li++ {
		n := 1 + r.Intn(10)
		if li == 1 && r.Bool() {
			n = len(firsts[0].Cols)
		}
		t := &hist.Table{ID: newID(), DB: names[li][0], Name: names[li][1], Flags: uint16(r.Intn(2)),
			Cols: c15Cols(r, fmt.Sprintf("L%d", li), n, o.NoJSON)}
		if r.Chance(1, 3) {
			t.Optional = c15TLV(r)
		}
		firsts = append(firsts, t)
		versions = append(versions, t)
	}
	var pool []*hist.Table
	pool = append(pool, firsts...)
	for li, t := range firsts {
		if len(t.Cols) > 1 && r.Chance(2, 3) {
			if v := c15RemetaOnly(r, t, t.ID); v != nil && r.Chance(1, 2) {
				pool = append(pool, v) // the same id re-announced with the same types, other metadata
				versions = append(versions, v)
				feat["reannounced-id-same-types-other-metadata"] = true
			} else {
				v := c15Retype(r, t, t.ID, o.NoJSON) // the same id re-announced with other types
				pool = append(pool, v)
				versions = append(versions, v)
				feat["reannounced-id-other-types"] = true
			}
		}
		if r.Chance(1, 2) {
			a := &hist.Table{ID: newID(), DB: t.DB, Name: t.Name, Flags: t.Flags, Cols: append([]hist.Column(nil), t.Cols...)}
			pool = append(pool, a) // the same table under a second id
			versions = append(versions, a)
			feat["same-table-two-ids"] = true
		}
		if len(t.Cols) > 1 && r.Chance(1, 3) {
			v := c15Retype(r, t, newID(), o.NoJSON) // as after ALTER: new id, other types
			pool = append(pool, v)
			versions = append(versions, v)
			feat["same-table-new-id-other-types"] = true
		}
		_ = li
	}
	// ---- units
	pickMaps := func(k int) []*hist.Table {
		var out []*hist.Table
		used := map[uint64]bool{}
		for _, pi := range r.Perm(len(pool)) {
			t := pool[pi]
			if used[t.ID] {
				continue
			}
			used[t.ID] = true
			out = append(out, t)
			if len(out) == k {
				break
			}
		}
		return out
	}
	rowsStmt := func(auto bool) hist.Stmt {
		s := hist.Stmt{Kind: hist.StmtRows, MapTS: b.TS()}
		s.TableMaps = pickMaps(1 + r.Intn(3))
		nUsed := 1 + r.Intn(len(s.TableMaps))
		if len(s.TableMaps) > 1 && r.Chance(1, 3) {
			nUsed = len(s.TableMaps) - 1
		}
		if auto {
			nUsed = 1
		}
		if nUsed < len(s.TableMaps) {
			feat["announced-but-unused"] = true
		}
		usedTables := make([]*hist.Table, 0, nUsed)
		for _, pi := range r.Perm(len(s.TableMaps))[:nUsed] {
			usedTables = append(usedTables, s.TableMaps[pi])
		}
		var seq []*hist.Table
		for _, t := range usedTables {
			seq = append(seq, t)
			if !auto && r.Chance(1, 2) {
				seq = append(seq, t)
			}
		}
		if len(usedTables) > 1 {
			sh := make([]*hist.Table, len(seq))
			for i, q := range r.Perm(len(seq)) {
				sh[i] = seq[q]
			}
			seq = sh
			feat["ids-interleaved-in-statement"] = true
		}
		for _, t := range seq {
			s.Rows = append(s.Rows, b.RowsEvent(t, ev.RowsKind(r.Intn(3)), 1+r.Intn(3)))
		}
		for _, t := range s.TableMaps {
			info.Announced[[2]string{t.DB, t.Name}] = true
		}
		return s
	}
	ntx := 2 + r.Intn(5)
	for i := 0; i < ntx; i++ {
		switch x := r.Intn(12); {
		case x < 7:
			kind := hist.TxXID
			if r.Chance(1, 4) {
				kind = hist.TxCommit
			}
			u := b.Unit(kind)
			u.Stmts = nil
			ns := 1 + r.Intn(3)
			for k := 0; k < ns; k++ {
				u.Stmts = append(u.Stmts, rowsStmt(false))
			}
			u.EndTS = b.TS()
			b.H.Units = append(b.H.Units, u)
		case x < 9:
			u := b.Unit(hist.AutoRows)
			u.Stmts = []hist.Stmt{rowsStmt(true)}
			b.H.Units = append(b.H.Units, u)
		case x == 9:
			b.Add(hist.DDL)
			i--
		case x == 10:
			u := b.Unit(hist.TxRollback)
			u.Stmts = []hist.Stmt{rowsStmt(false)}
			u.EndTS = b.TS()
			b.H.Units = append(b.H.Units, u)
		default:
			if i > 0 && i < ntx-1 && !feat["rotate"] {
				b.Add(hist.Rotate)
				feat["rotate"] = true
			}
			i--
		}
	}
	for _, k := range []string{"reannounced-id-same-types-other-metadata", "reannounced-id-other-types", "same-table-two-ids", "same-table-new-id-other-types", "announced-but-unused",
		"ids-interleaved-in-statement", "rotate"} {
		if feat[k] {
			info.Features = append(info.Features, k)
		}
	}
	for k := range feat {
		if strings.HasPrefix(k, "ids-differ-in-byte-") {
			info.Features = append(info.Features, "ids-differ-in-one-byte")
		}
	}
	for _, t := range versions {
		ty := make([]string, len(t.Cols))
		for i, col := range t.Cols {
			ty[i] = fmt.Sprintf("%d/%d", col.Type, col.Meta)
			if col.Unsigned {
				ty[i] += "u"
			}
		}
		info.Tables = append(info.Tables, fmt.Sprintf("id=%#x %q.%q %v", t.ID, t.DB, t.Name, ty))
	}
	return b.H, versions, info
}

// c15EventTables lists, per expected transaction, the table version behind
// each expected event (nil for query events).
func c15EventTables(h *hist.History, tx *hist.ExpTx) []*hist.Table {
	var out []*hist.Table
	u := &h.Units[tx.Unit]
	if u.Kind == hist.TxRollback {
		return nil
	}
	for si := range u.Stmts {
		s := &u.Stmts[si]
		switch s.Kind {
		case hist.StmtQuery:
			out = append(out, nil)
		case hist.StmtRows:
			for ri := range s.Rows {
				out = append(out, s.Rows[ri].Table)
			}
		}
	}
	return out
}

// c15DiffKey turns the first model difference into a stable key. A difference
// is attributed to a stale table map when the delivered column types of the
// event are exactly those of ANOTHER version announced for the same table id.
func c15DiffKey(h *hist.History, exp []hist.ExpTx, versions []*hist.Table, d *run.Diff, got []*run.Delivered) string {
	var txi, evi int
	if n, _ := fmt.Sscanf(d.Path, "tx%d.ev%d", &txi, &evi); n != 2 {
		return "attribution:" + d.Kind
	}
	for i := range exp {
		if exp[i].Index != txi || i >= len(got) {
			continue
		}
		tabs := c15EventTables(h, &exp[i])
		if evi >= len(tabs) || tabs[evi] == nil || evi >= len(got[i].Events) {
			break
		}
		want := tabs[evi]
		ge := &got[i].Events[evi]
		var row []run.DCol
		if len(ge.Values) > 0 {
			row = ge.Values[0]
		} else if len(ge.Idents) > 0 {
			row = ge.Idents[0]
		}
		if row == nil {
			break
		}
		same := func(t *hist.Table) bool {
			if len(t.Cols) != len(row) {
				return false
			}
			for k := range row {
				if row[k].Type != int(t.Cols[k].Type) {
					return false
				}
			}
			return true
		}
		if same(want) {
			break
		}
		for _, v := range versions {
			if v != want && v.ID == want.ID && same(v) {
				return "reannounce-stale-types"
			}
		}
	}
	return "attribution:" + d.Kind
}

func c15Stream(c *core.Ctx) {
	nh := c.N(500, 30000)
	for idx := 0; idx < nh; idx++ {
		if !c.Mine(idx) {
			continue
		}
		calls := c15StreamRun(c, c15Scn{Index: idx})
		if calls <= 0 {
			continue
		}
		r := c.Rng(core.StrID("c15bad"), uint64(idx))
		var ks []int
		if c.Quick() {
			ks = append(ks, 1+r.Intn(calls))
			if calls > 1 {
				ks = append(ks, 1+r.Intn(calls))
			}
		} else {
			for k := 1; k <= calls; k++ {
				ks = append(ks, k)
			}
		}
		for _, k := range ks {
			delta := 1
			if r.Bool() {
				delta = -1
			}
			c15StreamRun(c, c15Scn{Index: idx, BadCall: k, BadDelta: delta})
			if !c.Quick() {
				c15StreamRun(c, c15Scn{Index: idx, BadCall: k, BadDelta: -delta})
			}
		}
	}
}

// c15StreamRun runs one attempt; for a clean run it returns the number of
// mapper lookups the library made (-1 when the run could not be judged).
func c15StreamRun(c *core.Ctx, scn c15Scn) int {
	c.Log("C15 %+v", scn)
	h, tables, info := c15History(c, scn.Index)
	l := h.Build()
	start := hist.Pos{File: h.FirstFile, Off: 4}
	exp := hist.Expect(h, l, start)
	s, err := run.NewSession(l, tables, 1515, start, scn.Index%5 != 4)
	if err != nil {
		c.Inconclusive("cannot start master: " + err.Error())
		return -1
	}
	defer s.Close()
	s.M.SetDefault(&sim.Script{End: sim.EndEOF})
	if scn.BadCall > 0 {
		s.Mapper.BadOnCall, s.Mapper.BadDelta = scn.BadCall, scn.BadDelta
	}
	res := s.Attempt(run.NoFaults(), nil, maxWait)
	c.Case(core.HashU64(core.HashU64(layoutHash(l), uint64(scn.BadCall)), uint64(int64(scn.BadDelta))), true)
	wit := func(extra map[string]interface{}) map[string]interface{} {
		if extra == nil {
			extra = map[string]interface{}{}
		}
		extra["kind"] = "stream"
		extra["tables"] = info.Tables
		extra["features"] = info.Features
		extra["stream_err"] = errStr(res.Err)
		extra["mapper_calls"] = s.Mapper.CallList()
		return witnessOf(scn, h, s, extra)
	}
	if res.Verdict != run.Returned {
		if res.Verdict == run.Stuck {
			c.Violation("c15:stream-stuck", fmt.Sprintf("%+v: Stream did not return", scn), wit(map[string]interface{}{"goroutines": gdump(res.StuckDump)}))
		} else {
			c.Inconclusive(fmt.Sprintf("C15 %+v: Stream did not return and the stuck rule could not decide", scn))
		}
		return -1
	}
	if res.Panic != "" {
		c.Violation("c15:stream-panic", fmt.Sprintf("%+v: Stream panicked: %s", scn, res.Panic), wit(nil))
		return -1
	}
	calls := s.Mapper.CallList()
	// every lookup names an announced table
	for _, call := range calls {
		if !info.Announced[[2]string{call.DB, call.Table}] {
			c.Violation("c15:mapper-lookup-unknown-table", fmt.Sprintf("%+v: the mapper was asked for %q.%q, which no table map announced", scn, call.DB, call.Table), wit(nil))
			return -1
		}
	}
	if scn.BadCall > 0 {
		var bad *run.MapperCall
		for i := range calls {
			if calls[i].Result == "wrong-count" {
				bad = &calls[i]
			}
		}
		if bad == nil {
			c.Cell("stream:bad-call-not-reached")
			return -1
		}
		c.Cell(fmt.Sprintf("stream:mapper-count%+d", scn.BadDelta))
		if res.Err == nil {
			c.Violation("c15:mapper-count-mismatch-accepted", fmt.Sprintf("%+v: the mapper answered lookup %d (%q.%q) with a table of column count %+d, Stream returned nil", scn, scn.BadCall, bad.DB, bad.Table, scn.BadDelta), wit(nil))
			return -1
		}
		for _, d := range res.Delivered {
			if d.EntrySeq < bad.Seq {
				continue
			}
			for _, e := range d.Events {
				if e.Table != "" && e.DB == bad.DB && e.Table == bad.Table {
					c.Violation("c15:mapper-count-mismatch-rows-delivered", fmt.Sprintf("%+v: rows of %q.%q were delivered after the mapper answered with a wrong column count", scn, bad.DB, bad.Table), wit(nil))
					return -1
				}
			}
		}
		if len(res.Delivered) > len(exp) {
			c.Violation("c15:attribution:extra-delivery", fmt.Sprintf("%+v: more deliveries than transactions", scn), wit(nil))
			return -1
		}
		if d := run.CompareAll(exp[:len(res.Delivered)], res.Delivered, true); d != nil {
			c.Violation("c15:"+c15DiffKey(h, exp, tables, d, res.Delivered), fmt.Sprintf("%+v (before the rejected lookup): %s", scn, d), wit(nil))
		}
		return -1
	}
	for _, f := range info.Features {
		c.Cell("stream:" + f)
	}
	c.Cell("stream:combo:" + allCombos()[scn.Index%24].String())
	c.Note("transactions_compared", int64(len(exp)))
	if d := run.CompareAll(exp, res.Delivered, true); d != nil {
		c.Violation("c15:"+c15DiffKey(h, exp, tables, d, res.Delivered), fmt.Sprintf("%+v: %s (stream error: %s)", scn, d, errStr(res.Err)), wit(nil))
		return -1
	}
	// a lookup precedes the first delivery of a table's rows
	first := map[[2]string]int64{}
	for _, call := range calls {
		k := [2]string{call.DB, call.Table}
		if _, ok := first[k]; !ok {
			first[k] = call.Seq
		}
	}
	for _, d := range res.Delivered {
		for _, e := range d.Events {
			if e.Table == "" {
				continue
			}
			k := [2]string{e.DB, e.Table}
			if q, ok := first[k]; !ok || q > d.EntrySeq {
				c.Violation("c15:mapper-lookup-missing-before-delivery", fmt.Sprintf("%+v: rows of %q.%q were delivered before any mapper lookup of that table", scn, e.DB, e.Table), wit(nil))
				return -1
			}
		}
	}
	if c.WantSample() {
		c.Sample(map[string]interface{}{"stream": map[string]interface{}{"scenario": scn, "features": info.Features, "tables": info.Tables,
			"units": unitNames(h), "deliveries": len(res.Delivered), "mapper_lookups": len(calls)}})
	}
	return len(calls)
}

func checkC15(c *core.Ctx) {
	c.SetRule("direct half: TABLE_MAP events built by the independent encoder (schemas of 1..600 columns, dense at 249..253 and at metadata blocks of 247..254 bytes so that both length fields use the 0xfc form; all 31 column type codes with metadata drawn from each type's domain; db / table names of 1..255 bytes: ASCII, UTF-8, arbitrary non-NUL and high bytes; nullability classes none / all / alternating / random / single bit in first or last byte / all-but-one; 4- and 6-byte ids with pairwise distinct bytes; with and without 1..5 trailing optional-metadata TLVs (types 1..12, lengths 0..1000); checksum off / CRC32 / undefined; both event wrappers) decoded with StripChecksum + TableID + TableMap and compared field by field; plus four enumerated sub-domains (see exhaustive). Streamed half: hand-built histories over 2..4 tables ((db,name) pairs sharing table names across databases), 2..12 table ids (half of the histories with ids differing in one byte only), ids interleaved inside statements, the same id re-announced between statements with other column types, the same table under a second id (same or other types), announced-but-unused ids, 24 configuration combos, optional rotation; streamed through the real Streamer and compared with the model, then repeated with the k-th mapper lookup answering column count +/-1 (2 sampled k in quick, every k and both signs in thorough). A direct case is distinct by event bytes, non-trivial iff >= 2 columns; a streamed case is distinct by (history bytes, bad lookup, sign)")
	c.Assume("metadata uint16 convention as documented at ev.MetaBytes; VAR_STRING carries two little-endian metadata bytes like VARCHAR")
	c.Assume("the mapper identifies a table by (db, name); column names and signedness by ordinal position are those of the first version of the table")
	c.Assume("an id is re-announced under a different table name only after a server restart (c15_rebind.go); not demanded: over-wide (non-minimal) lenenc forms")
	if c.Replay != "" {
		c15Replay(c)
		return
	}
	c15Direct(c)
	c15Stream(c)
}

func c15Replay(c *core.Ctx) {
	var w struct {
		Witness struct {
			Kind     string   `json:"kind"`
			Case     *c15Case `json:"case"`
			Scenario c15Scn   `json:"scenario"`
		} `json:"witness"`
	}
	if err := readWitness(c.Replay, &w); err != nil {
		c.Inconclusive("cannot read witness: " + err.Error())
		return
	}
	if w.Witness.Kind == "direct" {
		if w.Witness.Case == nil {
			c.Inconclusive("witness has no case")
			return
		}
		c15DirectCase(c, w.Witness.Case, false)
		c.Case(c15Hash(w.Witness.Case), true)
		return
	}
	c15StreamRun(c, w.Witness.Scenario)
}
