package checks

// C20 "Transactions always serialise to well-formed, structure-preserving JSON".
//
// CheckTxJSON is the whole oracle for one transaction: json.Marshal must
// succeed, encoding/json must be able to read the document back, and the
// document must say what the transaction says. The tables of statement and
// column type names below are written out here (MySQL's enum_field_types
// numbering), not taken from the library.

import (
	"bytes"
	"encoding/hex"
	"encoding/json"
	"fmt"
	"io"
	"os"
	"strconv"
	"unicode/utf8"

	"github.com/Breeze0806/gobinlog"
	"github.com/Breeze0806/gobinlog/replication"

	"verifharness/core"
)

func init() { core.Register("C20", runC20) }

var c20StmtNames = [...]string{"unknown", "begin", "commit", "rollback", "insert", "update", "delete",
	"create", "alter", "drop", "truncate", "rename", "set"}

func c20StmtName(t gobinlog.StatementType) string {
	if t >= 0 && int(t) < len(c20StmtNames) {
		return c20StmtNames[t]
	}
	return "unknown"
}

var c20TypeNames = map[int]string{
	0: "Decimal", 1: "Tiny", 2: "Short", 3: "Long", 4: "Float", 5: "Double", 6: "Null", 7: "Timestamp",
	8: "LongLong", 9: "Int24", 10: "Date", 11: "Time", 12: "DateTime", 13: "Year", 14: "NewDate",
	15: "Varchar", 16: "Bit", 17: "Timestamp2", 18: "DateTime2", 19: "Time2",
	245: "JSON", 246: "NewDecimal", 247: "Enum", 248: "Set", 249: "TinyBlob", 250: "MediumBlob",
	251: "LongBlob", 252: "Blob", 253: "VarString", 254: "String", 255: "Geometry",
}

func c20TypeName(t gobinlog.ColumnType) string {
	if s, ok := c20TypeNames[int(t)]; ok {
		return s
	}
	return "unknown"
}

// c20Str: a decoded JSON string must equal a valid UTF-8 source exactly; for an
// invalid source only a non-empty string is required.
func c20Str(got interface{}, src string) bool {
	s, ok := got.(string)
	if !ok {
		return false
	}
	if utf8.ValidString(src) {
		return s == src
	}
	return len(s) >= 1
}

func c20q(s string) string {
	if len(s) > 60 {
		return strconv.Quote(s[:60]) + "…"
	}
	return strconv.Quote(s)
}

func c20show(v interface{}) string {
	b, _ := json.Marshal(v)
	if len(b) > 120 {
		return string(b[:120]) + "…"
	}
	return string(b)
}

// CheckTxJSON serialises tx and compares the parsed document with it. It
// returns ("", "") when everything the property states holds, else a stable
// key naming what fails and a message.
func CheckTxJSON(tx *gobinlog.Transaction) (key, msg string) { return checkTxJSON(tx, false) }

// checkTxJSON: with rowsAlways, an event that carries a statement text AND rows
// (which the pinned library never delivers; a library that keeps the text of a
// ROWS_QUERY event on its row events does) must show its rows as well.
func checkTxJSON(tx *gobinlog.Transaction, rowsAlways bool) (key, msg string) {
	var b []byte
	var err error
	if p := core.Guard(func() { b, err = json.Marshal(tx) }); p != "" {
		return "txjson-panic", "json.Marshal(tx) panicked: " + c20FirstLine(p)
	}
	if err != nil {
		return "txjson-marshal-error", "json.Marshal(tx): " + err.Error()
	}
	dec := json.NewDecoder(bytes.NewReader(b))
	dec.UseNumber()
	var doc map[string]interface{}
	if err := dec.Decode(&doc); err != nil {
		return "txjson-malformed", "output is not a JSON object: " + err.Error() + ": " + c20q(string(b))
	}
	if _, err := dec.Token(); err != io.EOF {
		return "txjson-malformed", "trailing data after the JSON document: " + c20q(string(b))
	}
	if tx == nil {
		return "", ""
	}
	pos := func(name string, p gobinlog.Position) string {
		o, ok := doc[name].(map[string]interface{})
		if !ok {
			return name + " is " + c20show(doc[name])
		}
		if !c20Str(o["filename"], p.Filename) {
			return fmt.Sprintf("%s.filename = %s, want %s", name, c20show(o["filename"]), c20q(p.Filename))
		}
		if n, ok := o["offset"].(json.Number); !ok || n.String() != strconv.FormatInt(p.Offset, 10) {
			return fmt.Sprintf("%s.offset = %s, want %d", name, c20show(o["offset"]), p.Offset)
		}
		return ""
	}
	if m := pos("nowPosition", tx.NowPosition); m != "" {
		return "txjson-position", m
	}
	if m := pos("nextPosition", tx.NextPosition); m != "" {
		return "txjson-position", m
	}
	evv, present := doc["events"]
	if !present {
		return "txjson-events-count", `no "events" member`
	}
	evs, isList := evv.([]interface{})
	if len(tx.Events) == 0 {
		if evv != nil && (!isList || len(evs) != 0) {
			return "txjson-events-count", "no events, document has " + c20show(evv)
		}
		return "", ""
	}
	if !isList || len(evs) != len(tx.Events) {
		return "txjson-events-count", fmt.Sprintf("%d events, document has %s", len(tx.Events), c20show(evv))
	}
	for i, src := range tx.Events {
		path := fmt.Sprintf("events[%d]", i)
		if src == nil {
			if evs[i] != nil {
				return "txjson-event-nil", path + ": nil event rendered as " + c20show(evs[i])
			}
			continue
		}
		o, ok := evs[i].(map[string]interface{})
		if !ok {
			return "txjson-event-shape", path + " is " + c20show(evs[i])
		}
		if want := c20StmtName(src.Type); o["type"] != interface{}(want) {
			return "txjson-event-type", fmt.Sprintf("%s.type = %s, want %q (StatementType %d)", path, c20show(o["type"]), want, int(src.Type))
		}
		name, ok := o["name"].(map[string]interface{})
		if !ok || !c20Str(name["db"], src.Table.DbName) || !c20Str(name["table"], src.Table.TableName) {
			return "txjson-table-name", fmt.Sprintf("%s.name = %s, want db %s table %s", path, c20show(o["name"]), c20q(src.Table.DbName), c20q(src.Table.TableName))
		}
		sql, hasSQL := o["sql"]
		if hasSQL && src.Query.SQL == "" && (sql == nil || sql == interface{}("")) {
			hasSQL = false // an empty member for "no statement text" says the same as no member
		}
		if hasSQL != (src.Query.SQL != "") {
			return "txjson-sql-presence", fmt.Sprintf("%s: SQL %s, \"sql\" member present: %v", path, c20q(src.Query.SQL), hasSQL)
		}
		if hasSQL {
			if !c20Str(sql, src.Query.SQL) {
				return "txjson-sql-text", fmt.Sprintf("%s.sql = %s, want %s", path, c20show(sql), c20q(src.Query.SQL))
			}
			if !rowsAlways || (len(src.RowValues) == 0 && len(src.RowIdentifies) == 0) {
				continue // statement form without rows
			}
			// an event that carries both a statement text and rows must show both
		}
		for _, part := range [...]struct {
			name string
			rows []*gobinlog.RowData
		}{{"rowValues", src.RowValues}, {"rowIdentifies", src.RowIdentifies}} {
			v, present := o[part.name]
			if !present {
				return "txjson-rows-missing", fmt.Sprintf("%s has no %q member", path, part.name)
			}
			if k, m := c20Rows(path+"."+part.name, v, part.rows); k != "" {
				return k, m
			}
		}
	}
	return "", ""
}

func c20Rows(path string, v interface{}, rows []*gobinlog.RowData) (string, string) {
	list, isList := v.([]interface{})
	if len(rows) == 0 {
		if v != nil && (!isList || len(list) != 0) {
			return "txjson-rows-count", path + ": no rows, document has " + c20show(v)
		}
		return "", ""
	}
	if !isList || len(list) != len(rows) {
		return "txjson-rows-count", fmt.Sprintf("%s: %d rows, document has %s", path, len(rows), c20show(v))
	}
	for ri, row := range rows {
		rp := fmt.Sprintf("%s[%d]", path, ri)
		if row == nil {
			if list[ri] != nil {
				return "txjson-rows-count", rp + ": nil row rendered as " + c20show(list[ri])
			}
			continue
		}
		ro, ok := list[ri].(map[string]interface{})
		if !ok {
			return "txjson-row-shape", rp + " is " + c20show(list[ri])
		}
		cv, present := ro["Columns"]
		if !present {
			return "txjson-row-shape", rp + ` has no "Columns" member`
		}
		cols, isList := cv.([]interface{})
		if len(row.Columns) == 0 {
			if cv != nil && (!isList || len(cols) != 0) {
				return "txjson-column-count", rp + ": no columns, document has " + c20show(cv)
			}
			continue
		}
		if !isList || len(cols) != len(row.Columns) {
			return "txjson-column-count", fmt.Sprintf("%s: %d columns, document has %s", rp, len(row.Columns), c20show(cv))
		}
		for ci, col := range row.Columns {
			cp := fmt.Sprintf("%s.Columns[%d]", rp, ci)
			if col == nil {
				if cols[ci] != nil {
					return "txjson-column-count", cp + ": nil column rendered as " + c20show(cols[ci])
				}
				continue
			}
			co, ok := cols[ci].(map[string]interface{})
			if !ok {
				return "txjson-column-shape", cp + " is " + c20show(cols[ci])
			}
			if !c20Str(co["filed"], col.Filed) {
				return "txjson-column-name", fmt.Sprintf("%s.filed = %s, want %s", cp, c20show(co["filed"]), c20q(col.Filed))
			}
			if want := c20TypeName(col.Type); co["type"] != interface{}(want) {
				return "txjson-column-type", fmt.Sprintf("%s.type = %s, want %q (ColumnType %d)", cp, c20show(co["type"]), want, int(col.Type))
			}
			if co["isEmpty"] != interface{}(col.IsEmpty) {
				return "txjson-column-isempty", fmt.Sprintf("%s.isEmpty = %s, want %v", cp, c20show(co["isEmpty"]), col.IsEmpty)
			}
			d, present := co["data"]
			if !present {
				return "txjson-data-missing", cp + ` has no "data" member`
			}
			switch {
			case col.Data == nil:
				if d != nil {
					return "txjson-data-null-vs-empty", fmt.Sprintf("%s: SQL NULL rendered as %s", cp, c20show(d))
				}
			case len(col.Data) == 0:
				if s, ok := d.(string); !ok || s != "" {
					return "txjson-data-null-vs-empty", fmt.Sprintf("%s: empty value rendered as %s", cp, c20show(d))
				}
			default:
				if !c20Str(d, string(col.Data)) {
					return "txjson-data-text", fmt.Sprintf("%s.data = %s, want %s", cp, c20show(d), c20q(string(col.Data)))
				}
			}
		}
	}
	return "", ""
}

// ---------------------------------------------------------------- lossless witness form

type c20ColW struct {
	Filed   string  `json:"filed_hex"`
	Type    int     `json:"type"`
	IsEmpty bool    `json:"is_empty"`
	Data    *string `json:"data_hex"` // null = nil Data, "" = empty non-nil
	Show    string  `json:"show,omitempty"`
}
type c20RowW struct {
	Nil     bool      `json:"nil,omitempty"`
	Columns []c20ColW `json:"columns"` // null = nil slice
	NilCols []int     `json:"nil_columns,omitempty"`
}
type c20EvW struct {
	Nil           bool      `json:"nil,omitempty"`
	Type          int       `json:"type"`
	Db            string    `json:"db_hex"`
	Table         string    `json:"table_hex"`
	QueryDb       string    `json:"query_db_hex"`
	SQL           string    `json:"sql_hex"`
	ShowSQL       string    `json:"show_sql,omitempty"`
	Timestamp     int64     `json:"timestamp"`
	RowValues     []c20RowW `json:"row_values"`     // null = nil slice
	RowIdentifies []c20RowW `json:"row_identifies"` // null = nil slice
}

// C20TxWitness is a transaction in a form that survives JSON (all strings hex).
type C20TxWitness struct {
	NowFile   string   `json:"now_file_hex"`
	NowOff    int64    `json:"now_offset"`
	NextFile  string   `json:"next_file_hex"`
	NextOff   int64    `json:"next_offset"`
	Timestamp int64    `json:"timestamp"`
	Events    []c20EvW `json:"events"` // null = nil slice
	Index     int      `json:"index"`
	Key       string   `json:"key,omitempty"`
	Msg       string   `json:"oracle_msg,omitempty"`
	Output    string   `json:"library_output,omitempty"`
}

func c20Hx(s string) string { return hex.EncodeToString([]byte(s)) }
func c20Unhx(s string) string {
	b, _ := hex.DecodeString(s)
	return string(b)
}

// TxWitness converts a transaction into its replayable witness form.
func TxWitness(tx *gobinlog.Transaction) *C20TxWitness {
	if tx == nil {
		return nil
	}
	w := &C20TxWitness{NowFile: c20Hx(tx.NowPosition.Filename), NowOff: tx.NowPosition.Offset,
		NextFile: c20Hx(tx.NextPosition.Filename), NextOff: tx.NextPosition.Offset, Timestamp: tx.Timestamp}
	rows := func(rs []*gobinlog.RowData) []c20RowW {
		if rs == nil {
			return nil
		}
		out := make([]c20RowW, 0, len(rs))
		for _, r := range rs {
			if r == nil {
				out = append(out, c20RowW{Nil: true})
				continue
			}
			rw := c20RowW{}
			if r.Columns != nil {
				rw.Columns = make([]c20ColW, 0, len(r.Columns))
			}
			for ci, c := range r.Columns {
				if c == nil {
					rw.NilCols = append(rw.NilCols, ci)
					rw.Columns = append(rw.Columns, c20ColW{})
					continue
				}
				cw := c20ColW{Filed: c20Hx(c.Filed), Type: int(c.Type), IsEmpty: c.IsEmpty}
				if c.Data != nil {
					h := hex.EncodeToString(c.Data)
					cw.Data = &h
					cw.Show = c20q(string(c.Data))
				}
				rw.Columns = append(rw.Columns, cw)
			}
			out = append(out, rw)
		}
		return out
	}
	if tx.Events != nil {
		w.Events = make([]c20EvW, 0, len(tx.Events))
	}
	for _, e := range tx.Events {
		if e == nil {
			w.Events = append(w.Events, c20EvW{Nil: true})
			continue
		}
		w.Events = append(w.Events, c20EvW{Type: int(e.Type), Db: c20Hx(e.Table.DbName), Table: c20Hx(e.Table.TableName),
			QueryDb: c20Hx(e.Query.Database), SQL: c20Hx(e.Query.SQL), ShowSQL: c20q(e.Query.SQL), Timestamp: e.Timestamp,
			RowValues: rows(e.RowValues), RowIdentifies: rows(e.RowIdentifies)})
	}
	return w
}

// Tx rebuilds the transaction.
func (w *C20TxWitness) Tx() *gobinlog.Transaction {
	tx := &gobinlog.Transaction{NowPosition: gobinlog.Position{Filename: c20Unhx(w.NowFile), Offset: w.NowOff},
		NextPosition: gobinlog.Position{Filename: c20Unhx(w.NextFile), Offset: w.NextOff}, Timestamp: w.Timestamp}
	rows := func(rs []c20RowW) []*gobinlog.RowData {
		if rs == nil {
			return nil
		}
		out := make([]*gobinlog.RowData, 0, len(rs))
		for _, rw := range rs {
			if rw.Nil {
				out = append(out, nil)
				continue
			}
			r := &gobinlog.RowData{}
			if rw.Columns != nil {
				r.Columns = make([]*gobinlog.ColumnData, 0, len(rw.Columns))
			}
			nilCol := map[int]bool{}
			for _, i := range rw.NilCols {
				nilCol[i] = true
			}
			for ci, cw := range rw.Columns {
				if nilCol[ci] {
					r.Columns = append(r.Columns, nil)
					continue
				}
				c := &gobinlog.ColumnData{Filed: c20Unhx(cw.Filed), Type: gobinlog.ColumnType(cw.Type), IsEmpty: cw.IsEmpty}
				if cw.Data != nil {
					c.Data, _ = hex.DecodeString(*cw.Data)
					if c.Data == nil {
						c.Data = []byte{}
					}
				}
				r.Columns = append(r.Columns, c)
			}
			out = append(out, r)
		}
		return out
	}
	if w.Events != nil {
		tx.Events = make([]*gobinlog.StreamEvent, 0, len(w.Events))
	}
	for _, ew := range w.Events {
		if ew.Nil {
			tx.Events = append(tx.Events, nil)
			continue
		}
		tx.Events = append(tx.Events, &gobinlog.StreamEvent{Type: gobinlog.StatementType(ew.Type),
			Table:     gobinlog.MysqlTableName{DbName: c20Unhx(ew.Db), TableName: c20Unhx(ew.Table)},
			Query:     replication.Query{Database: c20Unhx(ew.QueryDb), SQL: c20Unhx(ew.SQL)},
			Timestamp: ew.Timestamp, RowValues: rows(ew.RowValues), RowIdentifies: rows(ew.RowIdentifies)})
	}
	return tx
}

// ---------------------------------------------------------------- generator

var c20Invalid = [][]byte{
	{0x80}, {0xbf}, {0xc0, 0xaf}, {0xc3}, {0xe2, 0x82}, {0xed, 0xa0, 0x80}, {0xf0, 0x9f, 0x98}, {0xf5, 0x80, 0x80, 0x80},
	{0xfe}, {0xff}, {0xf8, 0x88, 0x80, 0x80, 0x80}, {0xe0, 0x80, 0x80},
}
var c20Valid = []string{"\u2028", "\u2029", "\ufeff", "\ufffd", "\u00e9", "\u00df", "\u4e2d\u6587", "\u65e5\u672c\u8a9e", "\U0001f600", "\U0001d11e", "\u0080", "\u07ff", "\u0800", "\uffff", "\U00010000", "\U0010ffff", "\u200b", "\u0085"}
var c20Tricky = []string{`"`, `\`, `'`, "`", `/`, `\"`, `\\`, `\u0000`, `\n`, "null", `"null"`, "true", "{}", "[]", `{"a":1}`, "<", ">", "&", "<script>", "&amp;", "\x7f", " ", "\t", "\n", "\r", "\x00", "\x01", "\x1f", "\b", "\f"}

type c20Gen struct {
	r     *core.Rng
	cells *[c20NCells]int64
	types *[258]bool
}

const (
	c20StrEmpty = iota
	c20StrASCII
	c20StrTricky
	c20StrControl
	c20StrUnicode
	c20StrInvalid
	c20StrRandom
	c20StrLong
	c20DataNil
	c20DataEmpty
	c20DataValid
	c20DataInvalid
	c20EventsNil
	c20EventsEmpty
	c20FormSQL
	c20FormRow
	c20RowsNil
	c20RowsEmpty
	c20ColsNil
	c20ColsEmpty
	c20TypeKnown
	c20TypeUnknown
	c20StmtBase // + 0..16 (16 = outside 0..15)
	c20NCells   = c20StmtBase + 17
)

var c20CellNames = func() [c20NCells]string {
	n := [c20NCells]string{"str:empty", "str:ascii", "str:quotes-escapes-html", "str:control", "str:multibyte-u2028", "str:invalid-utf8", "str:random-bytes", "str:long",
		"data:nil", "data:empty-non-nil", "data:valid-utf8", "data:invalid-utf8", "events:nil", "events:empty", "form:sql", "form:row",
		"rows:nil", "rows:empty", "columns:nil", "columns:empty", "coltype:known", "coltype:unknown"}
	for i := 0; i < 16; i++ {
		n[c20StmtBase+i] = fmt.Sprintf("stmt:%02d-%s", i, c20StmtName(gobinlog.StatementType(i)))
	}
	n[c20StmtBase+16] = "stmt:outside"
	return n
}()

func (g *c20Gen) str() string {
	r := g.r
	class := r.Intn(8)
	g.cells[class]++
	var b []byte
	piece := func() {
		switch class {
		case c20StrASCII:
			const al = "abcdefghijklmnopqrstuvwxyzABCDEFGHIJKLMNOPQRSTUVWXYZ0123456789_ $.,-"
			b = append(b, al[r.Intn(len(al))])
		case c20StrTricky:
			b = append(b, c20Tricky[r.Intn(len(c20Tricky))]...)
		case c20StrControl:
			if r.Bool() {
				b = append(b, byte(r.Intn(0x20)))
			} else {
				b = append(b, byte('a'+r.Intn(26)))
			}
		case c20StrUnicode:
			switch r.Intn(3) {
			case 0:
				b = append(b, c20Valid[r.Intn(len(c20Valid))]...)
			case 1:
				ru := rune(r.Intn(0x110000))
				if ru >= 0xd800 && ru < 0xe000 {
					ru = 0x2028
				}
				b = utf8.AppendRune(b, ru)
			default:
				b = append(b, byte('a'+r.Intn(26)))
			}
		case c20StrInvalid:
			switch r.Intn(3) {
			case 0:
				b = append(b, c20Invalid[r.Intn(len(c20Invalid))]...)
			case 1:
				b = append(b, c20Valid[r.Intn(len(c20Valid))]...)
			default:
				b = append(b, byte('a'+r.Intn(26)))
			}
		default:
			b = append(b, byte(r.U64()))
		}
	}
	switch class {
	case c20StrEmpty:
		return ""
	case c20StrLong:
		n := 100 + r.Intn(300)
		class = 1 + r.Intn(6)
		for len(b) < n {
			piece()
		}
		return string(b)
	case c20StrInvalid:
		n := 1 + r.Intn(10)
		for i := 0; i < n; i++ {
			piece()
		}
		if utf8.Valid(b) {
			b = append(b, c20Invalid[r.Intn(len(c20Invalid))]...)
		}
		return string(b)
	}
	n := 1 + r.Intn(24)
	for i := 0; i < n; i++ {
		piece()
	}
	return string(b)
}

func (g *c20Gen) data() []byte {
	switch g.r.Intn(6) {
	case 0:
		g.cells[c20DataNil]++
		return nil
	case 1:
		g.cells[c20DataEmpty]++
		return []byte{}
	}
	d := []byte(g.str())
	switch {
	case len(d) == 0:
		g.cells[c20DataEmpty]++
		d = []byte{}
	case utf8.Valid(d):
		g.cells[c20DataValid]++
	default:
		g.cells[c20DataInvalid]++
	}
	return d
}

func (g *c20Gen) colType(hint int) gobinlog.ColumnType {
	t := hint
	switch g.r.Intn(12) {
	case 0:
		t = g.r.Intn(256)
	case 1:
		t = [...]int{-1, 256, 1000, -246, 1 << 20}[g.r.Intn(5)]
	case 2, 3:
		known := [...]int{0, 1, 2, 3, 4, 5, 6, 7, 8, 9, 10, 11, 12, 13, 14, 15, 16, 17, 18, 19, 245, 246, 247, 248, 249, 250, 251, 252, 253, 254, 255}
		t = known[g.r.Intn(len(known))]
	}
	if _, ok := c20TypeNames[t]; ok {
		g.cells[c20TypeKnown]++
	} else {
		g.cells[c20TypeUnknown]++
	}
	if t >= 0 && t < 256 {
		g.types[t] = true
	} else {
		g.types[256] = true
	}
	return gobinlog.ColumnType(t)
}

func (g *c20Gen) rows(i int, counter *int) []*gobinlog.RowData {
	r := g.r
	switch r.Intn(8) {
	case 0:
		g.cells[c20RowsNil]++
		return nil
	case 1:
		g.cells[c20RowsEmpty]++
		return []*gobinlog.RowData{}
	}
	n := 1 + r.Intn(3)
	out := make([]*gobinlog.RowData, 0, n)
	for j := 0; j < n; j++ {
		row := &gobinlog.RowData{}
		switch r.Intn(12) {
		case 0:
			g.cells[c20ColsNil]++
		case 1:
			g.cells[c20ColsEmpty]++
			row.Columns = []*gobinlog.ColumnData{}
		default:
			nc := 1 + r.Intn(6)
			for c := 0; c < nc; c++ {
				*counter++
				row.Columns = append(row.Columns, &gobinlog.ColumnData{Filed: g.str(), Type: g.colType((i*7 + *counter) % 256),
					IsEmpty: r.Chance(1, 4), Data: g.data()})
			}
		}
		out = append(out, row)
	}
	return out
}

func (g *c20Gen) tx(i int) *gobinlog.Transaction {
	r := g.r
	off := func() int64 {
		switch r.Intn(5) {
		case 0:
			return 4
		case 1:
			return int64(r.U32())
		case 2:
			return int64(r.U64() >> 1) // beyond 2^53
		case 3:
			return -int64(r.Intn(100))
		}
		return int64(r.Intn(1 << 20))
	}
	tx := &gobinlog.Transaction{
		NowPosition:  gobinlog.Position{Filename: g.str(), Offset: off()},
		NextPosition: gobinlog.Position{Filename: g.str(), Offset: off()},
		Timestamp:    int64(r.U32()),
	}
	if r.Chance(1, 3) {
		tx.NowPosition.Filename = fmt.Sprintf("mysql-bin.%06d", r.Intn(1000000))
		tx.NextPosition.Filename = tx.NowPosition.Filename
	}
	switch r.Intn(16) {
	case 0:
		g.cells[c20EventsNil]++
		return tx
	case 1:
		g.cells[c20EventsEmpty]++
		tx.Events = []*gobinlog.StreamEvent{}
		return tx
	}
	n := 1 + r.Intn(5)
	counter := 0
	for e := 0; e < n; e++ {
		st := (i + e) % 16
		if r.Chance(1, 20) {
			st = [...]int{-1, 13, 16, 255, 1 << 30}[r.Intn(5)]
		}
		if st >= 0 && st < 16 {
			g.cells[c20StmtBase+st]++
		} else {
			g.cells[c20StmtBase+16]++
		}
		ev := &gobinlog.StreamEvent{Type: gobinlog.StatementType(st),
			Table:     gobinlog.MysqlTableName{DbName: g.str(), TableName: g.str()},
			Timestamp: int64(r.U32())}
		if r.Chance(1, 8) {
			ev.Timestamp = int64(r.U64()>>1) - (1 << 61) // rendering not compared, must still serialise
		}
		if r.Chance(2, 5) {
			g.cells[c20FormSQL]++
			ev.Query = replication.Query{Database: g.str(), SQL: g.str()}
			if ev.Query.SQL == "" {
				ev.Query.SQL = "BEGIN"
			}
			if r.Chance(1, 2) {
				// the session character set the query event announced: whatever it
				// says, the text is rendered as it is (latin1 = 8, binary = 63, ...)
				cs := []int32{8, 63, 33, 45, 255, 1, 28, 0, int32(r.Intn(300))}
				ev.Query.Charset = &replication.Charset{Client: cs[r.Intn(len(cs))], Conn: cs[r.Intn(len(cs))], Server: cs[r.Intn(len(cs))]}
			}
			if r.Chance(1, 4) { // rows next to SQL are legal values of the struct; they are not serialised
				ev.RowValues = g.rows(i, &counter)
			}
		} else {
			g.cells[c20FormRow]++
			ev.Query = replication.Query{Database: g.str()}
			ev.RowValues = g.rows(i, &counter)
			ev.RowIdentifies = g.rows(i, &counter)
		}
		tx.Events = append(tx.Events, ev)
	}
	return tx
}

func c20Hash(tx *gobinlog.Transaction) (h uint64, nontrivial bool) {
	plain := func(s string) bool {
		for i := 0; i < len(s); i++ {
			if s[i] < 0x20 || s[i] > 0x7e || s[i] == '"' || s[i] == '\\' {
				return false
			}
		}
		return true
	}
	add := func(s string) {
		h = core.HashU64(h, uint64(len(s)))
		h = core.HashAdd(h, []byte(s))
		if !plain(s) {
			nontrivial = true
		}
	}
	add(tx.NowPosition.Filename)
	add(tx.NextPosition.Filename)
	h = core.HashU64(h, uint64(tx.NowPosition.Offset))
	h = core.HashU64(h, uint64(tx.NextPosition.Offset))
	if tx.Events == nil {
		h = core.HashU64(h, 0xdead)
	}
	for _, e := range tx.Events {
		h = core.HashU64(h, uint64(int64(e.Type)))
		add(e.Table.DbName)
		add(e.Table.TableName)
		add(e.Query.SQL)
		for pi, rows := range [2][]*gobinlog.RowData{e.RowValues, e.RowIdentifies} {
			h = core.HashU64(h, uint64(pi)<<32|uint64(len(rows)))
			if rows == nil {
				h = core.HashU64(h, 0xbeef)
			}
			for _, r := range rows {
				h = core.HashU64(h, uint64(len(r.Columns)))
				for _, c := range r.Columns {
					if e.Query.SQL == "" {
						nontrivial = true
					}
					add(c.Filed)
					h = core.HashU64(h, uint64(int64(c.Type))<<1|uint64(c20B2i(c.IsEmpty)))
					if c.Data == nil {
						h = core.HashU64(h, 0xfeed)
					} else {
						add(string(c.Data))
					}
				}
			}
		}
	}
	return h, nontrivial
}

func c20FirstLine(s string) string {
	for i := 0; i < len(s); i++ {
		if s[i] == '\n' {
			return s[:i]
		}
	}
	return s
}

func c20B2i(b bool) int {
	if b {
		return 1
	}
	return 0
}

// ---------------------------------------------------------------- entry

func runC20(c *core.Ctx) {
	c.SetRule("Synthetic transactions are built directly from the exported structs: 0..5 events (nil and empty Events), StatementType cycling through 0..15 plus values outside, " +
		"statement form (SQL non-empty, sometimes with rows that must not be demanded) or row form (rowValues / rowIdentifies: nil, empty, 1..3 rows of nil / empty / 1..6 columns), " +
		"ColumnType cycling through 0..255 plus values outside, Data nil / empty non-nil / bytes; every string (file names, db, table, SQL, column names, data) drawn from the classes " +
		"empty, ASCII, quotes-backslashes-HTML-JSON-lookalikes, control characters, multi-byte incl. U+2028/U+2029/astral, invalid UTF-8 (lone continuation, truncated, overlong, surrogate, " +
		"FE/FF), random bytes, long. Oracle = CheckTxJSON: json.Marshal succeeds, the output parses (UseNumber, no trailing data) and every stated member matches; valid UTF-8 must come " +
		"back identical, invalid UTF-8 only as a non-empty string; timestamps are not compared. A deterministic preamble covers every ColumnType 0..255 and StatementType -1..16 name once. " +
		"Cases are identified by a hash over all compared fields; non-trivial iff a row-form event has at least one column or some compared string needs escaping / is not printable ASCII.")
	c.Assume("encoding/json as the JSON reader (well-formedness = accepted by encoding/json); unicode/utf8 for validity; the statement and column type name tables written out in checks/c20.go (MySQL enum_field_types numbering)")

	report := func(tx *gobinlog.Transaction, idx int, key, msg string) {
		var w interface{}
		if c.KeyCount(key) == 0 {
			tw := TxWitness(tx)
			tw.Index, tw.Key, tw.Msg = idx, key, msg
			if b, err := json.Marshal(tx); err == nil {
				tw.Output = c20q(string(b))
			}
			w = tw
		}
		c.Violation(key, msg, w)
	}

	if c.Replay != "" {
		b, err := os.ReadFile(c.Replay)
		if err != nil {
			c.Inconclusive("cannot read replay file: " + err.Error())
			return
		}
		var f struct {
			Witness *C20TxWitness `json:"witness"`
		}
		if err := json.Unmarshal(b, &f); err != nil || f.Witness == nil {
			c.Inconclusive(fmt.Sprintf("bad replay file: %v", err))
			return
		}
		tx := f.Witness.Tx()
		h, nt := c20Hash(tx)
		c.Case(h, nt)
		if key, msg := CheckTxJSON(tx); key != "" {
			report(tx, f.Witness.Index, key, msg)
		}
		return
	}

	var cells [c20NCells]int64
	var types [258]bool
	flush := func() {
		for i, v := range cells {
			if v != 0 {
				c.CellN(c20CellNames[i], v)
				cells[i] = 0
			}
		}
	}
	defer flush()

	// preamble: every type / statement name once
	pre := 0
	for t := 0; t < 256; t++ {
		if c.Mine(pre) {
			d := []byte("x")
			tx := &gobinlog.Transaction{NowPosition: gobinlog.Position{Filename: "mysql-bin.000001", Offset: 4},
				NextPosition: gobinlog.Position{Filename: "mysql-bin.000001", Offset: 120},
				Events: []*gobinlog.StreamEvent{{Type: gobinlog.StatementInsert, Table: gobinlog.MysqlTableName{DbName: "d", TableName: "t"},
					RowValues: []*gobinlog.RowData{{Columns: []*gobinlog.ColumnData{{Filed: "c", Type: gobinlog.ColumnType(t), Data: d}}}}}}}
			h, _ := c20Hash(tx)
			c.Case(h, true)
			if key, msg := CheckTxJSON(tx); key != "" {
				report(tx, -1-pre, key, msg)
			}
		}
		pre++
	}
	for s := -1; s <= 16; s++ {
		if c.Mine(pre) {
			tx := &gobinlog.Transaction{NowPosition: gobinlog.Position{Filename: "mysql-bin.000001", Offset: 4},
				NextPosition: gobinlog.Position{Filename: "mysql-bin.000001", Offset: 120},
				Events: []*gobinlog.StreamEvent{{Type: gobinlog.StatementType(s), Table: gobinlog.MysqlTableName{DbName: "d", TableName: "t"},
					Query: replication.Query{SQL: "select 1"}}}}
			h, _ := c20Hash(tx)
			c.Case(h, true)
			if key, msg := CheckTxJSON(tx); key != "" {
				report(tx, -1-pre, key, msg)
			}
		}
		pre++
	}
	c.ExhaustiveDomain("type names: every ColumnType 0..255 (one-column row event) and every StatementType -1..16 (statement event) serialised once and compared with the tables in checks/c20.go")

	n := c.N(30000, 3000000)
	for i := 0; i < n; i++ {
		if !c.Mine(i) {
			continue
		}
		g := &c20Gen{r: c.Rng(core.StrID("tx"), uint64(i)), cells: &cells, types: &types}
		tx := g.tx(i)
		h, nt := c20Hash(tx)
		c.Case(h, nt)
		if key, msg := CheckTxJSON(tx); key != "" {
			report(tx, i, key, msg)
		}
		if i < 200 && c.WantSample() && len(tx.Events) > 0 && len(tx.Events) <= 2 {
			if b, err := json.Marshal(tx); err == nil && len(b) < 700 {
				c.Sample(map[string]interface{}{"index": i, "library_output": json.RawMessage(b)})
			}
		}
		if i&8191 == 0 {
			flush()
		}
	}
	seen := 0
	for t := 0; t < 256; t++ {
		if types[t] {
			seen++
		}
	}
	if c.Shard == 0 {
		c.Note("distinct_column_types_0_255_seen_by_shard0_random_part", int64(seen))
	}
}
