package checks

import (
	"bytes"
	"fmt"
	"reflect"
	"sort"
	"unsafe"

	"github.com/Breeze0806/gobinlog"

	"verifharness/core"
	"verifharness/enc/ev"
	"verifharness/gen"
	"verifharness/hist"
	"verifharness/run"
	"verifharness/sim"
	"verifharness/xport"
)

// C08: delivered transactions are stable — no aliasing of transport buffers or
// shared constants.
func init() { core.Register("C08", checkC08) }

type c08Scn struct {
	Hist     int  `json:"hist"`
	Scribble bool `json:"scribble"`
}

func c08History(c *core.Ctx, idx int) (*hist.History, []*hist.Table) {
	r := c.Rng(core.StrID("c08hist"), uint64(idx))
	cb := allCombos()[r.Intn(24)]
	o := cb.hopts(r)
	o.MaxCols, o.MaxRows, o.MaxStmts, o.MaxTables, o.MaxEvents = 8, 3, 3, 2, 2
	o.NoJSON = idx%4 != 0
	o.Types = []byte{ev.TTimestamp, ev.TTimestamp2, ev.TTimestamp2, ev.TVarchar, ev.TBlob, ev.TBlob, ev.TLong, ev.TNewDecimal,
		ev.TDateTime2, ev.TTime2, ev.TString, ev.TBit, ev.TSet, ev.TYear, ev.TDate, ev.TTime, ev.TDateTime, ev.TGeometry, ev.TJSON, ev.TDouble}
	o.ZeroBias = 3 // all-zero temporal values: what a decoder may serve from a shared constant
	switch idx % 6 {
	case 5:
		o.BlobLens = []int{258000, 259000, 261000, 262100, 262143, 262144}
		o.MaxRows, o.MaxStmts = 1, 2
	case 0:
		o.BlobLens = []int{4000, 4050, 4085, 4090, 4096, 4100}
	case 1:
		o.BlobLens = []int{8100, 8180, 8192, 8200}
	case 2:
		o.BlobLens = []int{16300, 16380, 16384, 16390}
	case 3:
		o.BlobLens = []int{70000}
	default:
		o.MaxRows, o.MaxStmts = 1, 1 // many tiny events per TCP segment
	}
	return gen.RandomHistory(r, o, 4+r.Intn(5), r.Intn(2))
}

type span struct {
	lo, hi uintptr
	where  string
}

// c08Monitor retains delivered transactions and checks them.
type c08Monitor struct {
	txs      []*gobinlog.Transaction
	snaps    []*run.Delivered
	spans    []span
	scribble bool
	ptrs     map[uintptr]string // every record reachable by pointer from an earlier delivery
	fail     func(key, msg string)
	values   int
	checked  int64
}

// verify compares a retained transaction with its snapshot.
func verify(tx *gobinlog.Transaction, d *run.Delivered) string {
	if tx.NowPosition.Filename != d.Now.File || tx.NowPosition.Offset != d.Now.Off || tx.NextPosition.Filename != d.Next.File ||
		tx.NextPosition.Offset != d.Next.Off || tx.Timestamp != d.TS {
		return "positions or timestamp changed"
	}
	if len(tx.Events) != len(d.Events) {
		return "number of events changed"
	}
	for i, e := range tx.Events {
		de := &d.Events[i]
		if int(e.Type) != de.Type || e.Table.DbName != de.DB || e.Table.TableName != de.Table || e.Query.SQL != de.SQL ||
			e.Query.Database != de.QueryDB || e.Timestamp != de.TS {
			return fmt.Sprintf("ev%d header fields changed", i)
		}
		for side, rows := range [][]*gobinlog.RowData{e.RowValues, e.RowIdentifies} {
			snap := de.Values
			if side == 1 {
				snap = de.Idents
			}
			if len(rows) != len(snap) {
				return fmt.Sprintf("ev%d number of rows changed", i)
			}
			for ri, row := range rows {
				if len(row.Columns) != len(snap[ri]) {
					return fmt.Sprintf("ev%d.row%d number of columns changed", i, ri)
				}
				for ci, col := range row.Columns {
					sc := &snap[ri][ci]
					if col.Filed != sc.Name || int(col.Type) != sc.Type || col.IsEmpty != sc.IsEmpty {
						return fmt.Sprintf("ev%d.row%d[%d] name/type/flag changed", i, ri, ci)
					}
					if (col.Data == nil) != (sc.Data == nil) || !bytes.Equal(col.Data, sc.Data) {
						return fmt.Sprintf("ev%d.row%d[%d].Data changed from %q to %q (type %d)", i, ri, ci, trunc60(sc.Data), trunc60(col.Data), sc.Type)
					}
				}
			}
		}
	}
	return ""
}

func trunc60(b []byte) []byte {
	if len(b) > 60 {
		return b[:60]
	}
	return b
}

func (m *c08Monitor) verifyAll(when string) bool {
	for i, tx := range m.txs {
		m.checked++
		if why := verify(tx, m.snaps[i]); why != "" {
			m.fail("c08:value-changed-after-delivery", fmt.Sprintf("%s: retained delivery %d differs from its snapshot: %s", when, i, why))
			return false
		}
	}
	return true
}

// onDelivery is called inside the handler.
func (m *c08Monitor) onDelivery(n int, tx *gobinlog.Transaction, d *run.Delivered) {
	if !m.verifyAll(fmt.Sprintf("at delivery %d", n)) {
		return
	}
	// overlap of delivered values' memory [ptr, ptr+len): every byte slice that
	// can be reached from the transaction through exported fields (found by
	// reflection, so a value handed out in a field this harness does not know
	// is covered as well)
	var mine []span
	walkByteSlices(reflect.ValueOf(tx), fmt.Sprintf("tx%d", n), map[uintptr]bool{}, func(path string, b []byte) {
		if len(b) == 0 {
			return
		}
		lo := uintptr(unsafe.Pointer(&b[0]))
		mine = append(mine, span{lo, lo + uintptr(len(b)), path})
	})
	// no record handed out by pointer may be shared between two deliveries
	// (a shared *Charset, a re-used *StreamEvent ...): what one handler does
	// to its transaction must not reach another
	if m.ptrs == nil {
		m.ptrs = map[uintptr]string{}
	}
	shared := ""
	minePtrs := map[uintptr]string{}
	walkPointers(reflect.ValueOf(tx), fmt.Sprintf("tx%d", n), minePtrs)
	for a, where := range minePtrs {
		if prev, ok := m.ptrs[a]; ok && shared == "" {
			shared = fmt.Sprintf("%s and %s", prev, where)
		}
	}
	for a, where := range minePtrs {
		m.ptrs[a] = where
	}
	if shared != "" {
		m.fail("c08:record-shared-between-deliveries", "two deliveries point at the same record: "+shared)
		return
	}
	m.values += len(mine)
	all := append(m.spans, mine...)
	sort.Slice(all, func(i, j int) bool { return all[i].lo < all[j].lo })
	for i := 1; i < len(all); i++ {
		if all[i].lo < all[i-1].hi {
			m.fail("c08:values-overlap", fmt.Sprintf("delivered values share memory: %s and %s", all[i-1].where, all[i].where))
			return
		}
	}
	m.spans = all
	m.txs = append(m.txs, tx)
	m.snaps = append(m.snaps, d)
	if !m.scribble {
		return
	}
	// scribble over every value of this delivery, one at a time; the snapshot
	// of the scribbled value is updated, everything else must stay as it was
	for ei, e := range tx.Events {
		for side, rows := range [][]*gobinlog.RowData{e.RowValues, e.RowIdentifies} {
			for ri, row := range rows {
				for ci, col := range row.Columns {
					if len(col.Data) == 0 {
						continue
					}
					for k := range col.Data {
						col.Data[k] ^= 0xA5
					}
					snap := d.Events[ei].Values
					if side == 1 {
						snap = d.Events[ei].Idents
					}
					snap[ri][ci].Data = append([]byte{}, col.Data...)
					// check this transaction fully, older ones every few values
					if why := verify(tx, d); why != "" {
						m.fail("c08:scribble-affects-other-value", fmt.Sprintf("overwriting tx%d.ev%d.side%d.row%d[%d] (type %d) changed another value of the same delivery: %s", n, ei, side, ri, ci, int(col.Type), why))
						return
					}
				}
			}
		}
	}
	if !m.verifyAll(fmt.Sprintf("after scribbling delivery %d", n)) {
		return
	}
}

func checkC08(c *core.Ctx) {
	c.SetRule("histories rich in temporal columns (one value in three the type's all-zero value, half of the fractional columns with 0 digits), blobs sized around the driver's 4096-byte read buffer (4 000..4 100, 8 100..8 200, 16 300..16 390, 70 000 bytes) and many tiny events; master far ahead, slow handler, transport reads chunked (1-byte, header-splitting, exactly-4096, random); every delivered transaction is retained; monitors: snapshot vs live object at every later delivery and after quiescence, address-range overlap of every byte slice reachable from a delivered transaction through exported fields (by reflection), scribble (XOR every byte of every value, one value at a time) then all later deliveries and a SECOND stream of the same history in the same process are compared with the model; race reports between handler code and library code count. distinct by (history bytes, scribble); non-trivial iff >= 2 deliveries carry values")
	c.Assume("only bytes [0,len) of a delivered value are written or compared")
	nh := c.N(80, 4000)
	if c.Replay != "" {
		var w struct {
			Witness struct {
				Scenario c08Scn `json:"scenario"`
			} `json:"witness"`
		}
		if err := readWitness(c.Replay, &w); err != nil {
			c.Inconclusive("cannot read witness: " + err.Error())
			return
		}
		c08Run(c, w.Witness.Scenario)
		return
	}
	for idx := 0; idx < nh; idx++ {
		if !c.Mine(idx) {
			continue
		}
		c08Run(c, c08Scn{Hist: idx, Scribble: false})
		c08Run(c, c08Scn{Hist: idx, Scribble: true})
	}
}

func c08Chunks(r *core.Rng) []int {
	switch r.Intn(5) {
	case 0:
		return []int{1}
	case 1:
		return []int{3, 1, 4096, 2, 5}
	case 2:
		return []int{4096}
	case 3:
		return nil
	}
	var out []int
	for i := 0; i < 16; i++ {
		out = append(out, 1+r.Intn(9000))
	}
	return out
}

func c08Run(c *core.Ctx, scn c08Scn) {
	c.Log("C08 %+v", scn)
	h, tables := c08History(c, scn.Hist)
	l := h.Build()
	start := hist.Pos{File: h.FirstFile, Off: 4}
	exp := hist.Expect(h, l, start)
	r := c.Rng(core.StrID("c08run"), uint64(scn.Hist))
	s, err := run.NewSession(l, tables, 808, start, true)
	if err != nil {
		c.Inconclusive("cannot start master: " + err.Error())
		return
	}
	defer s.Close()
	for _, g := range run.LibGoroutines(nil) {
		s.Abandon(g.ID)
	}
	failed := false
	var witExtra map[string]interface{}
	mon := &c08Monitor{scribble: scn.Scribble}
	mon.fail = func(key, msg string) {
		if failed {
			return
		}
		failed = true
		c.Violation(key, fmt.Sprintf("hist %d scribble=%v: %s", scn.Hist, scn.Scribble, msg), witnessOf(scn, h, nil, witExtra))
	}
	withValues := 0
	for pass := 0; pass < 2 && !failed; pass++ {
		s.S.SetBinlogPosition(gobinlog.Position{Filename: start.File, Offset: start.Off})
		s.M.SetScripts(&sim.Script{End: sim.EndEOF})
		hs := run.NoFaults()
		hs.SlowUS = 50 + r.Intn(300)
		var snaps []*run.Delivered
		hs.OnCall = func(n int, tx *gobinlog.Transaction, d *run.Delivered) {
			// the comparison with the model uses a private copy taken before scribbling
			cp := *run.Snapshot(tx)
			snaps = append(snaps, &cp)
			mon.onDelivery(n, tx, d)
		}
		res := s.Attempt(hs, &xport.Options{Chunks: c08Chunks(r)}, maxWait)
		if res.Verdict != run.Returned {
			c.Cell("stream-not-returned(reported under C05)")
			return
		}
		if failed {
			return
		}
		if res.Panic != "" {
			c.Violation("c08:panic", "Stream panicked: "+res.Panic, witnessOf(scn, h, s, nil))
			return
		}
		if d := run.CompareAll(exp, snaps, true); d != nil {
			key := "c08:later-delivery-corrupted:" + d.Kind
			if pass == 1 {
				key = "c08:second-pass-corrupted:" + d.Kind
			}
			if !scn.Scribble {
				key = "c08:delivery-differs-from-model:" + d.Kind
			}
			c.Violation(key, fmt.Sprintf("hist %d pass %d scribble=%v: %s", scn.Hist, pass, scn.Scribble, d), witnessOf(scn, h, s, nil))
			return
		}
		s.CallError(maxWait)
		s.Leftovers(maxWait)
		if !mon.verifyAll(fmt.Sprintf("after pass %d ended", pass)) {
			return
		}
		for _, d := range snaps {
			for _, e := range d.Events {
				if len(e.Values)+len(e.Idents) > 0 {
					withValues++
					break
				}
			}
		}
	}
	c.Case(core.HashU64(layoutHash(l), uint64(boolInt(scn.Scribble))), withValues >= 2)
	c.Note("values_retained", int64(mon.values))
	c.Note("snapshot_rechecks", mon.checked)
	if scn.Scribble {
		c.Cell("mode:scribble")
	} else {
		c.Cell("mode:observe")
	}
	if c.WantSample() && scn.Scribble {
		c.Sample(map[string]interface{}{"scenario": scn, "units": unitNames(h), "values_retained": mon.values, "rechecks": mon.checked})
	}
}

// walkByteSlices visits every non-empty []byte reachable from v through
// exported struct fields, pointers, slices, arrays, maps and interfaces.
func walkByteSlices(v reflect.Value, path string, seen map[uintptr]bool, visit func(path string, b []byte)) {
	switch v.Kind() {
	case reflect.Ptr:
		if v.IsNil() || seen[v.Pointer()] {
			return
		}
		seen[v.Pointer()] = true
		walkByteSlices(v.Elem(), path, seen, visit)
	case reflect.Interface:
		if !v.IsNil() {
			walkByteSlices(v.Elem(), path, seen, visit)
		}
	case reflect.Struct:
		tp := v.Type()
		for i := 0; i < v.NumField(); i++ {
			if tp.Field(i).PkgPath != "" {
				continue // unexported: the library's own business
			}
			walkByteSlices(v.Field(i), path+"."+tp.Field(i).Name, seen, visit)
		}
	case reflect.Slice:
		if v.IsNil() {
			return
		}
		if v.Type().Elem().Kind() == reflect.Uint8 {
			visit(path, v.Bytes())
			return
		}
		for i := 0; i < v.Len(); i++ {
			walkByteSlices(v.Index(i), fmt.Sprintf("%s[%d]", path, i), seen, visit)
		}
	case reflect.Array:
		if v.Type().Elem().Kind() == reflect.Uint8 {
			return
		}
		for i := 0; i < v.Len(); i++ {
			walkByteSlices(v.Index(i), fmt.Sprintf("%s[%d]", path, i), seen, visit)
		}
	case reflect.Map:
		it := v.MapRange()
		for it.Next() {
			walkByteSlices(it.Value(), fmt.Sprintf("%s[%v]", path, it.Key()), seen, visit)
		}
	}
}

// walkPointers records the address of every non-nil pointer to a struct that
// is reachable from v through exported fields.
func walkPointers(v reflect.Value, path string, out map[uintptr]string) {
	switch v.Kind() {
	case reflect.Ptr:
		if v.IsNil() {
			return
		}
		if _, seen := out[v.Pointer()]; seen {
			return
		}
		if v.Elem().Kind() == reflect.Struct {
			out[v.Pointer()] = path
		}
		walkPointers(v.Elem(), path, out)
	case reflect.Interface:
		if !v.IsNil() {
			walkPointers(v.Elem(), path, out)
		}
	case reflect.Struct:
		tp := v.Type()
		for i := 0; i < v.NumField(); i++ {
			if tp.Field(i).PkgPath != "" {
				continue
			}
			walkPointers(v.Field(i), path+"."+tp.Field(i).Name, out)
		}
	case reflect.Slice, reflect.Array:
		if v.Kind() == reflect.Slice && v.IsNil() {
			return
		}
		if k := v.Type().Elem().Kind(); k != reflect.Ptr && k != reflect.Struct && k != reflect.Interface && k != reflect.Slice {
			return
		}
		for i := 0; i < v.Len(); i++ {
			walkPointers(v.Index(i), fmt.Sprintf("%s[%d]", path, i), out)
		}
	case reflect.Map:
		it := v.MapRange()
		for it.Next() {
			walkPointers(it.Value(), fmt.Sprintf("%s[%v]", path, it.Key()), out)
		}
	}
}
