// Package checks holds one file (or a few) per property; each registers itself
// with core.Register in an init function.
package checks
