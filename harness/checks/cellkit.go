package checks

import (
	"bytes"
	"encoding/hex"
	"encoding/json"
	"fmt"
	"os"

	"github.com/Breeze0806/gobinlog/replication"

	"verifharness/core"
)

// Shared plumbing of the value-decoding checks (C10, C11, C12): every call of
// replication.CellBytes goes through cellCall (guarded), with the encoded
// value embedded between filler bytes so that a decoder reading at the wrong
// offset, or past the value, produces a visibly different result.

// cellOut is what one guarded CellBytes call produced.
type cellOut struct {
	out []byte
	n   int
	err error
	pan string // non-empty: the call panicked (stack attached)
}

func cellCall(buf []byte, pos int, typ byte, meta uint16, unsigned bool) (r cellOut) {
	r.pan = core.Guard(func() {
		r.out, r.n, r.err = replication.CellBytes(buf, pos, typ, meta, unsigned)
	})
	if r.pan == "" && r.err == nil && heldFresh(typ, meta) {
		heldPush(typ, meta, r.out)
	}
	return r
}

// ---- held results: a value handed out by the decoder must not change when
// later values are decoded (shared scratch buffers, caches, pools). Only types
// whose result is freshly formatted text are held; verbatim types return a
// window of the caller's own buffer.

type heldVal struct {
	typ  byte
	meta uint16
	orig []byte
	copy []byte
}

var held struct {
	ring    [8]heldVal
	n       int
	changed []string // findings, drained by heldDrain
}

func heldFresh(typ byte, meta uint16) bool {
	switch typ {
	case replication.TypeTiny, replication.TypeShort, replication.TypeInt24, replication.TypeLong, replication.TypeLongLong,
		replication.TypeFloat, replication.TypeDouble, replication.TypeYear, replication.TypeNewDecimal,
		replication.TypeDate, replication.TypeNewDate, replication.TypeTime, replication.TypeDateTime, replication.TypeTimestamp,
		replication.TypeTime2, replication.TypeDateTime2, replication.TypeTimestamp2, replication.TypeJSON, replication.TypeEnum:
		return true
	case replication.TypeString:
		t := byte(meta >> 8)
		return t == replication.TypeEnum || t == replication.TypeSet
	}
	return false
}

func heldPush(typ byte, meta uint16, out []byte) {
	for i := 0; i < len(held.ring) && i < held.n; i++ {
		h := &held.ring[i]
		if h.orig != nil && !bytes.Equal(h.orig, h.copy) && len(held.changed) < 4 {
			held.changed = append(held.changed, fmt.Sprintf("a value of type %d (meta %d) decoded earlier as %q now reads %q after a later decode of type %d (meta %d)",
				h.typ, h.meta, clip(h.copy), clip(h.orig), typ, meta))
			h.copy = append(h.copy[:0], h.orig...)
		}
	}
	if len(out) == 0 {
		return
	}
	h := &held.ring[held.n%len(held.ring)]
	h.typ, h.meta, h.orig = typ, meta, out
	h.copy = append(h.copy[:0], out...)
	held.n++
}

func clip(b []byte) []byte {
	if len(b) > 80 {
		return b[:80]
	}
	return b
}

// heldReport turns held-result findings into violations (call now and then).
func heldReport(c *core.Ctx) {
	heldPush(0, 0, nil) // verify what is still held
	c.Note("held_results_checked", int64(held.n))
	for _, m := range held.changed {
		c.Violation("value-changed-by-later-decode", m, map[string]string{"finding": m})
	}
	held.changed = nil
}

// cellEmbed returns pre|enc|suf and the position of enc.
func cellEmbed(pre, enc, suf []byte) ([]byte, int) {
	buf := make([]byte, 0, len(pre)+len(enc)+len(suf))
	buf = append(buf, pre...)
	buf = append(buf, enc...)
	buf = append(buf, suf...)
	return buf, len(pre)
}

// cellFiller draws a random non-empty prefix (so pos != 0) and a random suffix.
func cellFiller(r *core.Rng) (pre, suf []byte) {
	return r.Bytes(1 + r.Intn(16)), r.Bytes(r.Intn(9))
}

// cellFixedFiller is the cheap deterministic placement used inside exhaustive
// loops: the prefix length cycles 0..3 with the running index.
var cellFixedPre = [4][]byte{{}, {0xA5}, {0x5A, 0xFF}, {0x00, 0x80, 0x7F}}
var cellFixedSuf = []byte{0xC3, 0x3C}

func cellFixedFiller(i int) (pre, suf []byte) {
	return cellFixedPre[i&3], cellFixedSuf
}

// cellCallInfo is the part of a witness that describes the raw call and its outcome.
type cellCallInfo struct {
	Typ      int    `json:"typ"`
	Meta     int    `json:"metadata"`
	Unsigned bool   `json:"unsigned"`
	Pos      int    `json:"pos"`
	BufHex   string `json:"buf_hex"`
	ValueHex string `json:"value_hex"`
	Got      string `json:"got"`
	GotHex   string `json:"got_hex"`
	GotNil   bool   `json:"got_nil"`
	GotN     int    `json:"got_consumed"`
	Err      string `json:"err,omitempty"`
	Panic    string `json:"panic,omitempty"`
	Want     string `json:"want"`
	WantN    int    `json:"want_consumed"`
}

func cellInfo(buf []byte, pos int, enc []byte, typ byte, meta uint16, unsigned bool, r cellOut, want string) cellCallInfo {
	ci := cellCallInfo{Typ: int(typ), Meta: int(meta), Unsigned: unsigned, Pos: pos,
		BufHex: hex.EncodeToString(buf), ValueHex: hex.EncodeToString(enc),
		Got: string(r.out), GotHex: hex.EncodeToString(r.out), GotNil: r.out == nil, GotN: r.n,
		Want: want, WantN: len(enc)}
	if r.err != nil {
		ci.Err = r.err.Error()
	}
	if r.pan != "" {
		ci.Panic = r.pan
		if len(ci.Panic) > 1500 {
			ci.Panic = ci.Panic[:1500]
		}
	}
	return ci
}

// cellReadWitness loads the "witness" member of a replay file into v.
func cellReadWitness(path string, v interface{}) error {
	b, err := os.ReadFile(path)
	if err != nil {
		return err
	}
	var w struct {
		Witness json.RawMessage `json:"witness"`
	}
	if err := json.Unmarshal(b, &w); err != nil {
		return err
	}
	if len(w.Witness) == 0 {
		return fmt.Errorf("replay file has no witness member")
	}
	return json.Unmarshal(w.Witness, v)
}

func cellUnhex(s string) []byte {
	b, err := hex.DecodeString(s)
	if err != nil {
		return nil
	}
	return b
}

// hashed-case budget per process: sampled cases beyond it are still evaluated
// and counted, but no longer tracked for distinctness (keeps the merge small).
const cellHashBudget = 300000
