package checks

import (
	"encoding/hex"
	"fmt"
	"os"
	"sort"
	"strings"
	"time"

	"verifharness/core"
	"verifharness/enc/val"
)

// C12 — temporal values decode to MySQL's canonical text.
//
// Oracle: a case is a set of logical fields (sign, year … second, microseconds,
// fsp, or epoch seconds). The image comes from the own packers in enc/val
// (written from my_time.c), the expected text is printed from the same logical
// fields; TIMESTAMP text is time.Unix(sec,0).In(loc) with loc loaded from the
// child's TZ variable.

type c12Case struct {
	Kind  string `json:"kind"` // date newdate time-old datetime-old timestamp-old time2 datetime2 timestamp2
	Neg   bool   `json:"neg"`
	Y     int    `json:"year"`
	Mo    int    `json:"month"`
	D     int    `json:"day"`
	H     int    `json:"hour"`
	Mi    int    `json:"minute"`
	S     int    `json:"second"`
	Micro int    `json:"micro"`
	Fsp   int    `json:"fsp"`
	Sec   uint32 `json:"epoch_seconds"`
	Pre   string `json:"prefix_hex"`
	Suf   string `json:"suffix_hex"`
	TZ    string `json:"tz"`

	pre, suf []byte
}

type c12Witness struct {
	Case c12Case      `json:"case"`
	Call cellCallInfo `json:"call"`
}

func init() { core.Register("C12", c12Check) }

var c12Zones = []string{"UTC", "Asia/Shanghai", "America/New_York", "Australia/Lord_Howe", "Asia/Kathmandu"}

type c12Plan struct {
	enc  []byte
	typ  byte
	meta uint16
	want string
}

func c12Build(cs *c12Case, loc *time.Location) c12Plan {
	switch cs.Kind {
	case "date":
		return c12Plan{val.EncDate(cs.Y, cs.Mo, cs.D), val.TypeDate, 0, val.DateText(cs.Y, cs.Mo, cs.D)}
	case "newdate":
		return c12Plan{val.EncDate(cs.Y, cs.Mo, cs.D), val.TypeNewDate, 0, val.DateText(cs.Y, cs.Mo, cs.D)}
	case "time-old":
		return c12Plan{val.EncTimeOld(cs.Neg, cs.H, cs.Mi, cs.S), val.TypeTime, 0, val.TimeText(cs.Neg, cs.H, cs.Mi, cs.S, 0, 0)}
	case "time2":
		return c12Plan{val.EncTime2(cs.Neg, cs.H, cs.Mi, cs.S, cs.Micro, cs.Fsp), val.TypeTime2, uint16(cs.Fsp),
			val.TimeText(cs.Neg, cs.H, cs.Mi, cs.S, cs.Micro, cs.Fsp)}
	case "datetime-old":
		return c12Plan{val.EncDateTimeOld(cs.Y, cs.Mo, cs.D, cs.H, cs.Mi, cs.S), val.TypeDateTime, 0,
			val.DateTimeText(cs.Y, cs.Mo, cs.D, cs.H, cs.Mi, cs.S, 0, 0)}
	case "datetime2":
		return c12Plan{val.EncDateTime2(cs.Y, cs.Mo, cs.D, cs.H, cs.Mi, cs.S, cs.Micro, cs.Fsp), val.TypeDateTime2, uint16(cs.Fsp),
			val.DateTimeText(cs.Y, cs.Mo, cs.D, cs.H, cs.Mi, cs.S, cs.Micro, cs.Fsp)}
	case "timestamp-old":
		return c12Plan{val.EncTimestampOld(cs.Sec), val.TypeTimestamp, 0, val.TimestampText(cs.Sec, 0, 0, loc)}
	case "timestamp2":
		return c12Plan{val.EncTimestamp2(cs.Sec, cs.Micro, cs.Fsp), val.TypeTimestamp2, uint16(cs.Fsp),
			val.TimestampText(cs.Sec, cs.Micro, cs.Fsp, loc)}
	}
	panic("c12: unknown kind " + cs.Kind)
}

func c12FspClass(fsp int) string {
	switch {
	case fsp == 0:
		return "fsp0"
	case fsp%2 == 1:
		return "fsp-odd"
	}
	return "fsp-even"
}

// c12Key names the failure kind: column type + coarse class of the value.
func c12Key(cs *c12Case, pl c12Plan, r cellOut, loc *time.Location) (key, msg string) {
	k := cs.Kind
	switch {
	case r.pan != "":
		return k + "-panic", "CellBytes panicked on a valid " + k + " image"
	case r.err != nil:
		return k + "-error", "CellBytes returned an error for a valid " + k + " image: " + r.err.Error()
	case r.n != len(pl.enc):
		return k + "-consumed-length:" + c12FspClass(cs.Fsp), fmt.Sprintf("%s(fsp %d): consumed %d bytes, the value occupies %d", k, cs.Fsp, r.n, len(pl.enc))
	}
	got, want := string(r.out), pl.want
	if got == want {
		return "", ""
	}
	m := fmt.Sprintf("%s image %x: got %q, want %q", k, pl.enc, got, want)
	if k == "time2" || k == "datetime2" || k == "timestamp2" {
		m = fmt.Sprintf("%s(fsp %d) image %x: got %q, want %q", k, cs.Fsp, pl.enc, got, want)
	}
	fractionOnly := func() bool {
		i := strings.IndexByte(want, '.')
		return i > 0 && len(got) >= i && got[:i] == want[:i]
	}
	switch k {
	case "time-old", "time2":
		if strings.HasPrefix(want, "-") {
			if got == want[1:] {
				return k + "-negative-sign-lost", m
			}
			if strings.HasPrefix(got, "-") && want == "-0"+got[1:] {
				return k + "-negative-hour-width", m
			}
			if fractionOnly() {
				return k + "-negative-fraction-mismatch:" + c12FspClass(cs.Fsp), m
			}
			return k + "-negative-text-mismatch:" + c12FspClass(cs.Fsp), m
		}
		if fractionOnly() {
			return k + "-nonnegative-fraction-mismatch:" + c12FspClass(cs.Fsp), m
		}
		return k + "-nonnegative-text-mismatch:" + c12FspClass(cs.Fsp), m
	case "date", "newdate":
		switch {
		case cs.Y == 0 && cs.Mo == 0 && cs.D == 0:
			return k + "-text-mismatch:zero-date", m
		case cs.Mo == 0 || cs.D == 0:
			return k + "-text-mismatch:zero-month-or-day", m
		}
		return k + "-text-mismatch", m
	case "datetime-old", "datetime2":
		if fractionOnly() {
			return k + "-fraction-mismatch:" + c12FspClass(cs.Fsp), m
		}
		if cs.Y == 0 && cs.Mo == 0 && cs.D == 0 {
			return k + "-text-mismatch:zero-date", m
		}
		return k + "-text-mismatch:" + c12FspClass(cs.Fsp), m
	default: // timestamps
		if cs.Sec == 0 {
			return k + "-zero-text-mismatch:" + c12FspClass(cs.Fsp), m
		}
		if fractionOnly() {
			return k + "-fraction-mismatch:" + c12FspClass(cs.Fsp), m
		}
		if utc := val.TimestampText(cs.Sec, cs.Micro, cs.Fsp, time.UTC); got == utc && utc != want {
			return k + "-rendered-in-utc", m
		}
		return k + "-text-mismatch:" + c12FspClass(cs.Fsp), m
	}
}

func c12Run(c *core.Ctx, cs *c12Case, loc *time.Location) bool {
	pl := c12Build(cs, loc)
	buf, pos := cellEmbed(cs.pre, pl.enc, cs.suf)
	r := cellCall(buf, pos, pl.typ, pl.meta, false)
	key, msg := c12Key(cs, pl, r, loc)
	if key == "" {
		return true
	}
	var w interface{}
	if c.KeyCount(key) == 0 {
		cc := *cs
		cc.Pre, cc.Suf, cc.TZ = hex.EncodeToString(cs.pre), hex.EncodeToString(cs.suf), loc.String()
		w = c12Witness{Case: cc, Call: cellInfo(buf, pos, pl.enc, pl.typ, pl.meta, false, r, pl.want)}
	}
	c.Violation(key, msg, w)
	return false
}

// c12Transitions finds the UTC instants (as epoch seconds within the uint32
// range) at which loc changes its offset, by daily scanning + bisection.
func c12Transitions(loc *time.Location) []uint32 {
	var out []uint32
	off := func(s int64) int {
		_, o := time.Unix(s, 0).In(loc).Zone()
		return o
	}
	const day = 86400
	prev := off(0)
	for s := int64(day); s <= int64(^uint32(0)); s += day {
		cur := off(s)
		if cur != prev {
			lo, hi := s-day, s // off(lo)==prev, off(hi)==cur
			for hi-lo > 1 {
				mid := (lo + hi) / 2
				if off(mid) == prev {
					lo = mid
				} else {
					hi = mid
				}
			}
			out = append(out, uint32(hi))
			prev = cur
		}
	}
	return out
}

type c12State struct {
	c      *core.Ctx
	loc    *time.Location
	chunk  int
	hashed int
	full   bool   // this pass runs the zone-independent enumerations completely
	salt   uint64 // selects this pass's 1/16 subsample otherwise
}

func (st *c12State) mine() bool {
	i := st.chunk
	st.chunk++
	return st.c.Mine(i)
}

// keep decides whether a zone-independent unit (chunk or boundary case) with
// running number i is run in this pass: all of them in the full pass, a
// pass-specific 1/16 elsewhere.
func (st *c12State) keep(i int) bool {
	return st.full || (uint64(i)+st.salt)%16 == 0
}

func (st *c12State) sampled(r *core.Rng, cs c12Case) bool {
	cs.pre, cs.suf = cellFiller(r)
	h := uint64(0)
	us := 0
	if cs.Kind == "time2" || cs.Kind == "datetime2" || cs.Kind == "timestamp2" {
		us = val.TruncMicro(cs.Micro, cs.Fsp)
	}
	if st.hashed < cellHashBudget {
		st.hashed++
		h = core.HashAdd(0, []byte(cs.Kind))
		n := uint64(0)
		if cs.Neg {
			n = 1
		}
		h = core.HashU64(h, uint64(cs.Fsp)<<1|n)
		h = core.HashU64(h, uint64(cs.Y)<<40|uint64(cs.Mo)<<32|uint64(cs.D)<<24|uint64(cs.Mi)<<8|uint64(cs.S))
		h = core.HashU64(h, uint64(cs.H)<<32|uint64(us))
		h = core.HashU64(h, uint64(cs.Sec))
	}
	nontrivial := cs.Y|cs.Mo|cs.D|cs.H|cs.Mi|cs.S|us != 0 || cs.Sec != 0
	st.c.Case(h, nontrivial)
	return c12Run(st.c, &cs, st.loc)
}

var c12Micros = []int{0, 1, 9, 10, 90000, 99999, 100000, 123456, 500000, 654321, 900000, 999999}

func c12MicroSet(fsp int) []int {
	if fsp == 0 {
		return []int{0, 999999}
	}
	seen := map[int]bool{}
	var out []int
	for _, m := range c12Micros {
		t := val.TruncMicro(m, fsp)
		if !seen[t] {
			seen[t] = true
			out = append(out, m)
		}
	}
	return out
}

func c12RandMicro(r *core.Rng) int {
	switch r.Intn(6) {
	case 0:
		return 0
	case 1:
		return r.Intn(1000) // leading zeros in the fraction
	case 2:
		return r.Intn(10) * 100000
	}
	return r.Intn(1000000)
}

func c12Check(c *core.Ctx) {
	c.SetRule("Enumerated by logical value: DATE year 0..9999 × month 0..12 × day 0..31 (every valid 3-byte image), old TIME and TIME2(fsp 0) sign × hour 0..838 × minute × second " +
		"(every valid image; no negative zero) — completely in the tz-utc pass (split over its shards), a pass-specific 1/16 of the chunks in the other zone passes; NEWDATE 1/16 of the DATE domain. " +
		"Wider encodings (old DATETIME, DATETIME2, TIME2 fsp 1..6, old TIMESTAMP, TIMESTAMP2; fsp 0..6): a boundary product (field values at 0/1/9/10/max around every carry × 12 fraction patterns × fsp, " +
		"TIMESTAMP: 0, 1, minute/hour/day carries, 2^31-1, 2^31, 2^32-1 and ±1 s around every offset change of the five zones) plus random instants " +
		"(50 000 quick / 2 000 000 thorough per (type, fsp); zone-independent types 1/8 of that outside the tz-utc pass; TIMESTAMP types in every zone pass). " +
		"Each sampled value sits at a random non-zero offset between random filler bytes; enumerations use offsets 0..3. " +
		"A case is identified by (type, fsp, sign, fields truncated to fsp); non-trivial iff not the all-zero value. " +
		"distinct_nontrivial = enumerated cases + the first 300 000 sampled cases of each process (later sampled cases count as evaluations only).")
	c.Assume("my_time.c packers re-implemented in enc/val (cross-checked there against the byte tables quoted from my_time.c, an independent re-derivation and the order-preservation property)")
	c.Assume("Go's time package and the system zoneinfo database give the civil time of an instant in a zone (shared with the code under test)")

	tzName := os.Getenv("TZ")
	if tzName == "" {
		tzName = "UTC"
	}
	if strings.HasPrefix(c.Pass, "setlocal-") {
		// the process starts in UTC and the program sets time.Local itself, after
		// every package was initialised (the usual `time.Local = ...` in main):
		// "the process's local time zone" is what time.Local is when a value is decoded
		tzName = map[string]string{"setlocal-berlin": "Europe/Berlin"}[c.Pass]
	}
	loc, err := time.LoadLocation(tzName)
	if err != nil {
		c.Inconclusive("cannot load the zone named by TZ=" + tzName + ": " + err.Error())
		return
	}
	if strings.HasPrefix(c.Pass, "setlocal-") {
		time.Local = loc
		c.Cell("time.Local-set-by-the-program-after-start")
	}
	// the process-local zone the library will use must be that zone
	for _, s := range []int64{0, 504921600, 1e9, 1625097600, 1640995200, 4e9} {
		_, o1 := time.Unix(s, 0).In(loc).Zone()
		_, o2 := time.Unix(s, 0).In(time.Local).Zone()
		if o1 != o2 {
			c.Inconclusive(fmt.Sprintf("time.Local (%s) is not the zone of TZ=%s: environment broken", time.Local, tzName))
			return
		}
	}
	if strings.HasPrefix(c.Pass, "tz-") && c.Pass != "tz-utc" && tzName == "UTC" {
		c.Inconclusive("pass " + c.Pass + " runs with TZ=UTC")
		return
	}
	c.Cell("tz=" + time.Local.String())

	if c.Replay != "" {
		var w c12Witness
		if err := cellReadWitness(c.Replay, &w); err != nil {
			c.Inconclusive("cannot read witness: " + err.Error())
			return
		}
		cs := w.Case
		cs.pre, cs.suf = cellUnhex(cs.Pre), cellUnhex(cs.Suf)
		if cs.TZ != "" && cs.TZ != loc.String() && strings.HasPrefix(cs.Kind, "timestamp") {
			c.Inconclusive("witness was recorded under TZ=" + cs.TZ + ", replay runs under " + loc.String())
			return
		}
		c.Case(core.Hash64([]byte(fmt.Sprintf("%+v", cs))), true)
		if c12Run(c, &cs, loc) {
			c.Cell("replay-held")
		}
		return
	}

	st := &c12State{c: c, loc: loc}
	st.full = c.Pass == "tz-utc" || !strings.HasPrefix(c.Pass, "tz-")
	st.salt = core.StrID(c.Pass) % 16
	thorough := !c.Quick()

	// ---------------- enumerations of the 3-byte encodings
	enumDate := func(kind string, y int) {
		n := 0
		for mo := 0; mo <= 12; mo++ {
			for d := 0; d <= 31; d++ {
				cs := c12Case{Kind: kind, Y: y, Mo: mo, D: d}
				cs.pre, cs.suf = cellFixedFiller(n)
				c12Run(c, &cs, loc)
				n++
			}
		}
		nz := int64(n)
		if y == 0 {
			nz--
		}
		c.Bulk(int64(n), nz)
		c.CellN(kind, int64(n))
		if y == 0 {
			c.Cell(kind + ":zero-date")
		}
	}
	for y := 0; y <= 9999; y++ {
		if st.keep(y) && st.mine() {
			c.Log("C12 date year %d", y)
			enumDate("date", y)
		}
	}
	for y := 0; y <= 9999; y++ {
		if (uint64(y)+st.salt)%16 == 0 && st.mine() {
			enumDate("newdate", y)
		}
	}
	for _, kind := range []string{"time-old", "time2"} {
		for sign := 0; sign < 2; sign++ {
			for h := 0; h <= 838; h++ {
				if !(st.keep(sign*839+h) && st.mine()) {
					continue
				}
				c.Log("C12 %s sign %d hour %d", kind, sign, h)
				n := 0
				for mi := 0; mi < 60; mi++ {
					for s := 0; s < 60; s++ {
						if sign == 1 && h == 0 && mi == 0 && s == 0 {
							continue // no negative zero
						}
						cs := c12Case{Kind: kind, Neg: sign == 1, H: h, Mi: mi, S: s}
						cs.pre, cs.suf = cellFixedFiller(n)
						c12Run(c, &cs, loc)
						n++
					}
				}
				nz := int64(n)
				if sign == 0 && h == 0 {
					nz--
				}
				c.Bulk(int64(n), nz)
				sg := "non-negative"
				if sign == 1 {
					sg = "negative"
				}
				c.CellN(kind+":fsp0:"+sg, int64(n))
				if h == 0 {
					c.CellN(kind+":fsp0:"+sg+":zero-hours", int64(n))
				}
				if h >= 100 {
					c.CellN(kind+":fsp0:"+sg+":three-digit-hours", int64(n))
				}
			}
		}
	}
	if st.full {
		c.ExhaustiveDomain("DATE: all 4 160 000 3-byte images with year 0..9999, month 0..12, day 0..31")
		c.ExhaustiveDomain("TIME (pre-5.6.4): all 6 040 799 3-byte images with |hours| <= 838, minutes, seconds < 60 (both signs)")
		c.ExhaustiveDomain("TIME2 fsp 0: all 6 040 799 3-byte images with |hours| <= 838, minutes, seconds < 60 (both signs)")
	}

	// ---------------- boundary products of the wider encodings
	ys := []int{0, 1, 999, 1000, 1969, 1970, 2038, 9999}
	mos := []int{0, 1, 9, 10, 12}
	ds := []int{0, 1, 9, 10, 31}
	hs := []int{0, 1, 9, 10, 23}
	ms := []int{0, 1, 10, 59}
	type dtKind struct {
		kind string
		fsp  int
	}
	dtKinds := []dtKind{{"datetime-old", 0}}
	for f := 0; f <= 6; f++ {
		dtKinds = append(dtKinds, dtKind{"datetime2", f})
	}
	for _, dk := range dtKinds {
		for yi, y := range ys {
			if !st.mine() {
				continue
			}
			c.Log("C12 %s fsp %d boundary year %d", dk.kind, dk.fsp, y)
			r := c.Rng(core.StrID("dt-boundary"), core.StrID(dk.kind), uint64(dk.fsp), uint64(yi), core.StrID(c.Pass))
			micros := c12MicroSet(dk.fsp)
			if dk.kind == "datetime-old" {
				micros = []int{0}
			}
			n := 0
			for _, mo := range mos {
				for _, d := range ds {
					for _, h := range hs {
						for _, mi := range ms {
							for _, s := range ms {
								for _, us := range micros {
									n++
									if !st.keep(n) {
										continue
									}
									st.sampled(r, c12Case{Kind: dk.kind, Fsp: dk.fsp, Y: y, Mo: mo, D: d, H: h, Mi: mi, S: s, Micro: us})
									c.Cell(fmt.Sprintf("%s:fsp%d:boundary", dk.kind, dk.fsp))
								}
							}
						}
					}
				}
			}
		}
	}
	t2h := []int{0, 1, 9, 10, 11, 99, 100, 101, 500, 837, 838}
	t2m := []int{0, 1, 9, 10, 59}
	for fsp := 1; fsp <= 6; fsp++ {
		for sign := 0; sign < 2; sign++ {
			if !st.mine() {
				continue
			}
			r := c.Rng(core.StrID("time2-boundary"), uint64(fsp), uint64(sign), core.StrID(c.Pass))
			n := 0
			for _, h := range t2h {
				for _, mi := range t2m {
					for _, s := range t2m {
						for _, us := range c12MicroSet(fsp) {
							if sign == 1 && h == 0 && mi == 0 && s == 0 && val.TruncMicro(us, fsp) == 0 {
								continue
							}
							n++
							if !st.keep(n) {
								continue
							}
							st.sampled(r, c12Case{Kind: "time2", Fsp: fsp, Neg: sign == 1, H: h, Mi: mi, S: s, Micro: us})
							sg := "non-negative"
							if sign == 1 {
								sg = "negative"
							}
							c.Cell(fmt.Sprintf("time2:fsp%d:%s:boundary", fsp, sg))
							if sign == 1 && h == 0 && mi == 0 && s == 0 {
								c.Cell(fmt.Sprintf("time2:fsp%d:negative:fraction-only", fsp))
							}
						}
					}
				}
			}
		}
	}
	// TIMESTAMP boundaries (every pass: zone dependent)
	secSet := map[uint32]bool{}
	for _, s := range []uint32{0, 1, 2, 59, 60, 61, 3599, 3600, 3601, 86399, 86400, 86401, 1<<31 - 2, 1<<31 - 1, 1 << 31, 1<<31 + 1,
		1<<32 - 2, 1<<32 - 1, 946684799, 946684800, 951782400, 951868799, 1000000000, 1234567890, 1709251199, 1709251200} {
		secSet[s] = true
	}
	edges := 0
	for _, zn := range c12Zones {
		z, err := time.LoadLocation(zn)
		if err != nil {
			continue
		}
		for _, e := range c12Transitions(z) {
			if z.String() == loc.String() {
				edges++
			}
			for d := -1; d <= 1; d++ {
				secSet[uint32(int64(e)+int64(d))] = true
			}
			// one hour before/after covers the repeated / skipped civil hour
			secSet[e-3600] = true
			secSet[e+3599] = true
		}
	}
	c.Note("own_zone_offset_changes:"+loc.String(), 0)
	if c.Shard == 0 {
		c.Note("own_zone_offset_changes:"+loc.String(), int64(edges))
	}
	secs := make([]uint32, 0, len(secSet))
	for s := range secSet {
		secs = append(secs, s)
	}
	sort.Slice(secs, func(i, j int) bool { return secs[i] < secs[j] })
	for fsp := -1; fsp <= 6; fsp++ { // -1: old format
		if !st.mine() {
			continue
		}
		kind, f := "timestamp2", fsp
		if fsp < 0 {
			kind, f = "timestamp-old", 0
		}
		c.Log("C12 %s fsp %d boundaries", kind, f)
		r := c.Rng(core.StrID("ts-boundary"), uint64(fsp+1), core.StrID(c.Pass))
		micros := c12MicroSet(f)
		if fsp < 0 {
			micros = []int{0}
		}
		for _, s := range secs {
			for _, us := range micros {
				if s == 0 && us != 0 {
					continue // the zero timestamp has no fraction
				}
				st.sampled(r, c12Case{Kind: kind, Fsp: f, Sec: s, Micro: us})
				c.Cell(fmt.Sprintf("%s:fsp%d:boundary", kind, f))
				if s == 0 {
					c.Cell(kind + ":zero")
				}
			}
		}
	}

	// ---------------- random instants
	per := c.N(50000, 2000000)
	const chunkSize = 10000
	randKinds := []dtKind{{"datetime-old", 0}, {"timestamp-old", 0}}
	for f := 0; f <= 6; f++ {
		randKinds = append(randKinds, dtKind{"datetime2", f}, dtKind{"timestamp2", f})
		if f > 0 {
			randKinds = append(randKinds, dtKind{"time2", f})
		}
	}
	for _, rk := range randKinds {
		n := per
		zoneDependent := strings.HasPrefix(rk.kind, "timestamp")
		if !zoneDependent && !st.full {
			n = per / 8
		}
		for ch := 0; ch*chunkSize < n; ch++ {
			if !st.mine() {
				continue
			}
			if thorough {
				c.Log("C12 random %s fsp %d chunk %d", rk.kind, rk.fsp, ch)
			}
			r := c.Rng(core.StrID("random"), core.StrID(rk.kind), uint64(rk.fsp), uint64(ch), core.StrID(c.Pass))
			cnt := chunkSize
			if (ch+1)*chunkSize > n {
				cnt = n - ch*chunkSize
			}
			var neg int64
			for k := 0; k < cnt; k++ {
				cs := c12Case{Kind: rk.kind, Fsp: rk.fsp}
				switch rk.kind {
				case "datetime-old", "datetime2":
					if r.Bool() {
						cs.Y = r.Range(1970, 2100)
					} else {
						cs.Y = r.Intn(10000)
					}
					cs.Mo, cs.D = r.Range(1, 12), r.Range(1, 31)
					if r.Chance(1, 20) {
						cs.Mo = 0
					}
					if r.Chance(1, 20) {
						cs.D = 0
					}
					cs.H, cs.Mi, cs.S = r.Intn(24), r.Intn(60), r.Intn(60)
					cs.Micro = c12RandMicro(r)
				case "time2":
					cs.Neg = r.Bool()
					switch r.Intn(4) {
					case 0:
						cs.H = 0
					case 1:
						cs.H = r.Intn(24)
					default:
						cs.H = r.Intn(839)
					}
					cs.Mi, cs.S = r.Intn(60), r.Intn(60)
					if r.Chance(1, 10) {
						cs.Mi, cs.S = 0, 0
					}
					cs.Micro = c12RandMicro(r)
					if cs.H == 0 && cs.Mi == 0 && cs.S == 0 && val.TruncMicro(cs.Micro, cs.Fsp) == 0 {
						cs.Neg = false
					}
					if cs.Neg {
						neg++
					}
				default:
					if r.Bool() {
						cs.Sec = uint32(r.Range(946684800, 1<<31-1))
					} else {
						cs.Sec = r.U32()
					}
					if cs.Sec == 0 {
						cs.Sec = 1
					}
					cs.Micro = c12RandMicro(r)
				}
				if rk.kind == "datetime-old" || rk.kind == "timestamp-old" {
					cs.Micro = 0
				}
				ok := st.sampled(r, cs)
				if ok && k == 0 && c.WantSample() {
					pl := c12Build(&cs, loc)
					c.Sample(map[string]interface{}{"kind": cs.Kind, "fsp": cs.Fsp, "image": hex.EncodeToString(pl.enc), "text": pl.want, "tz": loc.String(), "held": true})
				}
			}
			c.CellN(fmt.Sprintf("%s:fsp%d:random", rk.kind, rk.fsp), int64(cnt))
			if rk.kind == "time2" {
				c.CellN(fmt.Sprintf("time2:fsp%d:negative:random", rk.fsp), neg)
			}
		}
	}
}
