package checks

import (
	"bytes"
	"encoding/hex"
	"fmt"
	"runtime"
	"sync/atomic"
	"syscall"
	"time"

	"github.com/Breeze0806/gobinlog/replication"

	"verifharness/core"
	"verifharness/enc/bjson"
	"verifharness/enc/ev"
	"verifharness/gen"
	"verifharness/hist"
	"verifharness/run"
)

// C09 — rows events are split into exactly the encoded rows and images.
//
// A case is one rows event built with the independent encoder (enc/ev) from
// logical rows whose cells come from the independent value encoders (gen,
// enc/val, enc/bjson). The oracle knows, by construction, every image, every
// NULL bitmap and the byte size of every cell; nothing is learnt by decoding.
// The library sees the event bytes, a BinlogFormat and a TableMap value filled
// in by the harness from exported fields (no table-map parsing involved).
//
// Never generated (documented): an image with zero present columns for
// write/delete events and an update event whose two images are both empty —
// such a row occupies zero bytes, MySQL never logs it, and a parser that walks
// "while bytes remain" cannot make progress on it.

func init() { core.Register("C09", c09Check) }

var rowTypeNames = map[byte]string{
	ev.TDecimal: "decimal-old", ev.TTiny: "tiny", ev.TShort: "short", ev.TLong: "long", ev.TFloat: "float",
	ev.TDouble: "double", ev.TNull: "null", ev.TTimestamp: "timestamp", ev.TLongLong: "longlong", ev.TInt24: "int24",
	ev.TDate: "date", ev.TTime: "time", ev.TDateTime: "datetime", ev.TYear: "year", ev.TNewDate: "newdate",
	ev.TVarchar: "varchar", ev.TBit: "bit", ev.TTimestamp2: "timestamp2", ev.TDateTime2: "datetime2", ev.TTime2: "time2",
	ev.TJSON: "json", ev.TNewDecimal: "newdecimal", ev.TEnum: "enum", ev.TSet: "set", ev.TTinyBlob: "tinyblob",
	ev.TMediumBlob: "mediumblob", ev.TLongBlob: "longblob", ev.TBlob: "blob", ev.TVarString: "varstring",
	ev.TString: "string", ev.TGeometry: "geometry",
}

// rowTypeName names a column type for keys and cells; TypeString columns that
// carry ENUM / SET in their metadata are named apart.
func rowTypeName(t byte, meta uint16) string {
	if t == ev.TString {
		switch byte(meta >> 8) {
		case ev.TEnum:
			return "string-enum"
		case ev.TSet:
			return "string-set"
		}
	}
	if n, ok := rowTypeNames[t]; ok {
		return n
	}
	return fmt.Sprintf("type%d", t)
}

type c09Col struct {
	Type     byte   `json:"type"`
	Meta     uint16 `json:"meta"`
	Unsigned bool   `json:"unsigned"`
}

// c09Img is what the oracle knows about one encoded row image.
type c09Img struct {
	Null  []bool        // over the present columns
	Bytes []byte        // the image
	Sizes []int         // encoder's cell size of every present non-NULL column, in column order
	Texts [][]byte      // expected text of those cells (nil when JSON is set)
	JSON  []*bjson.Node // expected document of JSON cells
}

type c09Row struct{ B, A *c09Img }

// c09Ev is one case.
type c09Ev struct {
	Src     string
	Idx     int
	Cfg     ev.Cfg
	Kind    ev.RowsKind
	TableID uint64
	Flags   uint16
	Extra   []byte
	Cols    []c09Col
	PB, PA  []bool
	Rows    []c09Row
	TS      uint32
	Start   uint32
	PClass  string
	NClass  string
	bytes   []byte
}

var c09KindNames = [3]string{"write", "update", "delete"}

func (e *c09Ev) hasB() bool { return e.Kind != ev.KWrite }
func (e *c09Ev) hasA() bool { return e.Kind != ev.KDelete }

func (e *c09Ev) mode() string {
	switch {
	case e.Cfg.RowsV2:
		return "v2"
	case e.Cfg.TableID4:
		return "v1-id4"
	}
	return "v1-id6"
}

func (e *c09Ev) build() {
	imgs := make([]ev.RowImage, len(e.Rows))
	for i, r := range e.Rows {
		if r.B != nil {
			imgs[i].BeforeNull, imgs[i].Before = r.B.Null, r.B.Bytes
		}
		if r.A != nil {
			imgs[i].AfterNull, imgs[i].After = r.A.Null, r.A.Bytes
		}
	}
	cfg := &e.Cfg
	body := cfg.RowsBody(e.Kind, e.TableID, e.Flags, e.Extra, len(e.Cols), e.PB, e.PA, imgs)
	b := cfg.Event(e.TS, cfg.RowsType(e.Kind), 0, body, e.Start)
	// capacity == length: a read past the end of the event must fault instead of
	// silently landing in spare capacity of the encoder's buffer
	e.bytes = b[:len(b):len(b)]
}

// c09MakeImg lays one image out of per-column values (entries of absent
// columns are ignored).
func c09MakeImg(present []bool, vals []hist.Value) *c09Img {
	img := &c09Img{}
	n := 0
	for i, p := range present {
		if p && !vals[i].Null {
			n += len(vals[i].Enc)
		}
	}
	img.Bytes = make([]byte, 0, n)
	for i, p := range present {
		if !p {
			continue
		}
		v := &vals[i]
		img.Null = append(img.Null, v.Null)
		if v.Null {
			continue
		}
		img.Bytes = append(img.Bytes, v.Enc...)
		img.Sizes = append(img.Sizes, len(v.Enc))
		img.Texts = append(img.Texts, v.Text)
		img.JSON = append(img.JSON, v.JSON)
	}
	return img
}

// ---------------------------------------------------------------- witness

type c09WImg struct {
	Null  []bool   `json:"null_bits"`
	Hex   string   `json:"image_hex"`
	Sizes []int    `json:"cell_sizes"`
	Texts []string `json:"cell_text_hex"`
	JSON  []string `json:"cell_json_text"`
}

type c09WRow struct {
	Before *c09WImg `json:"before,omitempty"`
	After  *c09WImg `json:"after,omitempty"`
}

type c09Witness struct {
	Src           string                 `json:"section"`
	Index         int                    `json:"index"`
	SelfContained bool                   `json:"self_contained"`
	EventHex      string                 `json:"event_hex,omitempty"`
	EventLen      int                    `json:"event_len"`
	RowsV2        bool                   `json:"rows_v2"`
	TableID4      bool                   `json:"table_id_4_bytes"`
	NumTypes      int                    `json:"num_types"`
	ServerVersion string                 `json:"server_version"`
	Kind          int                    `json:"kind"`
	KindName      string                 `json:"kind_name"`
	TableID       uint64                 `json:"table_id"`
	Flags         uint16                 `json:"flags"`
	ExtraHex      string                 `json:"extra_hex"`
	Cols          []c09Col               `json:"columns"`
	PB            []bool                 `json:"present_before,omitempty"`
	PA            []bool                 `json:"present_after,omitempty"`
	Rows          []c09WRow              `json:"rows,omitempty"`
	NRows         int                    `json:"nrows"`
	TS            uint32                 `json:"ts"`
	Start         uint32                 `json:"start"`
	Detail        map[string]interface{} `json:"detail,omitempty"`
}

const c09SelfContainedMax = 192 << 10

func c09WImgOf(im *c09Img) *c09WImg {
	if im == nil {
		return nil
	}
	w := &c09WImg{Null: im.Null, Hex: hex.EncodeToString(im.Bytes), Sizes: im.Sizes}
	for i := range im.Sizes {
		if im.JSON[i] != nil {
			w.Texts = append(w.Texts, "")
			w.JSON = append(w.JSON, string(bjson.Render(im.JSON[i])))
		} else {
			w.Texts = append(w.Texts, hex.EncodeToString(im.Texts[i]))
			w.JSON = append(w.JSON, "")
		}
	}
	return w
}

func c09ImgOfW(w *c09WImg) (*c09Img, error) {
	if w == nil {
		return nil, nil
	}
	b, err := hex.DecodeString(w.Hex)
	if err != nil {
		return nil, err
	}
	im := &c09Img{Null: w.Null, Bytes: b, Sizes: w.Sizes}
	if len(w.Texts) != len(w.Sizes) || len(w.JSON) != len(w.Sizes) {
		return nil, fmt.Errorf("witness image: cell lists of different length")
	}
	for i := range w.Sizes {
		if w.JSON[i] != "" {
			n, err := bjson.ParseLibText([]byte(w.JSON[i]))
			if err != nil {
				return nil, fmt.Errorf("witness image: expected JSON text does not parse: %v", err)
			}
			im.Texts = append(im.Texts, nil)
			im.JSON = append(im.JSON, n)
		} else {
			t, err := hex.DecodeString(w.Texts[i])
			if err != nil {
				return nil, err
			}
			if t == nil {
				t = []byte{}
			}
			im.Texts = append(im.Texts, t)
			im.JSON = append(im.JSON, nil)
		}
	}
	return im, nil
}

func (e *c09Ev) witness(detail map[string]interface{}) *c09Witness {
	w := &c09Witness{Src: e.Src, Index: e.Idx, EventLen: len(e.bytes), RowsV2: e.Cfg.RowsV2, TableID4: e.Cfg.TableID4,
		NumTypes: e.Cfg.NumTypes, ServerVersion: e.Cfg.ServerVersion, Kind: int(e.Kind), KindName: c09KindNames[e.Kind],
		TableID: e.TableID, Flags: e.Flags, ExtraHex: hex.EncodeToString(e.Extra), Cols: e.Cols, PB: e.PB, PA: e.PA,
		NRows: len(e.Rows), TS: e.TS, Start: e.Start, Detail: detail}
	if len(e.Cols) > 400 {
		w.Cols = nil
	}
	if len(e.bytes) <= c09SelfContainedMax {
		w.SelfContained = true
		w.EventHex = hex.EncodeToString(e.bytes)
		for _, r := range e.Rows {
			w.Rows = append(w.Rows, c09WRow{Before: c09WImgOf(r.B), After: c09WImgOf(r.A)})
		}
	}
	return w
}

func c09FromWitness(w *c09Witness) (*c09Ev, error) {
	e := &c09Ev{Src: w.Src, Idx: w.Index, Kind: ev.RowsKind(w.Kind), TableID: w.TableID, Flags: w.Flags, Cols: w.Cols,
		PB: w.PB, PA: w.PA, TS: w.TS, Start: w.Start}
	e.Cfg = ev.Cfg{RowsV2: w.RowsV2, TableID4: w.TableID4, NumTypes: w.NumTypes, ServerVersion: w.ServerVersion, GTIDPostHeader: 42}
	var err error
	if e.Extra, err = hex.DecodeString(w.ExtraHex); err != nil {
		return nil, err
	}
	if e.bytes, err = hex.DecodeString(w.EventHex); err != nil {
		return nil, err
	}
	if w.Kind < 0 || w.Kind > 2 {
		return nil, fmt.Errorf("witness: bad kind %d", w.Kind)
	}
	for _, wr := range w.Rows {
		var r c09Row
		if r.B, err = c09ImgOfW(wr.Before); err != nil {
			return nil, err
		}
		if r.A, err = c09ImgOfW(wr.After); err != nil {
			return nil, err
		}
		e.Rows = append(e.Rows, r)
	}
	return e, nil
}

// ---------------------------------------------------------------- the oracle

func c09Format(cfg *ev.Cfg) replication.BinlogFormat {
	return replication.BinlogFormat{FormatVersion: 4, ServerVersion: cfg.ServerVersion, HeaderLength: 19,
		ChecksumAlgorithm: 0, HeaderSizes: cfg.PostHeaderLens()}
}

func c09TableMap(cols []c09Col) *replication.TableMap {
	tm := &replication.TableMap{Flags: 1, Database: "db", Name: "t", Types: make([]byte, len(cols)),
		Metadata: make([]uint16, len(cols)), CanBeNull: replication.NewServerBitmap(len(cols))}
	for i, c := range cols {
		tm.Types[i] = c.Type
		tm.Metadata[i] = c.Meta
		tm.CanBeNull.Set(i, true)
	}
	return tm
}

func c09Count(b []bool) int {
	n := 0
	for _, v := range b {
		if v {
			n++
		}
	}
	return n
}

func c09Clip(b []byte) string {
	if len(b) > 48 {
		return hex.EncodeToString(b[:48]) + fmt.Sprintf("…(%d bytes)", len(b))
	}
	return hex.EncodeToString(b)
}

// c09HeapLimit bounds the Go heap of the worker while a Rows call is running.
// The largest event of the workload has about 17 MB (and building it leaves
// well under 300 MB of garbage), so a heap beyond this limit means the call
// keeps allocating without consuming input — e.g. a loop that appends rows
// without advancing. Such a call can never be stopped; the check records it,
// stops scheduling cases and returns so that the result file gets written.
const c09HeapLimit = 1 << 30

// c09AddressSpaceLimit caps the worker's address space (plain builds only).
const c09AddressSpaceLimit = 10 << 30

// c09ClassBudget is the number of refuted events per class of cases and process
// after which the class is not scheduled any more.
const c09ClassBudget = 40

var c09Abort atomic.Bool

// c09Bounded runs f (a library call) on its own goroutine under core.Guard and
// waits for it. "runaway" (a violation) depends on the heap size only; the
// ticker merely sets how often the heap is sampled while a call is slow.
// "gaveUp" means the call was still running, within the heap limit, after
// maxWait (the bound the stream checks use): that is never a verdict about the
// library, the caller records it as inconclusive and winds the shard down.
func c09Bounded(f func()) (pan string, runaway, gaveUp bool) {
	done := make(chan struct{})
	go func() {
		defer close(done)
		pan = core.Guard(f)
	}()
	t := time.NewTimer(20 * time.Millisecond)
	defer t.Stop()
	const tick = 5 * time.Millisecond
	for ticks := 0; ; ticks++ {
		select {
		case <-done:
			return pan, false, false
		case <-t.C:
			var ms runtime.MemStats
			runtime.ReadMemStats(&ms)
			if ms.HeapAlloc > c09HeapLimit {
				c09Abort.Store(true)
				return "", true, false
			}
			if time.Duration(ticks)*tick > maxWait {
				c09Abort.Store(true)
				return "", false, true
			}
			t.Reset(tick)
		}
	}
}

// c09Isolated asks the library to split an event that holds nothing but the
// one cell: it reports false when the image comes back with a different size,
// i.e. when the length rule for this column type is itself at fault.
func c09Isolated(e *c09Ev, col c09Col, enc []byte) bool {
	x := &c09Ev{Cfg: e.Cfg, Kind: ev.KWrite, TableID: 77, Cols: []c09Col{col}, PA: []bool{true}, TS: 1, Start: 4,
		Rows: []c09Row{{A: &c09Img{Null: []bool{false}, Bytes: enc}}}}
	x.build()
	ok := false
	pan, runaway, gaveUp := c09Bounded(func() {
		rs, err := replication.NewMysql56BinlogEvent(x.bytes).Rows(c09Format(&x.Cfg), c09TableMap(x.Cols))
		ok = err == nil && len(rs.Rows) == 1 && len(rs.Rows[0].Data) == len(enc)
	})
	return !runaway && !gaveUp && pan == "" && ok
}

type c09Stats struct {
	types [256]int64
	cells int64
	attr  int // attributions (isolated re-decodes) spent by this process
}

// c09AttrBudget bounds the attributions per process.
const c09AttrBudget = 300

// c09Verify runs the library on the event and compares everything the
// property names. It reports whether the case held.
func c09Verify(c *core.Ctx, e *c09Ev, st *c09Stats) bool {
	held := true
	fail := func(key, msg string, detail map[string]interface{}) {
		held = false
		var w interface{}
		if c.KeyCount(key) == 0 {
			w = e.witness(detail)
		}
		c.Violation(key, fmt.Sprintf("%s#%d %s %s ncols=%d rows=%d: %s", e.Src, e.Idx, c09KindNames[e.Kind], e.mode(), len(e.Cols), len(e.Rows), msg), w)
	}
	f := c09Format(&e.Cfg)
	tm := c09TableMap(e.Cols)
	// the library's reader hands every event over in a buffer of exactly its
	// size (capacity = length): a read past the end must not find spare bytes
	exact := make([]byte, len(e.bytes))
	copy(exact, e.bytes)
	event := replication.NewMysql56BinlogEvent(exact)
	ncols := len(e.Cols)
	kind := c09KindNames[e.Kind]

	// table id
	var gotID uint64
	if p := core.Guard(func() { gotID = event.TableID(f) }); p != "" {
		fail("rows-tableid-panic", "TableID panicked: "+firstLine(p), map[string]interface{}{"panic": p})
	} else if gotID != e.TableID {
		fail("rows-tableid", fmt.Sprintf("TableID=%#x, the event carries %#x", gotID, e.TableID), nil)
	}

	curCol := -1
	walkOK := true
	// walk decodes one image column by column the way the streamer does.
	walk := func(side string, img []byte, present func(int) bool, null func(int) bool, exp *c09Img) {
		pos, vi, ci := 0, 0, 0
		for col := 0; col < ncols; col++ {
			if !present(col) {
				continue
			}
			if null(vi) {
				vi++
				continue
			}
			curCol = col
			cc := e.Cols[col]
			data, l, cerr := replication.CellBytes(img, pos, cc.Type, cc.Meta, cc.Unsigned)
			tn := rowTypeName(cc.Type, cc.Meta)
			if cerr != nil {
				walkOK = false
				fail("cell-error:"+tn, fmt.Sprintf("%s image, column %d (%s meta=%d): CellBytes error %v", side, col, tn, cc.Meta, cerr), nil)
				return
			}
			if ci >= len(exp.Sizes) {
				walkOK = false
				fail("cell-walk-sum", fmt.Sprintf("%s image: more cells decoded than encoded", side), nil)
				return
			}
			if l != exp.Sizes[ci] {
				walkOK = false
				fail("cell-consumed:"+tn, fmt.Sprintf("%s image, column %d (%s meta=%d): CellBytes consumed %d bytes, the encoded cell has %d", side, col, tn, cc.Meta, l, exp.Sizes[ci]),
					map[string]interface{}{"column": col, "pos": pos, "got_consumed": l, "want_consumed": exp.Sizes[ci]})
				return
			}
			if exp.JSON[ci] != nil {
				n, perr := bjson.ParseLibText(data)
				if perr != nil {
					fail("cell-text:"+tn, fmt.Sprintf("%s image, column %d: JSON text %q does not parse: %v", side, col, c09ClipS(data), perr), nil)
				} else if ok, why := bjson.Equal(exp.JSON[ci], n); !ok {
					fail("cell-text:"+tn, fmt.Sprintf("%s image, column %d: JSON differs at %s; got %q", side, col, why, c09ClipS(data)), nil)
				}
			} else if data == nil || (!bytes.Equal(data, exp.Texts[ci]) && !((cc.Type == 4 || cc.Type == 5) && run.SameFloat(data, exp.Texts[ci], cc.Type == 4))) {
				fail("cell-text:"+tn, fmt.Sprintf("%s image, column %d (%s meta=%d): decoded %q (nil=%v), want %q", side, col, tn, cc.Meta, c09ClipS(data), data == nil, c09ClipS(exp.Texts[ci])),
					map[string]interface{}{"column": col, "got_hex": c09Clip(data), "want_hex": c09Clip(exp.Texts[ci])})
			}
			if st != nil {
				st.types[cc.Type]++
				st.cells++
			}
			pos += l
			vi++
			ci++
		}
		if pos != len(img) || ci != len(exp.Sizes) {
			walkOK = false
			fail("cell-walk-sum", fmt.Sprintf("%s image: column-by-column decode consumed %d bytes (%d cells) of an image of %d bytes (%d cells)", side, pos, ci, len(img), len(exp.Sizes)), nil)
		}
	}

	// attribute names the column type whose length rule disagrees with the
	// value decoder, when the split of an image went wrong although CellBytes
	// decodes the true image exactly.
	attribute := func(side string, present []bool, exp *c09Img) {
		if c09Abort.Load() {
			return
		}
		if st != nil {
			if st.attr >= c09AttrBudget {
				return
			}
			st.attr++
		}
		// control: if even a one-cell TINYINT event is not split correctly the defect is structural
		if !c09Isolated(e, c09Col{Type: ev.TTiny}, []byte{0x2a}) {
			return
		}
		pos, vi, ci := 0, 0, 0
		seen := map[c09Col]bool{}
		for col := 0; col < ncols; col++ {
			if !present[col] {
				continue
			}
			if exp.Null[vi] {
				vi++
				continue
			}
			cc := e.Cols[col]
			enc := exp.Bytes[pos : pos+exp.Sizes[ci]]
			if !seen[cc] {
				seen[cc] = true
				if !c09Isolated(e, cc, enc) {
					tn := rowTypeName(cc.Type, cc.Meta)
					fail("cell-length-disagrees:"+tn, fmt.Sprintf("%s image, column %d (%s meta=%d): Rows cuts a %d-byte cell at a different length than CellBytes consumes", side, col, tn, cc.Meta, len(enc)),
						map[string]interface{}{"column": col, "cell_hex": c09Clip(enc)})
					return
				}
			}
			pos += exp.Sizes[ci]
			vi++
			ci++
		}
	}

	// attributeFirstRow is the attribution for events on which Rows failed as a
	// whole: if CellBytes decodes the true first row exactly, look for a column
	// type whose isolated cell Rows cannot split.
	attributeFirstRow := func() {
		if len(e.Rows) == 0 || c09Abort.Load() || st != nil && st.attr >= c09AttrBudget {
			return
		}
		for _, sd := range []struct {
			name    string
			present []bool
			exp     *c09Img
		}{{"before", e.PB, e.Rows[0].B}, {"after", e.PA, e.Rows[0].A}} {
			if sd.exp == nil {
				continue
			}
			sd := sd
			walkOK = true
			if core.Guard(func() {
				walk(sd.name, sd.exp.Bytes, func(i int) bool { return sd.present[i] }, func(i int) bool { return sd.exp.Null[i] }, sd.exp)
			}) != "" || !walkOK {
				return
			}
			attribute(sd.name, sd.present, sd.exp)
		}
	}

	var rows replication.Rows
	var err error
	p, runaway, gaveUp := c09Bounded(func() { rows, err = event.Rows(f, tm) })
	if gaveUp {
		c.Inconclusive(fmt.Sprintf("C09 %s#%d: Rows had not returned after %v on an event of %d bytes (heap within bounds); the shard stops here", e.Src, e.Idx, maxWait, len(e.bytes)))
		return false
	}
	if runaway {
		fail("rows-runaway", fmt.Sprintf("Rows did not return on a well-formed event of %d bytes and drove the heap beyond %d MiB (it keeps allocating without consuming the event); the worker stops here", len(e.bytes), c09HeapLimit>>20), nil)
		return false
	}
	if p != "" {
		fail("rows-panic", "Rows panicked on a well-formed event: "+firstLine(p), map[string]interface{}{"panic": p})
		attributeFirstRow()
		return false
	}
	if err != nil {
		fail("rows-error", "Rows returned an error for a well-formed event: "+err.Error(), nil)
		attributeFirstRow()
		return false
	}

	pan := core.Guard(func() {
		if rows.Flags != e.Flags {
			fail("rows-flags", fmt.Sprintf("Flags=%#x, the event carries %#x", rows.Flags, e.Flags), nil)
		}
		bitmapOK := true
		checkPresent := func(name string, bm *replication.Bitmap, want []bool) {
			if bm.Count() != ncols {
				bitmapOK = false
				fail("rows-present-bitmap", fmt.Sprintf("%s.Count()=%d, the event has %d columns", name, bm.Count(), ncols), nil)
				return
			}
			for i, wv := range want {
				if bm.Bit(i) != wv {
					bitmapOK = false
					fail("rows-present-bitmap", fmt.Sprintf("%s.Bit(%d)=%v, encoded %v", name, i, !wv, wv), nil)
					return
				}
			}
			if bm.BitCount() != c09Count(want) {
				bitmapOK = false
				fail("rows-present-bitmap", fmt.Sprintf("%s.BitCount()=%d, %d columns are present", name, bm.BitCount(), c09Count(want)), nil)
			}
		}
		if e.hasB() {
			checkPresent("IdentifyColumns", &rows.IdentifyColumns, e.PB)
		}
		if e.hasA() {
			checkPresent("DataColumns", &rows.DataColumns, e.PA)
		}
		if len(rows.Rows) != len(e.Rows) {
			fail("rows-count", fmt.Sprintf("Rows returned %d rows, %d were encoded", len(rows.Rows), len(e.Rows)), nil)
		}
		n := len(e.Rows)
		if len(rows.Rows) < n {
			n = len(rows.Rows)
		}
		stop := false
		for ri := 0; ri < n && !stop; ri++ {
			got := &rows.Rows[ri]
			side := func(name string, nullBM *replication.Bitmap, img []byte, presentBM *replication.Bitmap, present []bool, exp *c09Img) {
				np := len(exp.Null)
				nullOK := true
				if nullBM.Count() != np {
					nullOK = false
					fail("rows-null-bitmap-count", fmt.Sprintf("row %d %s: NULL bitmap holds %d bits, %d columns are present", ri, name, nullBM.Count(), np), nil)
				} else {
					for i := 0; i < np; i++ {
						if nullBM.Bit(i) != exp.Null[i] {
							nullOK = false
							fail("rows-null-bitmap", fmt.Sprintf("row %d %s: NULL bit %d of %d is %v, encoded %v", ri, name, i, np, !exp.Null[i], exp.Null[i]), nil)
							break
						}
					}
				}
				imgOK := bytes.Equal(img, exp.Bytes)
				if !imgOK {
					fail("rows-image-bytes:"+kind, fmt.Sprintf("row %d %s image: got %d bytes %s, encoded %d bytes %s", ri, name, len(img), c09Clip(img), len(exp.Bytes), c09Clip(exp.Bytes)),
						map[string]interface{}{"row": ri, "side": name, "got_len": len(img), "want_len": len(exp.Bytes)})
				}
				if !imgOK || !nullOK {
					stop = true // the rows that follow were cut at the wrong places
				}
				if imgOK && nullOK && bitmapOK {
					// the streamer's path: the library's own slices and bitmaps
					walk(name, img, presentBM.Bit, nullBM.Bit, exp)
					// decoding the cells must leave the image as the master encoded it
					if !bytes.Equal(img, exp.Bytes) {
						fail("rows-image-changed-by-decoding:"+kind, fmt.Sprintf("row %d %s image: after its cells were decoded the image is %s, encoded %s", ri, name, c09Clip(img), c09Clip(exp.Bytes)),
							map[string]interface{}{"row": ri, "side": name})
					}
					return
				}
				// attribution: does the value decoder at least agree with the encoder on the true image?
				walkOK = true
				walk(name, exp.Bytes, func(i int) bool { return present[i] }, func(i int) bool { return exp.Null[i] }, exp)
				if walkOK && !imgOK {
					attribute(name, present, exp)
				}
			}
			if e.hasB() {
				side("before", &got.NullIdentifyColumns, got.Identify, &rows.IdentifyColumns, e.PB, e.Rows[ri].B)
			}
			if e.hasA() && !stop {
				side("after", &got.NullColumns, got.Data, &rows.DataColumns, e.PA, e.Rows[ri].A)
			}
		}
	})
	if pan != "" {
		key := "rows-accessor-panic"
		if curCol >= 0 && curCol < ncols {
			key = "cell-panic:" + rowTypeName(e.Cols[curCol].Type, e.Cols[curCol].Meta)
		}
		fail(key, "panic while reading the result of Rows / decoding a cell: "+firstLine(pan), map[string]interface{}{"panic": pan, "column": curCol})
	}
	return held
}

func c09ClipS(b []byte) string {
	if len(b) > 80 {
		return string(b[:80]) + "…"
	}
	return string(b)
}

// ---------------------------------------------------------------- generators

var c09Modes = [3]struct {
	v2, id4 bool
}{{false, false}, {false, true}, {true, false}}

var c09Versions = [3]struct {
	sv string
	nt int
}{{"5.6.51-log", 35}, {"5.7.44-log", 38}, {"8.0.36", 41}}

var c09ExtraLens = [5]int{0, 1, 8, 253, 998}

func c09Cfg(mode int, ver int) ev.Cfg {
	return ev.Cfg{RowsV2: c09Modes[mode].v2, TableID4: c09Modes[mode].id4, Checksum: false,
		NumTypes: c09Versions[ver].nt, ServerVersion: c09Versions[ver].sv, GTIDPostHeader: 42, ServerID: 1,
		PadOnes: (mode+ver)%2 == 1}
}

// c09TableID draws a table id whose bytes are pairwise distinct and non-zero
// (so that a dropped or swapped byte shows).
func c09TableID(r *core.Rng, id4 bool) uint64 {
	n := 6
	if id4 {
		n = 4
	}
	p := r.Perm(255)
	var id uint64
	for i := 0; i < n; i++ {
		id |= uint64(p[i]+1) << (8 * uint(i))
	}
	return id
}

func c09Flags(r *core.Rng) uint16 {
	if r.Chance(1, 8) {
		return uint16(r.U32())
	}
	return uint16(r.Intn(16))
}

// c09Frame fills in the parts of an event that do not depend on the rows.
func c09Frame(r *core.Rng, e *c09Ev, mode int, extraSel int) {
	e.Cfg = c09Cfg(mode, r.Intn(3))
	e.TableID = c09TableID(r, e.Cfg.TableID4)
	e.Flags = c09Flags(r)
	e.TS = r.U32()
	e.Start = uint32(4 + r.Intn(1<<30))
	if e.Cfg.RowsV2 && extraSel >= 0 {
		e.Extra = r.Bytes(c09ExtraLens[extraSel%len(c09ExtraLens)])
	}
}

var c09Pool = func() []byte { return core.NewRng(0xC09, 1).Bytes(1 << 17) }()

// c09Bytes returns n bytes of arbitrary content (a window of a fixed pool).
func c09Bytes(r *core.Rng, n int) []byte {
	if n <= len(c09Pool)/2 {
		off := r.Intn(len(c09Pool) - n + 1)
		return c09Pool[off : off+n]
	}
	b := make([]byte, n)
	for i := 0; i < n; i += len(c09Pool) {
		copy(b[i:], c09Pool)
	}
	return b
}

func c09LenPrefix(n, w int) []byte {
	b := make([]byte, w, w+n)
	for i := 0; i < w; i++ {
		b[i] = byte(n >> (8 * uint(i)))
	}
	return b
}

// c09StrValue is a length-prefixed value of n bytes; the prefix has 2 bytes iff
// the declared maximum exceeds 255.
func c09StrValue(r *core.Rng, declared, n int) hist.Value {
	w := 1
	if declared > 255 {
		w = 2
	}
	enc := append(c09LenPrefix(n, w), c09Bytes(r, n)...)
	return hist.Value{Enc: enc, Text: enc[w:]}
}

func c09BlobValue(r *core.Rng, w, n int) hist.Value {
	enc := append(c09LenPrefix(n, w), c09Bytes(r, n)...)
	return hist.Value{Enc: enc, Text: enc[w:]}
}

func c09BlobCap(w int) int {
	switch w {
	case 1:
		return 255
	case 2:
		return 65535
	case 3:
		return 1<<24 - 1
	}
	return 1<<31 - 1
}

// c09JSONValue draws a JSON value whose binary form fits w length bytes.
func c09JSONValue(r *core.Rng, w int, big int) hist.Value {
	if big > 0 {
		s := make([]byte, big)
		for i := range s {
			s[i] = byte('a' + (i*7+big)%26)
		}
		doc := &bjson.Node{Kind: bjson.KString, S: s}
		if b, err := bjson.Encode(doc, false); err == nil && len(b) <= c09BlobCap(w) {
			return hist.Value{Enc: append(c09LenPrefix(len(b), w), b...), JSON: doc}
		}
	}
	for try := 0; try < 8; try++ {
		v := gen.RandValue(r, hist.Column{Type: ev.TJSON, Meta: uint16(w)}, time.Local)
		if len(v.Enc)-w <= c09BlobCap(w) {
			return v
		}
	}
	doc := &bjson.Node{Kind: bjson.KNull}
	b, _ := bjson.Encode(doc, false)
	return hist.Value{Enc: append(c09LenPrefix(len(b), w), b...), JSON: doc}
}

func c09Declared(c c09Col) int {
	if c.Type == ev.TString {
		return int((((c.Meta >> 4) & 0x300) ^ 0x300) + (c.Meta & 0xff))
	}
	return int(c.Meta)
}

// c09Value draws a non-NULL value for the column from the general generators.
func c09Value(r *core.Rng, col c09Col) hist.Value {
	if col.Type == ev.TJSON {
		return c09JSONValue(r, int(col.Meta), 0)
	}
	return gen.RandValue(r, hist.Column{Type: col.Type, Meta: col.Meta, Unsigned: col.Unsigned}, time.Local)
}

func c09RandCol(r *core.Rng) c09Col {
	t := gen.PickType(r)
	col := c09Col{Type: t, Meta: gen.RandMeta(r, t, r.Chance(1, 6))}
	if gen.IsInt(t) {
		col.Unsigned = r.Bool()
	}
	return col
}

// presence / NULL pattern classes (true = present, resp. true = NULL)
var c09PresentClasses = []string{"all", "even", "odd", "random", "first-only", "last-only", "byte-edges-absent", "byte-edges-only", "single"}
var c09NullClasses = []string{"none", "all", "even", "odd", "random", "first-bit-of-last-byte", "last-bit", "byte-edges"}

func c09Pattern(r *core.Rng, n int, class string) []bool {
	p := make([]bool, n)
	if n == 0 {
		return p
	}
	edge := func(i int) bool { return i%8 == 7 || i%8 == 0 && i > 0 || i == n-1 }
	for i := range p {
		switch class {
		case "all":
			p[i] = true
		case "even":
			p[i] = i%2 == 0
		case "odd":
			p[i] = i%2 == 1
		case "random":
			p[i] = r.Bool()
		case "first-only":
			p[i] = i == 0
		case "last-only", "last-bit":
			p[i] = i == n-1
		case "byte-edges-absent":
			p[i] = !edge(i)
		case "byte-edges-only", "byte-edges":
			p[i] = edge(i)
		case "first-bit-of-last-byte":
			p[i] = i == (n-1)/8*8
		}
	}
	if class == "single" {
		p[r.Intn(n)] = true
	}
	return p
}

// c09Present is a presence pattern with at least one column present.
func c09Present(r *core.Rng, n int, class string) []bool {
	p := c09Pattern(r, n, class)
	if c09Count(p) == 0 {
		p[r.Intn(n)] = true
	}
	return p
}

// c09RowsFromPool builds nrows rows: every column has a small pool of values,
// every row draws its NULL pattern from the class (rotating through the
// classes row by row when rotate is set).
func c09RowsFromPool(r *core.Rng, e *c09Ev, nrows int, nullClass int, rotate bool) {
	ncols := len(e.Cols)
	const poolN = 2
	pool := make([][poolN]hist.Value, ncols)
	have := make([]bool, ncols)
	vals := make([]hist.Value, ncols)
	mk := func(present []bool, row int) *c09Img {
		np := c09Count(present)
		cl := nullClass
		if rotate {
			cl = (nullClass + row) % len(c09NullClasses)
		}
		nulls := c09Pattern(r, np, c09NullClasses[cl])
		vi := 0
		for col := 0; col < ncols; col++ {
			if !present[col] {
				continue
			}
			if nulls[vi] {
				vals[col] = hist.Value{Null: true}
			} else {
				if !have[col] {
					have[col] = true
					for k := 0; k < poolN; k++ {
						pool[col][k] = c09Value(r, e.Cols[col])
					}
				}
				vals[col] = pool[col][r.Intn(poolN)]
			}
			vi++
		}
		return c09MakeImg(present, vals)
	}
	for i := 0; i < nrows; i++ {
		var row c09Row
		if e.hasB() {
			row.B = mk(e.PB, i)
		}
		if e.hasA() {
			row.A = mk(e.PA, i+3)
		}
		e.Rows = append(e.Rows, row)
	}
}

// ---- section "sweep": every type x its whole metadata domain

type c09SweepItem struct {
	name  string
	cols  []c09Col
	maker int // 0 general generator, 1 string length classes, 2 blob length classes, 3 one huge blob
	rows  int
	huge  int
}

func c09SweepItems(c *core.Ctx) []c09SweepItem {
	var out []c09SweepItem
	k := c.N(8, 4)
	for _, t := range []byte{ev.TVarchar, ev.TVarString} {
		for m := 0; m < 65536; m += k {
			it := c09SweepItem{name: rowTypeNames[t], maker: 1, rows: 4}
			for j := 0; j < k; j++ {
				it.cols = append(it.cols, c09Col{Type: t, Meta: uint16(m + j)})
			}
			out = append(out, it)
		}
	}
	for m := 0; m < 1024; m += 4 {
		it := c09SweepItem{name: "string", maker: 1, rows: 4}
		for j := 0; j < 4; j++ {
			it.cols = append(it.cols, c09Col{Type: ev.TString, Meta: gen.StringMeta(ev.TString, m+j)})
		}
		out = append(out, it)
	}
	reps := c.N(4, 40)
	group := func(name string, cols []c09Col, rows int) {
		for i := 0; i < reps; i++ {
			out = append(out, c09SweepItem{name: name, cols: cols, rows: rows})
		}
	}
	var es, ss, eb, sb []c09Col
	for w := 1; w <= 2; w++ {
		es = append(es, c09Col{Type: ev.TString, Meta: uint16(ev.TEnum)<<8 | uint16(w)})
		eb = append(eb, c09Col{Type: ev.TEnum, Meta: uint16(ev.TEnum)<<8 | uint16(w)})
	}
	for w := 1; w <= 8; w++ {
		ss = append(ss, c09Col{Type: ev.TString, Meta: uint16(ev.TSet)<<8 | uint16(w)})
		sb = append(sb, c09Col{Type: ev.TSet, Meta: uint16(ev.TSet)<<8 | uint16(w)})
	}
	group("string-enum", es, 6)
	group("string-set", ss, 6)
	group("enum", eb, 6)
	group("set", sb, 6)
	// DECIMAL: all valid (p,s), 10 per table
	var dec []c09Col
	for p := 1; p <= 65; p++ {
		for s := 0; s <= p && s <= 30; s++ {
			dec = append(dec, c09Col{Type: ev.TNewDecimal, Meta: uint16(p)<<8 | uint16(s)})
		}
	}
	for i := 0; i < len(dec); i += 10 {
		j := i + 10
		if j > len(dec) {
			j = len(dec)
		}
		out = append(out, c09SweepItem{name: "newdecimal", cols: dec[i:j], rows: 4})
	}
	for _, t := range []byte{ev.TTimestamp2, ev.TDateTime2, ev.TTime2} {
		var cols []c09Col
		for fsp := 0; fsp <= 6; fsp++ {
			cols = append(cols, c09Col{Type: t, Meta: uint16(fsp)})
		}
		group(rowTypeNames[t], cols, 6)
	}
	for b0 := 1; b0 <= 64; b0 += 8 {
		var cols []c09Col
		for bits := b0; bits < b0+8; bits++ {
			cols = append(cols, c09Col{Type: ev.TBit, Meta: uint16(bits/8)<<8 | uint16(bits%8)})
		}
		group("bit", cols, 4)
	}
	for _, t := range []byte{ev.TTinyBlob, ev.TMediumBlob, ev.TLongBlob, ev.TBlob, ev.TGeometry, ev.TJSON} {
		var cols []c09Col
		for w := 1; w <= 4; w++ {
			cols = append(cols, c09Col{Type: t, Meta: uint16(w)})
		}
		for i := 0; i < reps; i++ {
			out = append(out, c09SweepItem{name: rowTypeNames[t], cols: cols, maker: 2, rows: 7})
		}
		if t != ev.TJSON {
			// a length that needs the third, and one that needs the fourth length byte
			out = append(out, c09SweepItem{name: rowTypeNames[t], cols: cols[2:3], maker: 3, rows: 1, huge: 1<<24 - 1})
			out = append(out, c09SweepItem{name: rowTypeNames[t], cols: cols[3:4], maker: 3, rows: 1, huge: 1<<24 + 5})
			// lengths whose low 16 bits are about to carry into the third
			// length byte (2^16*k - 3 .. 2^16*k, k odd and even)
			for _, l := range []int{131069, 131070, 131071, 131072, 196605, 196607, 262143} {
				out = append(out, c09SweepItem{name: rowTypeNames[t], cols: cols[2:3], maker: 3, rows: 2, huge: l})
				out = append(out, c09SweepItem{name: rowTypeNames[t], cols: cols[3:4], maker: 3, rows: 2, huge: l})
			}
		}
	}
	var fixed []c09Col
	for _, t := range []byte{ev.TTiny, ev.TShort, ev.TInt24, ev.TLong, ev.TLongLong} {
		fixed = append(fixed, c09Col{Type: t}, c09Col{Type: t, Unsigned: true})
	}
	for _, t := range []byte{ev.TFloat, ev.TDouble} {
		fixed = append(fixed, c09Col{Type: t, Meta: map[byte]uint16{ev.TFloat: 4, ev.TDouble: 8}[t]})
	}
	for _, t := range []byte{ev.TYear, ev.TTimestamp, ev.TDate, ev.TTime, ev.TDateTime, ev.TNewDate} {
		fixed = append(fixed, c09Col{Type: t})
	}
	group("fixed-size", fixed, 6)
	return out
}

// c09SweepVariants is the number of (kind, mode) variants every sweep item is run in.
func c09SweepVariants(c *core.Ctx, it *c09SweepItem) int {
	if it.maker == 3 {
		return 1
	}
	if it.maker == 1 && it.cols[0].Type != ev.TString && c.Quick() {
		return 1
	}
	return 9
}

var c09BlobLens = []int{0, 1, 255, 256, 65535, 65536, 70000}

func c09GenSweep(c *core.Ctx, items []c09SweepItem, item, variant, idx int) *c09Ev {
	it := &items[item]
	r := c.Rng(core.StrID("c09sweep"), uint64(idx))
	e := &c09Ev{Src: "sweep", Idx: idx, Cols: it.cols, PClass: "all", NClass: "none"}
	v := variant
	if c09SweepVariants(c, it) == 1 {
		v = (item + item/3) % 9
	}
	e.Kind = ev.RowsKind((v + item) % 3)
	mode := (v / 3) % 3
	if it.maker == 3 {
		e.Kind, mode = ev.KWrite, 2
	}
	c09Frame(r, e, mode, r.Intn(5))
	n := len(it.cols)
	full := c09Pattern(r, n, "all")
	if e.hasB() {
		e.PB = full
	}
	if e.hasA() {
		e.PA = full
	}
	// in update events the after image additionally varies presence and NULLs
	partialAfter := e.Kind == ev.KUpdate
	if partialAfter && r.Bool() {
		e.PA = c09Present(r, n, "random")
		e.PClass = "random"
	}
	vals := make([]hist.Value, n)
	for row := 0; row < it.rows; row++ {
		mk := func(shift int, nulls bool) []hist.Value {
			for j, col := range it.cols {
				switch it.maker {
				case 1:
					d := c09Declared(col)
					cls := []int{0, 1, 255, d}[(row+j+shift)%4]
					if cls > d {
						cls = d
					}
					vals[j] = c09StrValue(r, d, cls)
				case 2:
					w := int(col.Meta)
					l := c09BlobLens[(row+j+shift)%len(c09BlobLens)]
					if l > c09BlobCap(w) {
						l = []int{0, 1, 255}[(row+shift)%3]
					}
					if col.Type == ev.TJSON {
						big := 0
						if l >= 255 {
							big = l - 8
						}
						vals[j] = c09JSONValue(r, w, big)
					} else {
						vals[j] = c09BlobValue(r, w, l)
					}
				case 3:
					vals[j] = c09BlobValue(r, int(col.Meta), it.huge)
				default:
					vals[j] = c09Value(r, col)
				}
				if nulls && r.Chance(1, 4) {
					vals[j] = hist.Value{Null: true}
					e.NClass = "random"
				}
			}
			return vals
		}
		var rw c09Row
		if e.hasB() {
			rw.B = c09MakeImg(e.PB, mk(0, false))
		}
		if e.hasA() {
			rw.A = c09MakeImg(e.PA, mk(2, partialAfter))
		}
		e.Rows = append(e.Rows, rw)
	}
	e.build()
	return e
}

// ---- section "bits": all presence x NULL bitmaps of small tables

type c09BitsSpec struct {
	mode, kind, n int
	pb, pa        int // masks
}

func c09BitsSpecs() []c09BitsSpec {
	var out []c09BitsSpec
	for mode := 0; mode < 3; mode++ {
		for n := 1; n <= 6; n++ {
			for p := 1; p < 1<<uint(n); p++ {
				out = append(out, c09BitsSpec{mode, int(ev.KWrite), n, 0, p})
				out = append(out, c09BitsSpec{mode, int(ev.KDelete), n, p, 0})
			}
			for pb := 0; pb < 1<<uint(n); pb++ {
				for pa := 0; pa < 1<<uint(n); pa++ {
					if pb|pa == 0 {
						continue
					}
					out = append(out, c09BitsSpec{mode, int(ev.KUpdate), n, pb, pa})
				}
			}
		}
	}
	return out
}

func c09MaskBools(mask, n int) []bool {
	b := make([]bool, n)
	for i := range b {
		b[i] = mask>>uint(i)&1 == 1
	}
	return b
}

func c09GenBits(c *core.Ctx, specs []c09BitsSpec, idx int) *c09Ev {
	sp := specs[idx]
	r := c.Rng(core.StrID("c09bits"), uint64(idx))
	e := &c09Ev{Src: "bits", Idx: idx, Kind: ev.RowsKind(sp.kind), PClass: "exhaustive", NClass: "exhaustive"}
	c09Frame(r, e, sp.mode, r.Intn(5))
	e.Cols = make([]c09Col, sp.n)
	pool := make([][2]hist.Value, sp.n)
	for i := range e.Cols {
		e.Cols[i] = c09RandCol(r)
		pool[i] = [2]hist.Value{c09Value(r, e.Cols[i]), c09Value(r, e.Cols[i])}
	}
	if e.hasB() {
		e.PB = c09MaskBools(sp.pb, sp.n)
	}
	if e.hasA() {
		e.PA = c09MaskBools(sp.pa, sp.n)
	}
	nb, na := c09Count(e.PB), c09Count(e.PA)
	vals := make([]hist.Value, sp.n)
	img := func(present []bool, nullMask int) *c09Img {
		vi := 0
		for col := range vals {
			if !present[col] {
				continue
			}
			if nullMask>>uint(vi)&1 == 1 {
				vals[col] = hist.Value{Null: true}
			} else {
				vals[col] = pool[col][r.Intn(2)]
			}
			vi++
		}
		return c09MakeImg(present, vals)
	}
	for mb := 0; mb < 1<<uint(nb); mb++ {
		for ma := 0; ma < 1<<uint(na); ma++ {
			var rw c09Row
			if e.hasB() {
				rw.B = img(e.PB, mb)
			}
			if e.hasA() {
				rw.A = img(e.PA, ma)
			}
			e.Rows = append(e.Rows, rw)
		}
	}
	e.build()
	return e
}

// ---- section "struct": structured bitmap classes on wider tables

var c09WideCounts = []int{7, 8, 9, 10, 11, 12, 13, 14, 15, 16, 17, 18, 19, 20, 63, 64, 65, 250, 251, 252, 300}

func c09StructCount() int {
	return len(c09WideCounts) * len(c09PresentClasses) * len(c09NullClasses) * 9
}

func c09GenStruct(c *core.Ctx, rep, idx int) *c09Ev {
	x := idx
	v := x % 9
	x /= 9
	nc := x % len(c09NullClasses)
	x /= len(c09NullClasses)
	pc := x % len(c09PresentClasses)
	x /= len(c09PresentClasses)
	n := c09WideCounts[x%len(c09WideCounts)]
	r := c.Rng(core.StrID("c09struct"), uint64(rep), uint64(idx))
	e := &c09Ev{Src: "struct", Idx: rep*c09StructCount() + idx, Kind: ev.RowsKind(v % 3), PClass: c09PresentClasses[pc], NClass: c09NullClasses[nc]}
	c09Frame(r, e, v/3, idx+rep)
	e.Cols = make([]c09Col, n)
	for i := range e.Cols {
		e.Cols[i] = c09RandCol(r)
	}
	if e.hasB() {
		e.PB = c09Present(r, n, c09PresentClasses[pc])
	}
	if e.hasA() {
		q := pc
		if e.hasB() {
			q = (pc + 1 + rep) % len(c09PresentClasses)
		}
		e.PA = c09Present(r, n, c09PresentClasses[q])
	}
	nrows := (idx/9 + rep) % 4
	c09RowsFromPool(r, e, nrows, nc, false)
	e.build()
	return e
}

// ---- section "random"

func c09GenRandom(c *core.Ctx, idx int) *c09Ev {
	r := c.Rng(core.StrID("c09random"), uint64(idx))
	var n int
	switch x := r.Intn(100); {
	case x < 84:
		n = 1 + r.Intn(20)
	case x < 94:
		n = 63 + r.Intn(3)
	case x < 98:
		n = 250 + r.Intn(3)
	default:
		n = 300
	}
	e := &c09Ev{Src: "random", Idx: idx, Kind: ev.RowsKind(r.Intn(3))}
	extra := 0
	if r.Bool() {
		extra = r.Intn(5)
	}
	c09Frame(r, e, r.Intn(3), extra)
	e.Cols = make([]c09Col, n)
	if r.Chance(1, 5) {
		one := c09RandCol(r)
		for i := range e.Cols {
			e.Cols[i] = one
		}
	} else {
		for i := range e.Cols {
			e.Cols[i] = c09RandCol(r)
		}
	}
	pc := r.Intn(len(c09PresentClasses))
	if r.Bool() {
		pc = 0
	}
	e.PClass = c09PresentClasses[pc]
	if e.hasB() {
		e.PB = c09Present(r, n, c09PresentClasses[pc])
	}
	if e.hasA() {
		q := pc
		if e.hasB() && r.Bool() {
			q = r.Intn(len(c09PresentClasses))
		}
		e.PA = c09Present(r, n, c09PresentClasses[q])
	}
	nc := r.Intn(len(c09NullClasses))
	e.NClass = c09NullClasses[nc]
	maxRows := 5
	if n > 100 {
		maxRows = 2
	}
	c09RowsFromPool(r, e, r.Intn(maxRows+1), nc, r.Bool())
	e.build()
	return e
}

// ---------------------------------------------------------------- driver

func c09NonTrivial(e *c09Ev) bool {
	for _, r := range e.Rows {
		if r.B != nil && len(r.B.Sizes) > 0 || r.A != nil && len(r.A.Sizes) > 0 {
			return true
		}
	}
	return false
}

func c09ColBucket(n int) string {
	switch {
	case n <= 20:
		return fmt.Sprintf("%02d", n)
	}
	return fmt.Sprintf("%d", n)
}

func c09Account(c *core.Ctx, e *c09Ev, bulk bool) {
	c.Cell("kind=" + c09KindNames[e.Kind])
	c.Cell("rows-format=" + e.mode())
	c.Cell("section=" + e.Src)
	c.Cell("ncols=" + c09ColBucket(len(e.Cols)))
	c.Cell("present-class=" + e.PClass)
	c.Cell("null-class=" + e.NClass)
	c.Cell("post-header-table=" + fmt.Sprint(e.Cfg.NumTypes))
	if e.Cfg.RowsV2 {
		c.Cell(fmt.Sprintf("v2-extra-len=%d", len(e.Extra)))
	}
	switch n := len(e.Rows); {
	case n == 0:
		c.Cell("nrows=0")
	case n == 1:
		c.Cell("nrows=1")
	case n <= 5:
		c.Cell("nrows=2..5")
	case n <= 64:
		c.Cell("nrows=6..64")
	default:
		c.Cell("nrows>64")
	}
	c.Note("rows_compared", int64(len(e.Rows)))
	c.Note("event_bytes", int64(len(e.bytes)))
	if !bulk {
		h := e.bytes
		if len(h) > 4096 {
			h = h[:4096]
		}
		c.Case(core.HashU64(core.Hash64(h), uint64(len(e.bytes))), c09NonTrivial(e))
	}
}

func c09Sample(c *core.Ctx, e *c09Ev, held bool) {
	if !held || !c.WantSample() || len(e.bytes) > 400 || len(e.Rows) < 2 || len(e.Cols) < 3 {
		return
	}
	c.Sample(map[string]interface{}{"section": e.Src, "index": e.Idx, "kind": c09KindNames[e.Kind], "format": e.mode(),
		"columns": e.Cols, "present_before": e.PB, "present_after": e.PA, "rows": len(e.Rows), "event_hex": hex.EncodeToString(e.bytes), "held": true})
}

func c09Check(c *core.Ctx) {
	c.SetRule("A case is one rows event written by the independent encoder and decoded with Rows(format, tableMap) (format and table map filled in by the harness from exported fields), " +
		"then every image is walked with CellBytes the way the streamer does. Sections: 'sweep' enumerates each column type over its whole metadata domain in single-type tables " +
		"(VARCHAR and VAR_STRING max 0..65535 and CHAR/BINARY 0..1023 with actual lengths {0,1,min(max,255),max}; ENUM 1..2 and SET 1..8 inside TypeString and bare; all 1580 DECIMAL (p,s); " +
		"fsp 0..6 of TIMESTAMP2/DATETIME2/TIME2; BIT 1..64; blob family, GEOMETRY and JSON with 1..4 length bytes and lengths {0,1,255,256,65535,65536,70000} plus one 2^24-1 and one 2^24+5 byte value and, for 3 and 4 length bytes, {131069..131072, 196605, 196607, 262143} (low 16 bits about to carry); the fixed-size types), " +
		"each in the 9 variants {write,update,delete}x{v1 6-byte id, v1 4-byte id, v2} (quick: the 65536-value VARCHAR/VAR_STRING sweeps in one rotating variant, 8 declared lengths per event; thorough: all 9, 4 per event); " +
		"'bits' enumerates for 1..6 columns every presence bitmap x every NULL bitmap (write/delete: every non-empty presence with all NULL patterns as the rows of one event; update: every (before,after) presence pair except both empty with all pairs of NULL patterns as rows) x the 3 formats; " +
		"'struct' crosses column counts {7..20,63,64,65,250,251,252,300} x 9 presence classes x 8 NULL classes x 9 variants x 0..3 rows x v2 extra-data lengths {0,1,8,253,998}; " +
		"'random' draws column count, types with metadata from each type's domain, classes, 0..5 rows, format, extra data, flags, 4- and 6-byte table ids with pairwise distinct bytes. " +
		"Never generated: an image without any present column in write/delete events, an update event whose two images are both empty (zero-byte rows; MySQL does not log them). " +
		"Distinct = different event bytes (enumerated sections count once per index by construction); non-trivial iff the event holds at least one non-NULL cell.")
	c.Assume("rows event layout as in DESIGN Appendix A (enc/ev); cell images and their sizes from gen / enc/val / enc/bjson, none of it shared with the repository")
	c.Assume("expected TIMESTAMP text uses time.Local of the worker process (TZ is set by the orchestrator)")
	c.Assume("resource rule: a Rows call during which the worker's heap exceeds 1 GiB (the largest event has 17 MB) is recorded as rows-runaway and ends the shard; a call still running after 60 s within that bound is inconclusive, never a verdict")
	c.Assume("early exit: a class of cases (one sweep type, bits, struct, random) with 40 refuted events in a process is not scheduled further; skipped cases are reported as skipped_by_early_exit and the exhaustive sub-domains are then not claimed by that process")

	if !c.Race {
		// safety net for the host (the race detector needs the address space): should a
		// runaway call outgrow the sampling of c09Bounded, the worker dies instead of
		// taking the machine's memory; the orchestrator then reports the shard as broken
		lim := syscall.Rlimit{Cur: c09AddressSpaceLimit, Max: c09AddressSpaceLimit}
		_ = syscall.Setrlimit(syscall.RLIMIT_AS, &lim)
	}
	if c.Replay != "" {
		c09Replay(c)
		return
	}
	st := &c09Stats{}
	// early exit (DESIGN 3.6): a class of cases (one sweep type, or one of the other
	// sections) that has produced c09ClassBudget refuted events in this process
	// is not scheduled any further; the other classes still run.
	bad := map[string]int{}
	run := func(class string, e *c09Ev, bulk bool) {
		c.Log("C09 %s %d", e.Src, e.Idx)
		c09Account(c, e, bulk)
		held := c09Verify(c, e, st)
		if !held {
			bad[class]++
		}
		if bulk {
			nt := int64(0)
			if c09NonTrivial(e) {
				nt = 1
			}
			c.Bulk(1, nt)
		}
		c09Sample(c, e, held)
	}
	slot := 0
	// mine also stops the scheduling once a library call ran away (see c09Bounded)
	skipped := false
	mine := func(slot int, class string) bool {
		if !c.Mine(slot) {
			return false
		}
		if c09Abort.Load() || bad[class] >= c09ClassBudget {
			c.Skip(1)
			skipped = true
			return false
		}
		return true
	}
	exhaustive := func(s string) {
		if !skipped {
			c.ExhaustiveDomain(s)
		}
	}

	// sweep
	items := c09SweepItems(c)
	idx := 0
	for i := range items {
		nv := c09SweepVariants(c, &items[i])
		for v := 0; v < nv; v++ {
			if mine(slot, "sweep:"+items[i].name) {
				run("sweep:"+items[i].name, c09GenSweep(c, items, i, v, idx), true)
			}
			idx++
			slot++
		}
	}
	exhaustive("VARCHAR (15) and VAR_STRING (253): every declared maximum 0..65535 x actual lengths {0,1,min(max,255),max} (thorough: in all 9 kind x format variants)")
	exhaustive("CHAR/BINARY as TypeString: every declared length 0..1023 x actual lengths {0,1,min(max,255),max} x 9 kind x format variants")
	exhaustive("DECIMAL: all 1580 valid (precision, scale) pairs x 9 kind x format variants (values sampled)")
	exhaustive("TIMESTAMP2/DATETIME2/TIME2 fsp 0..6; BIT(1..64); ENUM 1..2 and SET 1..8 bytes inside TypeString and bare; blob family, GEOMETRY, JSON with 1..4 length bytes; each x 9 kind x format variants (values sampled)")

	// bits
	specs := c09BitsSpecs()
	for i := range specs {
		if mine(slot, "bits") {
			run("bits", c09GenBits(c, specs, i), true)
		}
		slot++
	}
	exhaustive("1..6 columns: every presence bitmap x every NULL bitmap (update: every pair of presence bitmaps except both empty x every pair of NULL bitmaps) x {v1 6-byte id, v1 4-byte id, v2}")

	// struct
	reps := c.N(1, 12)
	for rep := 0; rep < reps; rep++ {
		for i := 0; i < c09StructCount(); i++ {
			if mine(slot, "struct") {
				run("struct", c09GenStruct(c, rep, i), false)
			}
			slot++
		}
	}

	// random
	nr := c.N(95000, 2500000)
	for i := 0; i < nr; i++ {
		if mine(slot, "random") {
			run("random", c09GenRandom(c, i), false)
		}
		slot++
	}

	for t, n := range st.types {
		if n > 0 {
			c.CellN("cell-type="+rowTypeNames[byte(t)], n)
		}
	}
	c.Note("cells_decoded", st.cells)
	if c.Shard == 0 {
		c.Note("events_scheduled_all_shards", int64(slot))
	}
}

func c09Replay(c *core.Ctx) {
	var w c09Witness
	if err := cellReadWitness(c.Replay, &w); err != nil {
		c.Inconclusive("cannot read witness: " + err.Error())
		return
	}
	var e *c09Ev
	if w.SelfContained {
		var err error
		if e, err = c09FromWitness(&w); err != nil {
			c.Inconclusive("bad witness: " + err.Error())
			return
		}
	} else {
		// too large to store: regenerate from (seed, tier, section, index)
		switch w.Src {
		case "sweep":
			items := c09SweepItems(c)
			idx := 0
		outer:
			for i := range items {
				for v := 0; v < c09SweepVariants(c, &items[i]); v++ {
					if idx == w.Index {
						e = c09GenSweep(c, items, i, v, idx)
						break outer
					}
					idx++
				}
			}
		case "bits":
			specs := c09BitsSpecs()
			if w.Index >= 0 && w.Index < len(specs) {
				e = c09GenBits(c, specs, w.Index)
			}
		case "struct":
			e = c09GenStruct(c, w.Index/c09StructCount(), w.Index%c09StructCount())
		case "random":
			e = c09GenRandom(c, w.Index)
		}
		if e == nil {
			c.Inconclusive("witness names an unknown case")
			return
		}
	}
	c.Case(core.Hash64(e.bytes), true)
	if c09Verify(c, e, nil) {
		c.Cell("replay-held")
	}
}
