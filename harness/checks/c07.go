package checks

import (
	"fmt"
	"regexp"

	"github.com/Breeze0806/gobinlog"

	"verifharness/core"
	"verifharness/hist"
	"verifharness/run"
	"verifharness/sim"
	"verifharness/xport"
)

// C07: the replica handshake asks the master for exactly the configured stream.
func init() { core.Register("C07", checkC07) }

type c07Scn struct {
	Index    int        `json:"index"`
	ServerID uint32     `json:"server_id"`
	Attempts []hist.Pos `json:"attempts"` // position set before each attempt ("" file = keep the stored one)
}

var setChecksumRe = regexp.MustCompile(`(?i)^\s*SET\s+@master_binlog_checksum\s*=`)

func c07Name(r *core.Rng) string {
	if r.Chance(1, 8) {
		// white space at either end belongs to the name
		return []string{" ", "\t", "  ", ""}[r.Intn(4)] + fmt.Sprintf("mysql-bin.%06d", r.Intn(1000000)) + []string{" ", "\t", " \t ", "\n"}[r.Intn(4)]
	}
	switch r.Intn(8) {
	case 7:
		return "" // the empty name is legal: the master then starts with its first binlog
	case 0:
		return "a"
	case 1:
		return fmt.Sprintf("mysql-bin.%06d", r.Intn(1000000))
	case 2:
		b := make([]byte, 255)
		for i := range b {
			b[i] = byte('a' + r.Intn(26))
		}
		return string(b)
	case 3:
		return "bin log with spaces." + fmt.Sprint(r.Intn(100))
	case 4:
		return "日本語-ビンログ.000001"
	case 5:
		return "a.b.c.d.e..f." + fmt.Sprint(r.Intn(1000))
	}
	n := 1 + r.Intn(254)
	b := make([]byte, n)
	for i := range b {
		b[i] = byte(0x21 + r.Intn(0x7e-0x21))
	}
	return string(b)
}

// differentBytes draws a value whose four bytes all differ from the bytes of
// other at the same position (so that swapped fields are visible).
func differentBytes(r *core.Rng, base uint32, other uint32) uint32 {
	v := base
	for i := uint(0); i < 4; i++ {
		for byte(v>>(8*i)) == byte(other>>(8*i)) {
			v ^= uint32(1+r.Intn(254)) << (8 * i)
		}
	}
	return v
}

func c07Scenario(c *core.Ctx, idx int) c07Scn {
	r := c.Rng(core.StrID("c07"), uint64(idx))
	ids := []uint32{0, 1, 1<<31 - 1, 1 << 31, 1<<32 - 1, r.U32(), r.U32()}
	offs := []int64{4, 1<<31 - 1, 1 << 31, 1<<32 - 1, int64(r.U32()), int64(r.U32()), 5, 120}
	scn := c07Scn{Index: idx, ServerID: ids[r.Intn(len(ids))]}
	na := 1 + r.Intn(4)
	for a := 0; a < na; a++ {
		if a > 0 && r.Chance(1, 3) {
			scn.Attempts = append(scn.Attempts, hist.Pos{}) // keep the stored position
			continue
		}
		off := offs[r.Intn(len(offs))]
		if idx%2 == 0 && scn.ServerID > 1 && scn.ServerID < 1<<32-1 {
			off = int64(differentBytes(r, uint32(off), scn.ServerID))
			if off < 4 {
				off = 4 + 256
			}
		}
		scn.Attempts = append(scn.Attempts, hist.Pos{File: c07Name(r), Off: off})
	}
	return scn
}

// checkConnCommands applies the handshake oracle to one connection log.
func checkConnCommands(cl sim.ConnSnap, serverID uint32, want hist.Pos) (string, string) {
	dumps := 0
	setSeen := false
	for _, cmd := range cl.Cmds {
		switch cmd.Kind {
		case 0x03:
			if setChecksumRe.MatchString(cmd.Query) {
				setSeen = !cmd.Rejected // a SET the master refused announced nothing
			}
		case 0x12:
			dumps++
			if dumps > 1 {
				return "second-dump-request", "more than one binlog-dump request on one connection"
			}
			if !setSeen {
				return "dump-before-set", "the binlog-dump request was sent before @master_binlog_checksum was set"
			}
			d := cmd.Dump
			if d.Flags&0x01 != 0 {
				return "non-blocking-dump", fmt.Sprintf("dump flags %#x request a non-blocking dump", d.Flags)
			}
			if d.ServerID != serverID {
				return "server-id", fmt.Sprintf("dump carries server id %d, configured %d", d.ServerID, serverID)
			}
			if d.File != want.File {
				return "file-name", fmt.Sprintf("dump names file %q, position is %q", d.File, want.File)
			}
			if d.Pos != uint32(want.Off) {
				return "offset", fmt.Sprintf("dump carries offset %d, position is %d", d.Pos, want.Off)
			}
		}
	}
	if dumps == 0 {
		return "no-dump-request", "no binlog-dump request arrived"
	}
	return "", ""
}

func checkC07(c *core.Ctx) {
	c.SetRule("configurations: server ids {0,1,2^31-1,2^31,2^32-1,random} x file names {1 byte, 255 bytes, dots, digits, spaces, UTF-8, random printable} x offsets {4,2^31-1,2^31,2^32-1,random} (half chosen so that no byte of the offset equals the byte of the server id at the same position), sequences of 1..4 attempts on one streamer with SetBinlogPosition or the stored position in between; the master answers the dump with EOF; plus real histories streamed to EOF and a second attempt that must request the stored resume position; plus one or two attempts that fail before the dump request (9 kinds: refused dial, broken / refused handshake, rejected or unanswered SET, failed write of the dump command, a dump command that goes out and is then reported as failed) followed by an attempt that must request the position that was set. Oracle on every connection: SET @master_binlog_checksum before the dump, exactly one dump per Stream call (over all connections it opened), blocking flag, server id, file bytes, uint32 offset. distinct by configuration; non-trivial iff offset != 4 or server id >= 2^31 or >= 2 attempts")
	if c.Replay != "" {
		var w struct {
			Witness struct {
				Scenario c07Scn `json:"scenario"`
			} `json:"witness"`
		}
		if err := readWitness(c.Replay, &w); err != nil {
			c.Inconclusive("cannot read witness: " + err.Error())
			return
		}
		var m struct {
			Witness struct {
				Scenario struct {
					Mode  string `json:"mode"`
					Index int    `json:"index"`
					Hist  int    `json:"hist"`
				} `json:"scenario"`
			} `json:"witness"`
		}
		_ = readWitness(c.Replay, &m)
		switch m.Witness.Scenario.Mode {
		case "set-rejected":
			c07SetRejected(c, m.Witness.Scenario.Index)
		case "failed-before-dump":
			c07FailedBeforeDump(c, m.Witness.Scenario.Index)
		case "stored":
			c07Stored(c, m.Witness.Scenario.Hist-3000)
		default:
			c07Run(c, w.Witness.Scenario)
		}
		return
	}
	n := c.N(4000, 240000)
	for idx := 0; idx < n; idx++ {
		if c.Mine(idx) {
			c07Run(c, c07Scenario(c, idx))
		}
	}
	nh := c.N(250, 8000)
	for idx := 0; idx < nh; idx++ {
		if c.Mine(idx) {
			c07Stored(c, idx)
		}
	}
	for idx := 0; idx < c.N(100, 4000); idx++ {
		if c.Mine(idx) {
			c07SetRejected(c, idx)
		}
	}
	for idx := 0; idx < c.N(160, 4000); idx++ {
		if c.Mine(idx) {
			c07FailedBeforeDump(c, idx)
		}
	}
}

// c07SetRejected: when the master refuses SET @master_binlog_checksum the
// checksum awareness was not announced, so no dump may be requested on that
// connection; the following attempt (SET accepted) must be normal again.
func c07SetRejected(c *core.Ctx, idx int) {
	scn := c07Scenario(c, 100000+idx)
	scn.Attempts = scn.Attempts[:1]
	empty := &hist.Layout{}
	s, err := run.NewSession(empty, nil, scn.ServerID, scn.Attempts[0], idx%2 == 0)
	if err != nil {
		c.Inconclusive("cannot start master: " + err.Error())
		return
	}
	defer s.Close()
	for _, g := range run.LibGoroutines(nil) {
		s.Abandon(g.ID)
	}
	code := []uint16{1193, 1317, 1053, 1227}[idx%4]
	s.M.SetScripts(&sim.Script{SetReject: true, SetRejectCode: code, AnyPosEOF: true})
	s.M.SetDefault(&sim.Script{AnyPosEOF: true})
	res := s.Attempt(run.NoFaults(), nil, maxWait)
	c.Case(core.Hash64([]byte(fmt.Sprint("setreject", scn, code))), true)
	c.Cell("set-rejected")
	if res.Verdict != run.Returned {
		c.Cell("stream-not-returned(reported under C05)")
		return
	}
	// no dump request on the connection whose SET was refused (a library that
	// retries on a fresh connection, where the SET is accepted, is in order)
	if res.DumpConn != nil {
		if key, _ := checkConnCommands(res.DumpConn.Snapshot(), scn.ServerID, scn.Attempts[0]); key == "dump-before-set" {
			c.Violation("c07:dump-after-rejected-set", fmt.Sprintf("the master answered SET @master_binlog_checksum with error %d, yet a binlog-dump request followed on that connection (Stream returned %s)", code, errStr(res.Err)),
				witnessOf(map[string]interface{}{"mode": "set-rejected", "index": idx}, nil, s, nil))
			return
		}
	}
	s.CallError(maxWait)
	res2 := s.Attempt(run.NoFaults(), nil, maxWait)
	if res2.Verdict != run.Returned || res2.Conn == nil {
		return
	}
	if key, msg := checkConnCommands(res2.Conn.Snapshot(), scn.ServerID, scn.Attempts[0]); key != "" {
		c.Violation("c07:after-rejected-set:"+key, "attempt after a rejected SET: "+msg, witnessOf(map[string]interface{}{"mode": "set-rejected", "index": idx}, nil, s, nil))
	}
}

// c07FailedBeforeDump: an attempt that fails before its dump request was sent
// (or received) must not disturb the streamer's position: the following attempt
// requests exactly the position that was set.
func c07FailedBeforeDump(c *core.Ctx, idx int) {
	scn := c07Scenario(c, 200000+idx)
	scn.Attempts = scn.Attempts[:1]
	empty := &hist.Layout{}
	s, err := run.NewSession(empty, nil, scn.ServerID, scn.Attempts[0], true)
	if err != nil {
		c.Inconclusive("cannot start master: " + err.Error())
		return
	}
	defer s.Close()
	for _, g := range run.LibGoroutines(nil) {
		s.Abandon(g.ID)
	}
	kind := preconnKinds[idx%len(preconnKinds)]
	scr := &sim.Script{AnyPosEOF: true}
	var xo *xport.Options
	switch kind {
	case "connect-refused":
		xo = &xport.Options{FailDial: true}
	case "handshake-garbage":
		scr.Handshake = "garbage"
	case "handshake-close":
		scr.Handshake = "close"
	case "handshake-err":
		scr.Handshake = "errhello"
	case "auth-err":
		scr.Handshake = "autherr"
	case "set-rejected":
		scr.SetReject = true
	case "set-close":
		scr.SetClose = true
	case "dump-write-fail":
		xo = &xport.Options{FailWriteN: 3} // writes: handshake response, SET query, dump request
	case "dump-write-late-error":
		xo = &xport.Options{LateFailN: 3}
	}
	if kind != "connect-refused" {
		s.M.SetScripts(scr)
	}
	s.M.SetDefault(&sim.Script{AnyPosEOF: true})
	nfail := 1 + idx/len(preconnKinds)%2
	for i := 0; i < nfail; i++ {
		res := s.Attempt(run.NoFaults(), xo, maxWait)
		if res.Verdict != run.Returned {
			c.Cell("stream-not-returned(reported under C05)")
			return
		}
		if res.DumpsMade > 1 {
			c.Violation("c07:dump-requests-per-stream", fmt.Sprintf("one Stream call (failing by %s) put %d binlog-dump requests in front of the master over %d connection(s)", kind, res.DumpsMade, res.ConnsMade),
				witnessOf(map[string]interface{}{"mode": "failed-before-dump", "index": idx, "kind": kind}, nil, s, nil))
			return
		}
		s.CallError(maxWait)
		if kind != "connect-refused" && i+1 < nfail {
			s.M.SetScripts(scr)
		}
	}
	c.Case(core.Hash64([]byte(fmt.Sprint("failed-before-dump", scn, kind, nfail))), true)
	c.Cell("failed-before-dump:" + kind)
	res2 := s.Attempt(run.NoFaults(), nil, maxWait)
	if res2.Verdict != run.Returned {
		c.Cell("stream-not-returned(reported under C05)")
		return
	}
	wit := witnessOf(map[string]interface{}{"mode": "failed-before-dump", "index": idx, "kind": kind}, nil, s, nil)
	if res2.Conn == nil || res2.DumpsMade != 1 {
		c.Violation("c07:after-failed-attempt:dump-requests", fmt.Sprintf("attempt after %d attempt(s) that failed by %s: %d dump requests (Stream returned %s)", nfail, kind, res2.DumpsMade, errStr(res2.Err)), wit)
		return
	}
	if key, msg := checkConnCommands(res2.Conn.Snapshot(), scn.ServerID, scn.Attempts[0]); key != "" {
		c.Violation("c07:after-failed-attempt:"+key, fmt.Sprintf("attempt after %d attempt(s) that failed by %s: %s", nfail, kind, msg), wit)
	}
}

func c07Run(c *core.Ctx, scn c07Scn) {
	c.Log("C07 %+v", scn.Index)
	empty := &hist.Layout{}
	s, err := run.NewSession(empty, nil, scn.ServerID, scn.Attempts[0], scn.Index%3 != 0)
	if err != nil {
		c.Inconclusive("cannot start master: " + err.Error())
		return
	}
	defer s.Close()
	for _, g := range run.LibGoroutines(nil) {
		s.Abandon(g.ID)
	}
	s.M.SetDefault(&sim.Script{AnyPosEOF: true})
	cur := scn.Attempts[0]
	nt := len(scn.Attempts) >= 2 || scn.ServerID >= 1<<31
	for ai, p := range scn.Attempts {
		if p.Off != 0 {
			s.S.SetBinlogPosition(gobinlog.Position{Filename: p.File, Offset: p.Off})
			cur = p
			c.Cell("attempt:position-set")
		} else {
			c.Cell("attempt:stored-position")
		}
		if cur.Off != 4 {
			nt = true
		}
		hs := run.NoFaults()
		if (scn.Index+ai)%3 == 0 {
			hs.WithDeadline = true // a context that also has a (far) deadline
			c.Cell("attempt:context-with-deadline")
		}
		res := s.Attempt(hs, nil, maxWait)
		wit := func() map[string]interface{} { return witnessOf(scn, nil, s, map[string]interface{}{"attempt": ai}) }
		if res.Verdict != run.Returned {
			c.Cell("stream-not-returned(reported under C05)")
			return
		}
		// exactly one dump request per Stream call, over however many
		// connections the library chose to open for it
		if res.DumpsMade != 1 || res.DumpConn == nil {
			c.Violation("c07:dump-requests-per-stream", fmt.Sprintf("attempt %d issued %d binlog-dump requests over %d connection(s)", ai, res.DumpsMade, res.ConnsMade), wit())
			return
		}
		if key, msg := checkConnCommands(res.DumpConn.Snapshot(), scn.ServerID, cur); key != "" {
			c.Violation("c07:"+key, fmt.Sprintf("attempt %d (server id %d, position %q,%d): %s", ai, scn.ServerID, cur.File, cur.Off, msg), wit())
			return
		}
		s.CallError(maxWait)
	}
	c.Case(core.Hash64([]byte(fmt.Sprint(scn))), nt)
	if scn.ServerID >= 1<<31 {
		c.Cell("server-id>=2^31")
	}
	if c.WantSample() && len(scn.Attempts) > 1 {
		c.Sample(scn)
	}
}

// c07Stored: a real history is streamed to EOF; the next attempt must request
// the stored resume position.
func c07Stored(c *core.Ctx, idx int) {
	h, tables := stopHistory(c, 3000+idx)
	l := h.Build()
	start := hist.Pos{File: h.FirstFile, Off: 4}
	exp := hist.Expect(h, l, start)
	scn := map[string]interface{}{"mode": "stored", "hist": 3000 + idx}
	s, err := run.NewSession(l, tables, uint32(7000+idx), start, true)
	if err != nil {
		c.Inconclusive("cannot start master: " + err.Error())
		return
	}
	defer s.Close()
	for _, g := range run.LibGoroutines(nil) {
		s.Abandon(g.ID)
	}
	s.M.SetDefault(&sim.Script{End: sim.EndEOF})
	want := start
	for ai := 0; ai < 2; ai++ {
		res := s.Attempt(run.NoFaults(), nil, maxWait)
		if res.Verdict != run.Returned || res.Conn == nil {
			return
		}
		valid := []hist.Pos{want}
		if ai == 1 {
			valid = validResume(h, l, exp, start, len(exp)-1)
		}
		var key, msg string
		for _, v := range valid {
			key, msg = checkConnCommands(res.Conn.Snapshot(), uint32(7000+idx), v)
			if key == "" {
				break
			}
		}
		if key != "" {
			c.Violation("c07:stored:"+key, fmt.Sprintf("attempt %d after a complete stream: %s (valid positions %v)", ai, msg, valid), witnessOf(scn, h, s, nil))
			return
		}
		s.CallError(maxWait)
	}
	c.Case(core.HashU64(layoutHash(l), 7), true)
	c.Cell("stored-position-after-stream")
}
