package checks

import (
	"encoding/json"
	"os"
)

func readWitness(path string, v interface{}) error {
	b, err := os.ReadFile(path)
	if err != nil {
		return err
	}
	return json.Unmarshal(b, v)
}
