package checks

import (
	"fmt"

	"verifharness/core"
	"verifharness/enc/ev"
	"verifharness/gen"
	"verifharness/hist"
	"verifharness/run"
	"verifharness/sim"
)

// C03: position labels chain and are exact resume points.
func init() { core.Register("C03", checkC03) }

type c03Scn struct {
	Hist   int      `json:"hist"`
	Resume int      `json:"resume"` // -1: the full stream; k: resume at the end label of delivery k
	At     hist.Pos `json:"at"`
}

func c03History(c *core.Ctx, idx int) (*hist.History, []*hist.Table) {
	r := c.Rng(core.StrID("c03hist"), uint64(idx))
	nfiles := 1 + r.Intn(4)
	var cfgs []*ev.Cfg
	var first combo
	for i := 0; i < nfiles; i++ {
		cb := allCombos()[r.Intn(24)]
		if i == 0 {
			first = cb
		}
		cb.GTID, cb.Partial = first.GTID, first.Partial
		cfgs = append(cfgs, cb.cfg(r))
	}
	o := first.hopts(r)
	o.Cfgs = cfgs
	o.MaxCols, o.MaxRows, o.MaxStmts, o.MaxTables = 5, 2, 2, 2
	o.NoJSON = idx%3 != 0
	b := gen.NewBuilder(r, o)
	// units: deliveries with rotations placed after every kind of unit
	ntx := 3 + r.Intn(6)
	rotLeft := nfiles - 1
	if idx%5 == 0 && rotLeft > 0 {
		b.AddSwitch() // file switch as the very first unit
		rotLeft--
	}
	for i := 0; i < ntx; i++ {
		if r.Chance(1, 4) {
			b.Add([]hist.UnitKind{hist.AnonGTID, hist.Heartbeat, hist.UnknownEvent, hist.UnknownStmt, hist.GTID, hist.PrevGTIDs}[r.Intn(6)])
		}
		b.Add(hist.UnitKind(r.Intn(6)))
		if rotLeft > 0 && r.Chance(1, 2) {
			b.AddSwitch()
			rotLeft--
			if rotLeft > 0 && r.Chance(1, 4) {
				b.AddSwitch() // two file switches in a row
				rotLeft--
			}
		}
	}
	h := b.H
	// large offsets: files whose events sit just below 2^31 and 2^32
	if idx%2 == 1 {
		l0 := h.Build()
		h.Bases = make([]uint32, len(l0.Files))
		for fi, f := range l0.Files {
			size := uint32(0)
			if n := len(f.Events); n > 0 {
				size = f.Events[n-1].End - f.FDEEnd
			}
			switch r.Intn(4) {
			case 0:
				h.Bases[fi] = 1<<31 - size/2 - 1 // straddles 2^31
			case 1:
				h.Bases[fi] = uint32(1<<32 - 1 - uint64(size) - uint64(r.Intn(3)))
			case 2:
				h.Bases[fi] = 1<<31 - size - uint32(r.Intn(2))
			}
		}
	}
	return h, b.Tables
}

func checkC03(c *core.Ctx) {
	c.SetRule("histories of 1..4 binlog files (file switch after every kind of unit — by a ROTATE event or, one time in three, by a server restart (STOP event or nothing, next file announced only by the artificial rotate, table ids possibly re-bound) —, two switches in a row, a switch as the first unit, per-file checksum / row-version / table-id configuration, half of them with file offsets just below or straddling 2^31 and just below 2^32), streamed fully and then resumed by a FRESH streamer at the end label of EVERY delivered transaction k; oracles: labels equal the model (start = previous end / initial position / rotate target, end = end offset of the commit event), independent chain rule, resumed stream accepted by the master on an event boundary and delivering exactly tx[k+1..] with identical contents and labels; distinct by (history bytes, k); non-trivial iff the history has a rotation or >= 3 transactions")
	nh := c.N(800, 120000)
	if c.Replay != "" {
		var w struct {
			Witness struct {
				Scenario c03Scn `json:"scenario"`
			} `json:"witness"`
		}
		if err := readWitness(c.Replay, &w); err != nil {
			c.Inconclusive("cannot read witness: " + err.Error())
			return
		}
		scn := w.Witness.Scenario
		h, tables := c03History(c, scn.Hist)
		c03Run(c, scn.Hist, h, tables, scn.Resume)
		return
	}
	for idx := 0; idx < nh; idx++ {
		if !c.Mine(idx) {
			continue
		}
		h, tables := c03History(c, idx)
		c03Run(c, idx, h, tables, -2)
	}
}

// c03Run streams the history fully and resumes at every k (only = -2), or
// replays one resume point.
func c03Run(c *core.Ctx, idx int, h *hist.History, tables []*hist.Table, only int) {
	l := h.Build()
	start := hist.Pos{File: h.FirstFile, Off: 4}
	exp := hist.Expect(h, l, start)
	rot := false
	for i := range h.Units {
		if h.Units[i].Kind == hist.Rotate || h.Units[i].Kind == hist.Restart {
			rot = true
		}
	}
	nt := rot || len(exp) >= 3
	stream := func(scn c03Scn, from hist.Pos, want []hist.ExpTx) ([]*run.Delivered, bool) {
		c.Log("C03 %+v", scn)
		s, err := run.NewSession(l, tables, 303, from, idx%4 != 3)
		if err != nil {
			c.Inconclusive("cannot start master: " + err.Error())
			return nil, false
		}
		defer s.Close()
		for _, g := range run.LibGoroutines(nil) {
			s.Abandon(g.ID)
		}
		s.M.SetDefault(&sim.Script{End: sim.EndEOF, LockStep: scn.Resume%2 == 0})
		res := s.Attempt(run.NoFaults(), nil, maxWait)
		c.Case(core.HashU64(layoutHash(l), uint64(scn.Resume+2)), nt)
		wit := func() map[string]interface{} {
			return witnessOf(scn, h, s, map[string]interface{}{"stream_err": errStr(res.Err), "bases": h.Bases})
		}
		if res.Verdict != run.Returned {
			c.Cell("stream-not-returned(reported under C05)")
			return nil, false
		}
		if res.Panic != "" {
			c.Violation("c03:panic", "Stream panicked: "+res.Panic, wit())
			return nil, false
		}
		if res.Conn != nil && res.Conn.Snapshot().BadResume {
			c.Violation("c03:label-not-a-boundary", fmt.Sprintf("hist %d: a stream started at %v (end label of delivery %d) was rejected by the master: not an event boundary", idx, from, scn.Resume), wit())
			return nil, false
		}
		if res.Dump != nil && (res.Dump.File != from.File || int64(res.Dump.Pos) != from.Off) {
			c.Violation("c03:dump-request-differs", fmt.Sprintf("hist %d: requested %s,%d for position %v", idx, res.Dump.File, res.Dump.Pos, from), wit())
			return nil, false
		}
		if res.Dump == nil {
			c.Violation("c03:resume-refused", fmt.Sprintf("hist %d: a stream started at %v (end label of delivery %d) sent no dump request: %s", idx, from, scn.Resume, errStr(res.Err)), wit())
			return nil, false
		}
		if res.Err != nil {
			c.Violation("c03:resume-fails", fmt.Sprintf("hist %d: a stream started at %v (end label of delivery %d) failed: %s", idx, from, scn.Resume, errStr(res.Err)), wit())
			return nil, false
		}
		if why := retainedChanged(res.Delivered); why != "" {
			c.Violation("c03:labels-changed-later", fmt.Sprintf("hist %d: %s", idx, why), wit())
			return nil, false
		}
		if d := run.CompareAll(want, res.Delivered, true); d != nil {
			key := "c03:resume:" + d.Kind
			if scn.Resume < 0 {
				key = "c03:full:" + d.Kind
			}
			c.Violation(key, fmt.Sprintf("hist %d resume %d at %v: %s", idx, scn.Resume, from, d), wit())
			return nil, false
		}
		return res.Delivered, true
	}
	if only >= 0 {
		if only < len(exp) {
			stream(c03Scn{Hist: idx, Resume: only, At: exp[only].Next}, exp[only].Next, exp[only+1:])
		}
		return
	}
	ds, ok := stream(c03Scn{Hist: idx, Resume: -1, At: start}, start, exp)
	if !ok {
		return
	}
	if rot {
		c.Cell("history:rotation")
	}
	if len(h.Bases) > 0 {
		c.Cell("history:large-offsets")
	}
	// independent chain rule on the delivered labels
	for k := 1; k < len(ds); k++ {
		rotBetween := false
		for ui := exp[k-1].Unit + 1; ui < exp[k].Unit; ui++ {
			if h.Units[ui].Kind == hist.Rotate || h.Units[ui].Kind == hist.Restart {
				rotBetween = true
			}
		}
		if !rotBetween && ds[k].Now != ds[k-1].Next {
			c.Violation("c03:chain-broken", fmt.Sprintf("hist %d: delivery %d starts at %v but delivery %d ended at %v", idx, k, ds[k].Now, k-1, ds[k-1].Next), map[string]interface{}{"scenario": c03Scn{Hist: idx, Resume: -1, At: start}})
			return
		}
		if rotBetween {
			c.Cell("chain:rotate-between")
			if ds[k].Now.Off != 4 || ds[k].Now.File == ds[k-1].Next.File {
				c.Violation("c03:rotate-target-label", fmt.Sprintf("hist %d: after a rotation delivery %d starts at %v", idx, k, ds[k].Now), map[string]interface{}{"scenario": c03Scn{Hist: idx, Resume: -1, At: start}})
				return
			}
		}
		if ds[k].Next.Off >= 1<<31 {
			c.Cell("label:offset>=2^31")
		}
	}
	for k := range ds {
		if _, ok := stream(c03Scn{Hist: idx, Resume: k, At: ds[k].Next}, ds[k].Next, exp[k+1:]); !ok {
			return
		}
		c.Cell("resumed")
	}
	if c.WantSample() && rot {
		var labels []string
		for _, d := range ds {
			labels = append(labels, d.Now.String()+"->"+d.Next.String())
		}
		c.Sample(map[string]interface{}{"hist": idx, "units": unitNames(h), "labels": labels})
	}
}
