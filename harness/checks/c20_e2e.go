package checks

import (
	"bytes"
	"encoding/json"
	"fmt"
	"sync"

	"github.com/Breeze0806/gobinlog"
	"github.com/Breeze0806/gobinlog/replication"

	"verifharness/core"
	"verifharness/enc/ev"
	"verifharness/hist"
	"verifharness/run"
	"verifharness/sim"
)

// C20, end-to-end half: every transaction delivered while streaming C01's
// generated histories is serialised and checked with the same oracle as the
// synthetic ones (CheckTxJSON).
func init() {
	synthetic := core.Lookup("C20")
	core.Register("C20", func(c *core.Ctx) {
		synthetic(c)
		if c.Replay == "" {
			c20EndToEnd(c)
			c20Held(c)
			c20DottedNames(c)
			c20BigValues(c)
			c20RowsQueryProbe(c)
		}
	})
}

// c20Held: the bytes a serialisation returned must stay what they were while
// other transactions are serialised afterwards or concurrently (pooled or
// shared output buffers). MarshalJSON is exported, so its result is held
// directly; json.Marshal is exercised from several goroutines at once.
func c20Held(c *core.Ctx) {
	var cells [c20NCells]int64
	var types [258]bool
	n := c.N(300, 15000)
	for base := 0; base < n; base += 12 {
		if !c.Mine(base / 12) {
			continue
		}
		g := &c20Gen{r: c.Rng(core.StrID("c20held"), uint64(base)), cells: &cells, types: &types}
		txs := make([]*gobinlog.Transaction, 12)
		for i := range txs {
			txs[i] = g.tx(base + i)
		}
		// (a) direct MarshalJSON results held across later serialisations
		type heldOut struct{ orig, copy []byte }
		var outs []heldOut
		for i, tx := range txs {
			var b []byte
			var err error
			if p := core.Guard(func() { b, err = tx.MarshalJSON() }); p != "" || err != nil {
				continue // reported by the synthetic half
			}
			outs = append(outs, heldOut{b, append([]byte(nil), b...)})
			for j, h := range outs[:len(outs)-1] {
				if !bytes.Equal(h.orig, h.copy) {
					c.Violation("txjson-output-changed-by-later-serialisation", fmt.Sprintf("the bytes returned by MarshalJSON for transaction %d changed when transaction %d was serialised", base+j, base+i),
						map[string]interface{}{"mode": "held", "base": base, "earlier": j, "later": i, "before": string(clip(h.copy)), "after": string(clip(h.orig))})
					return
				}
			}
			c.Case(core.HashU64(core.HashU64(0, uint64(base+i)), 2020), true)
		}
		// (b) json.Marshal from several goroutines at once
		want := make([][]byte, len(txs))
		for i, tx := range txs {
			want[i], _ = json.Marshal(tx)
		}
		var wg sync.WaitGroup
		var mu sync.Mutex
		bad := ""
		for rep := 0; rep < 4; rep++ {
			for i := range txs {
				wg.Add(1)
				go func(i int) {
					defer wg.Done()
					got, err := json.Marshal(txs[i])
					if err != nil || !bytes.Equal(got, want[i]) {
						mu.Lock()
						if bad == "" {
							bad = fmt.Sprintf("json.Marshal of transaction %d gave a different result (err=%v) while other transactions were serialised concurrently", base+i, err)
						}
						mu.Unlock()
					}
				}(i)
			}
		}
		wg.Wait()
		if bad != "" {
			c.Violation("txjson-concurrent-serialisation-differs", bad, map[string]interface{}{"mode": "concurrent", "base": base})
			return
		}
		c.Cell("held:batches")
	}
}

// c20DottedNames: database and table names may contain dots; two tables whose
// "db.table" renderings coincide must still serialise with their own names,
// in one transaction and across transactions.
func c20DottedNames(c *core.Ctx) {
	n := c.N(200, 12000)
	for i := 0; i < n; i++ {
		if !c.Mine(i) {
			continue
		}
		r := c.Rng(core.StrID("c20dots"), uint64(i))
		parts := []string{"shop", "eu", "orders", "a", "b.c", "x y", "ü", "t"}
		a, b2, c3 := parts[r.Intn(len(parts))], parts[r.Intn(len(parts))], parts[r.Intn(len(parts))]
		// the separator is what a careless key or cache would join the two
		// names with: a dot, a quoted dot, a bare quote, ...
		sep := []string{".", "`.`", ".", "`", "\".\"", "\x00", ":", "/"}[i%8]
		names := []gobinlog.MysqlTableName{{DbName: a + sep + b2, TableName: c3}, {DbName: a, TableName: b2 + sep + c3}, {DbName: a + sep + b2 + sep + c3, TableName: ""}, {DbName: "", TableName: a + sep + b2 + sep + c3}}
		mk := func(ns ...gobinlog.MysqlTableName) *gobinlog.Transaction {
			tx := &gobinlog.Transaction{NowPosition: gobinlog.Position{Filename: "f", Offset: 4}, NextPosition: gobinlog.Position{Filename: "f", Offset: 99}}
			for _, nm := range ns {
				tx.Events = append(tx.Events, &gobinlog.StreamEvent{Type: gobinlog.StatementInsert, Table: nm,
					RowValues: []*gobinlog.RowData{{Columns: []*gobinlog.ColumnData{{Filed: "c", Type: 3, Data: []byte("1")}}}}})
			}
			return tx
		}
		perm := r.Perm(len(names))
		txs := []*gobinlog.Transaction{mk(names[perm[0]], names[perm[1]]), mk(names[perm[2]]), mk(names[perm[3]], names[perm[0]])}
		for ti, tx := range txs {
			key, msg := "", ""
			if p := core.Guard(func() { key, msg = CheckTxJSON(tx) }); p != "" {
				key, msg = "txjson-panic", p
			}
			c.Case(core.HashU64(core.HashU64(0, uint64(i)), uint64(2100+ti)), true)
			if key != "" {
				c.Violation("dotted:"+key, fmt.Sprintf("table names with dots (case %d, transaction %d): %s", i, ti, msg), map[string]interface{}{"mode": "dotted-names", "index": i, "tx": TxWitness(tx)})
				return
			}
		}
		c.Cell("dotted-names")
	}
}

func c20EndToEnd(c *core.Ctx) {
	nh := c.N(120, 1500)
	for idx := 0; idx < nh; idx++ {
		if !c.Mine(idx) {
			continue
		}
		h, tables, cb := c01History(c, idx)
		l := h.Build()
		start := hist.Pos{File: h.FirstFile, Off: 4}
		s, err := run.NewSession(l, tables, 2020, start, true)
		if err != nil {
			c.Inconclusive("cannot start master: " + err.Error())
			return
		}
		for _, g := range run.LibGoroutines(nil) {
			s.Abandon(g.ID)
		}
		s.M.SetDefault(&sim.Script{End: sim.EndEOF})
		hs := run.NoFaults()
		n := 0
		hs.OnCall = func(k int, tx *gobinlog.Transaction, d *run.Delivered) {
			n++
			key, msg := "", ""
			if p := core.Guard(func() { key, msg = CheckTxJSON(tx) }); p != "" {
				key, msg = "txjson-panic", p
			}
			if key != "" {
				c.Violation("e2e:"+key, fmt.Sprintf("history %d (%s) delivery %d: %s", idx, cb, k, msg), map[string]interface{}{"mode": "end-to-end", "hist": idx, "delivery": k, "tx": TxWitness(tx)})
			}
			c.Case(core.HashU64(core.HashU64(layoutHash(l), uint64(k)), 20), len(tx.Events) > 0)
		}
		s.Attempt(hs, nil, maxWait)
		s.Close()
		c.CellN("e2e:streamed-transactions", int64(n))
	}
}

// c20BigValues: valid UTF-8 values far larger than any plausible chunk or
// buffer size, made of multi-byte characters only (after 0..3 ASCII bytes), so
// that every cut at a byte offset that is not a multiple of the character
// width falls inside a character. They must be rendered verbatim.
func c20BigValues(c *core.Ctx) {
	chars := []string{"\u00e9", "\u20ac", "\U0001F600", "\u2028"}
	sizes := []int{4100, 8200, 33000, 65500, 65536 + 7, 131072 + 9, 300000}
	if !c.Quick() {
		sizes = append(sizes, 1<<20+5, 3<<20+1)
	}
	n := 0
	for _, ch := range chars {
		for shift := 0; shift < 4; shift++ {
			for _, size := range sizes {
				n++
				if !c.Mine(n) {
					continue
				}
				b := make([]byte, 0, size+8)
				for i := 0; i < shift; i++ {
					b = append(b, byte('a'+i))
				}
				for len(b) < size {
					b = append(b, ch...)
				}
				tx := &gobinlog.Transaction{NowPosition: gobinlog.Position{Filename: "f", Offset: 4}, NextPosition: gobinlog.Position{Filename: "f", Offset: int64(size)},
					Events: []*gobinlog.StreamEvent{{Type: gobinlog.StatementInsert, Table: gobinlog.MysqlTableName{DbName: "d", TableName: "t"},
						RowValues: []*gobinlog.RowData{{Columns: []*gobinlog.ColumnData{{Filed: "big", Type: 252, Data: b}, {Filed: "small", Type: 253, Data: []byte(ch)}}}}},
						{Type: gobinlog.StatementCreate, Query: replication.Query{Database: "d", SQL: "create table t /* " + string(b[:len(b)/2]) + " */ (a int)"}}}}
				key, msg := "", ""
				if p := core.Guard(func() { key, msg = CheckTxJSON(tx) }); p != "" {
					key, msg = "txjson-panic", p
				}
				c.Case(core.HashU64(core.HashU64(core.Hash64([]byte(ch)), uint64(shift)), uint64(size)), true)
				if key != "" {
					if len(msg) > 400 {
						msg = msg[:400] + "..."
					}
					c.Violation("bigvalue:"+key, fmt.Sprintf("value of %d bytes of %d-byte characters after %d ASCII bytes: %s", len(b), len(ch), shift, msg),
						map[string]interface{}{"mode": "big-values", "char": ch, "shift": shift, "size": size})
					return
				}
				c.Cell("big-multibyte-values")
			}
		}
	}
}

// c20RowsQueryProbe: a master with binlog_rows_query_log_events=ON logs the
// statement text in a ROWS_QUERY event in front of the table maps. The pinned
// library refuses that event (then there is nothing to serialise and the probe
// records that); a library that accepts it must still serialise the delivered
// transactions with all their rows.
func c20RowsQueryProbe(c *core.Ctx) {
	nh := c.N(24, 300)
	for idx := 0; idx < nh; idx++ {
		if !c.Mine(idx) {
			continue
		}
		h, tables, cb := c01History(c, 70000+idx)
		l := h.Build()
		start := hist.Pos{File: h.FirstFile, Off: 4}
		plan := sim.Plan(l, start)
		faults := map[int]sim.Fault{}
		for k, pk := range plan {
			if pk.Kind == "tablemap" && (k == 0 || plan[k-1].Kind != "tablemap") {
				cfg := l.Files[pk.File].Cfg
				faults[k] = sim.Fault{Kind: sim.FInject, Payload: cfg.EventNext(pk.Start, ev.RowsQuery, 0x80, ev.RowsQueryBody(fmt.Sprintf("insert into t values (%d) /* rows query */", k)), pk.Start)}
			}
		}
		if len(faults) == 0 {
			continue
		}
		s, err := run.NewSession(l, tables, 2021, start, false)
		if err != nil {
			c.Inconclusive("cannot start master: " + err.Error())
			return
		}
		for _, g := range run.LibGoroutines(nil) {
			s.Abandon(g.ID)
		}
		s.M.SetScripts(&sim.Script{End: sim.EndEOF, Faults: faults})
		res := s.Attempt(run.NoFaults(), nil, maxWait)
		c.Case(core.HashU64(layoutHash(l), 2021), true)
		switch {
		case res.Verdict != run.Returned:
			c.Cell("stream-not-returned(reported under C05)")
		case res.Err != nil:
			c.Cell("rows-query:refused-by-the-library")
		default:
			c.Cell("rows-query:accepted-by-the-library")
		}
		for di, d := range res.Delivered {
			if d.Ptr == nil {
				continue
			}
			key, msg := "", ""
			if p := core.Guard(func() { key, msg = checkTxJSON(d.Ptr, true) }); p != "" {
				key, msg = "txjson-panic", p
			}
			if key != "" {
				c.Violation("rowsquery:"+key, fmt.Sprintf("history %d (%s) with ROWS_QUERY events, delivery %d: %s", idx, cb, di, msg), witnessOf(map[string]interface{}{"mode": "rows-query", "hist": idx}, h, s, nil))
				s.Close()
				return
			}
		}
		s.Close()
	}
}
