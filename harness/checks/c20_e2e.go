package checks

import (
	"fmt"

	"github.com/Breeze0806/gobinlog"

	"verifharness/core"
	"verifharness/hist"
	"verifharness/run"
	"verifharness/sim"
)

// C20, end-to-end half: every transaction delivered while streaming C01's
// generated histories is serialised and checked with the same oracle as the
// synthetic ones (CheckTxJSON).
func init() {
	synthetic := core.Lookup("C20")
	core.Register("C20", func(c *core.Ctx) {
		synthetic(c)
		if c.Replay == "" {
			c20EndToEnd(c)
		}
	})
}

func c20EndToEnd(c *core.Ctx) {
	nh := c.N(48, 600)
	for idx := 0; idx < nh; idx++ {
		if !c.Mine(idx) {
			continue
		}
		h, tables, cb := c01History(c, idx)
		l := h.Build()
		start := hist.Pos{File: h.FirstFile, Off: 4}
		s, err := run.NewSession(l, tables, 2020, start, true)
		if err != nil {
			c.Inconclusive("cannot start master: " + err.Error())
			return
		}
		for _, g := range run.LibGoroutines(nil) {
			s.Abandon(g.ID)
		}
		s.M.SetDefault(&sim.Script{End: sim.EndEOF})
		hs := run.NoFaults()
		n := 0
		hs.OnCall = func(k int, tx *gobinlog.Transaction, d *run.Delivered) {
			n++
			key, msg := "", ""
			if p := core.Guard(func() { key, msg = CheckTxJSON(tx) }); p != "" {
				key, msg = "txjson-panic", p
			}
			if key != "" {
				c.Violation("e2e:"+key, fmt.Sprintf("history %d (%s) delivery %d: %s", idx, cb, k, msg), map[string]interface{}{"mode": "end-to-end", "hist": idx, "delivery": k, "tx": TxWitness(tx)})
			}
			c.Case(core.HashU64(core.HashU64(layoutHash(l), uint64(k)), 20), len(tx.Events) > 0)
		}
		s.Attempt(hs, nil, maxWait)
		s.Close()
		c.CellN("e2e:streamed-transactions", int64(n))
	}
}
