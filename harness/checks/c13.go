package checks

import (
	"bytes"
	"encoding/hex"
	"fmt"

	"verifharness/core"
	"verifharness/enc/ev"
	"verifharness/gen"
	"verifharness/hist"
	"verifharness/run"
	"verifharness/sim"
)

// C13 — string and binary values are verbatim; NULL, empty and absent differ.
//
// Part 1 (direct): a case is (column type, metadata, payload length, payload
// content class, placement). The cell image is written here — a little-endian
// length prefix whose width follows from the declaration alone (2 bytes iff
// the declared maximum exceeds 255 for VARCHAR / VAR_STRING / CHAR-BINARY, the
// metadata value for the blob family and GEOMETRY) followed by the payload —
// and CellBytes must hand back exactly the payload (non-nil even when empty)
// and report prefix+len consumed bytes.
//
// Part 2 (end to end): hand-built histories whose rows put every column
// position of 1..17-column tables into each of the states NULL, empty value
// and absent-from-the-image, in before and after images, streamed through the
// real Streamer from the simulated master.

func init() { core.Register("C13", c13Check) }

// ---------------------------------------------------------------- part 1

type c13Case struct {
	Type     byte   `json:"type"`
	Meta     uint16 `json:"metadata"`
	Declared int    `json:"declared_max"` // declared maximum in bytes (length-byte count for the blob family)
	PrefixW  int    `json:"prefix_width"` // oracle: width of the length prefix
	Len      int    `json:"payload_len"`
	Content  string `json:"content_class"`
	Fill     uint64 `json:"fill_seed"`
	PreLen   int    `json:"prefix_filler_len"`
	SufLen   int    `json:"suffix_filler_len"`
}

type c13Witness struct {
	Part   string        `json:"part"` // "direct" | "e2e"
	Case   *c13Case      `json:"case,omitempty"`
	Call   *cellCallInfo `json:"call,omitempty"`
	BufLen int           `json:"buf_len,omitempty"`
	Note   string        `json:"note,omitempty"`
	E2E    *c13Scn       `json:"scenario,omitempty"`
	Where  string        `json:"where,omitempty"`
	Stream interface{}   `json:"stream,omitempty"`
}

var c13Contents = [5]string{"random", "zeros", "ff", "utf8", "bad-utf8"}

var c13UTF8Unit = []byte("aé✓\U0001D11E日本") // 1+2+3+4+3+3 = 16 bytes
var c13BadUnit = []byte{0xC3, 0x28, 0xA0, 0xA1, 0xE2, 0x28, 0xA1, 0xFF, 0xFE, 0x80, 0xED, 0xA0, 0x80, 0xF8, 0xC0, 0xAF}

var c13Pool = func() []byte { return core.NewRng(0xC13, 1).Bytes(1 << 17) }()

// c13Payload is the payload of a case: a pure function of (class, n, fill).
func c13Payload(class string, n int, fill uint64) []byte {
	b := make([]byte, n)
	switch class {
	case "zeros":
	case "ff":
		for i := range b {
			b[i] = 0xff
		}
	case "utf8":
		// whole 16-byte units of 1..4-byte characters, ASCII padding in front
		pad := n % 16
		for i := 0; i < pad; i++ {
			b[i] = byte('a' + (int(fill)+i)%26)
		}
		for i := pad; i < n; i += 16 {
			copy(b[i:], c13UTF8Unit)
		}
	case "bad-utf8":
		off := int(fill % 16)
		for i := 0; i < n; i += 16 {
			copy(b[i:], c13BadUnit)
		}
		if n > 0 {
			b[0] = c13BadUnit[off] | 0x80
			b[n-1] = 0xE2 // a truncated three-byte sequence at the very end
		}
	default:
		off := int(fill % uint64(len(c13Pool)))
		k := copy(b, c13Pool[off:])
		for k < n {
			k += copy(b[k:], c13Pool)
		}
	}
	return b
}

func c13Filler(fill uint64, preLen, sufLen int) (pre, suf []byte) {
	r := core.NewRng(fill, 0xF1)
	pre, suf = r.Bytes(preLen), r.Bytes(sufLen)
	// a suffix that starts with 0xff bytes makes an over-long prefix read visible
	for i := 0; i < len(suf) && i < 2; i++ {
		suf[i] |= 0x81
	}
	return pre, suf
}

func c13Cell(cs *c13Case) (buf []byte, pos int, payload []byte) {
	payload = c13Payload(cs.Content, cs.Len, cs.Fill)
	pre, suf := c13Filler(cs.Fill, cs.PreLen, cs.SufLen)
	buf = make([]byte, 0, len(pre)+cs.PrefixW+len(payload)+len(suf))
	buf = append(buf, pre...)
	for i := 0; i < cs.PrefixW; i++ {
		buf = append(buf, byte(cs.Len>>(8*uint(i))))
	}
	buf = append(buf, payload...)
	buf = append(buf, suf...)
	return buf, len(pre), payload
}

type c13Tally struct {
	cells map[string]int64
	n     int64
	bytes int64
}

func (t *c13Tally) add(k string) { t.cells[k]++ }

// c13RunCell evaluates one direct case; it reports whether it held.
func c13RunCell(c *core.Ctx, cs *c13Case, t *c13Tally) bool {
	buf, pos, payload := c13Cell(cs)
	r := cellCall(buf, pos, cs.Type, cs.Meta, false)
	tn := rowTypeName(cs.Type, cs.Meta)
	if t != nil {
		t.n++
		t.bytes += int64(cs.Len)
		t.add("type=" + tn)
		t.add(fmt.Sprintf("type=%s:prefix-width=%d", tn, cs.PrefixW))
		t.add("content=" + cs.Content)
		switch {
		case cs.Len == 0:
			t.add("len=0")
		case cs.Len == 1:
			t.add("len=1")
		case cs.Len == 255:
			t.add("len=255")
		case cs.Len == 256:
			t.add("len=256")
		case cs.Len < 255:
			t.add("len=2..254")
		case cs.Len < 65535:
			t.add("len=257..65534")
		case cs.Len == 65535:
			t.add("len=65535")
		case cs.Len < 1<<24:
			t.add("len=65536..2^24-1")
		default:
			t.add("len>=2^24")
		}
		if cs.Type != ev.TTinyBlob && cs.Type != ev.TMediumBlob && cs.Type != ev.TLongBlob && cs.Type != ev.TBlob && cs.Type != ev.TGeometry {
			switch cs.Declared {
			case 255:
				t.add("boundary:declared=255")
			case 256:
				t.add("boundary:declared=256")
			case 0:
				t.add("boundary:declared=0")
			}
			if cs.Len == cs.Declared {
				t.add("len=declared-max")
			}
		}
		if pos == 0 {
			t.add("placement:pos=0")
		}
		if cs.SufLen == 0 {
			t.add("placement:value-ends-the-buffer")
		}
	}
	wantN := cs.PrefixW + cs.Len
	var key, msg string
	switch {
	case r.pan != "":
		key, msg = "string-panic:"+tn, "CellBytes panicked on a valid image: "+firstLine(r.pan)
	case r.err != nil:
		key, msg = "string-error:"+tn, "CellBytes returned an error for a valid image: "+r.err.Error()
	case r.n != wantN:
		key, msg = fmt.Sprintf("string-consumed:%s:prefix%d", tn, cs.PrefixW), fmt.Sprintf("consumed %d bytes, the cell has a %d-byte prefix and %d payload bytes", r.n, cs.PrefixW, cs.Len)
	case !bytes.Equal(r.out, payload):
		key, msg = "string-bytes-differ:"+tn, fmt.Sprintf("returned %d bytes %s, logged %d bytes %s", len(r.out), c09Clip(r.out), len(payload), c09Clip(payload))
	case r.out == nil:
		key, msg = "string-empty-is-nil:"+tn, "the empty value is returned as a nil slice (indistinguishable from NULL)"
	}
	if key == "" {
		if t != nil && cs.Len >= 2 && cs.Len <= 24 && cs.PreLen > 0 && c.WantSample() {
			c.Sample(map[string]interface{}{"part": "direct", "case": cs, "buf_hex": hex.EncodeToString(buf), "pos": pos, "returned_hex": hex.EncodeToString(r.out), "consumed": r.n, "held": true})
		}
		return true
	}
	var w interface{}
	if c.KeyCount(key) == 0 {
		wt := &c13Witness{Part: "direct", Case: cs, BufLen: len(buf)}
		if len(buf) <= 64<<10 {
			ci := cellInfo(buf, pos, buf[pos:pos+cs.PrefixW+cs.Len], cs.Type, cs.Meta, false, r, string(payload))
			ci.Got, ci.Want = "", ""
			wt.Call = &ci
		} else {
			wt.Note = "buffer too large to store; it is rebuilt from the case (payload and filler are pure functions of the case)"
		}
		w = wt
	}
	c.Violation(key, fmt.Sprintf("%s meta=%d declared=%d len=%d content=%s: %s", tn, cs.Meta, cs.Declared, cs.Len, cs.Content, msg), w)
	return false
}

func c13Place(r *core.Rng, cs *c13Case) {
	cs.Fill = r.U64()
	cs.PreLen = r.Intn(17)
	cs.SufLen = r.Intn(9)
}

// c13RandLen draws an actual length 0..max, half of the time a short one.
func c13RandLen(r *core.Rng, max int) int {
	if max <= 0 {
		return 0
	}
	switch r.Intn(8) {
	case 0, 1, 2, 3:
		lim := max
		if lim > 300 {
			lim = 300
		}
		return r.Intn(lim + 1)
	case 4:
		if max >= 256 {
			return 250 + r.Intn(12)
		}
	}
	return r.Intn(max + 1)
}

// c13Declared sweeps one length-prefixed type over a declared maximum.
func c13Declared(c *core.Ctx, t *c13Tally, typ byte, meta uint16, declared int, extras int, hashed *int) {
	w := 1
	if declared > 255 {
		w = 2
	}
	r := c.Rng(core.StrID("c13decl"), uint64(typ), uint64(declared))
	var lens [5]int
	n := 0
	for _, l := range [5]int{0, 1, 255, 256, declared} {
		if l > declared {
			continue
		}
		dup := false
		for _, o := range lens[:n] {
			if o == l {
				dup = true
			}
		}
		if !dup {
			lens[n] = l
			n++
		}
	}
	for i, l := range lens[:n] {
		cs := c13Case{Type: typ, Meta: meta, Declared: declared, PrefixW: w, Len: l, Content: c13Contents[(declared+i)%5]}
		c13Place(r, &cs)
		c13RunCell(c, &cs, t)
	}
	c.Bulk(int64(n), int64(n))
	for i := 0; i < extras; i++ {
		cs := c13Case{Type: typ, Meta: meta, Declared: declared, PrefixW: w, Len: c13RandLen(r, declared), Content: c13Contents[r.Intn(5)]}
		c13Place(r, &cs)
		h := uint64(0)
		if *hashed < cellHashBudget {
			*hashed++
			h = core.HashU64(core.HashU64(core.HashU64(core.HashAdd(0, []byte(cs.Content)), uint64(typ)<<32|uint64(meta)), uint64(cs.Len)), cs.Fill)
		}
		c.Case(h, true)
		c13RunCell(c, &cs, t)
	}
}

var c13BlobTypes = []byte{ev.TTinyBlob, ev.TMediumBlob, ev.TLongBlob, ev.TBlob, ev.TGeometry}

func c13BlobLens(w int) []int {
	all := []int{0, 1, 255, 256, 257, 65535, 65536, 65537, 70001, 131069, 131070, 131071, 131072, 196607, 262143}
	var out []int
	for _, l := range all {
		if l <= c09BlobCap(w) {
			out = append(out, l)
		}
	}
	return out
}

func c13Direct(c *core.Ctx, slot *int) {
	t := &c13Tally{cells: map[string]int64{}}
	hashed := 0
	extras := c.N(3, 120)
	// declared lengths around the 255/256 prefix-width boundary get many more random payloads
	near := func(declared int) int {
		if declared <= 600 {
			return c.N(40, 1200)
		}
		return 0
	}
	for _, typ := range []byte{ev.TVarchar, ev.TVarString} {
		for max := 0; max < 65536; max++ {
			if c.Mine(*slot) {
				c13Declared(c, t, typ, uint16(max), max, extras+near(max), &hashed)
			}
			*slot++
		}
	}
	c.ExhaustiveDomain("VARCHAR (15) and VAR_STRING (253): every declared maximum 0..65535 x actual lengths {0,1,255,256,max} (those <= max)")
	extras = c.N(4, 300)
	for n := 0; n < 1024; n++ {
		if c.Mine(*slot) {
			c13Declared(c, t, ev.TString, gen.StringMeta(ev.TString, n), n, extras+near(n), &hashed)
		}
		*slot++
	}
	c.ExhaustiveDomain("CHAR/BINARY as TypeString (254): every declared length 0..1023 (metadata packed as real_type ^ ((len & 0x300) >> 4), len & 0xff) x actual lengths {0,1,255,256,max} (those <= max)")
	// blob family and GEOMETRY: 1..4 length bytes
	nrand := c.N(2000, 100000)
	for _, typ := range c13BlobTypes {
		for w := 1; w <= 4; w++ {
			r := c.Rng(core.StrID("c13blob"), uint64(typ), uint64(w))
			if c.Mine(*slot) {
				cnt := 0
				for _, l := range c13BlobLens(w) {
					for ci := range c13Contents {
						cs := c13Case{Type: typ, Meta: uint16(w), Declared: w, PrefixW: w, Len: l, Content: c13Contents[ci]}
						c13Place(r, &cs)
						c13RunCell(c, &cs, t)
						cnt++
					}
				}
				c.Bulk(int64(cnt), int64(cnt))
			}
			*slot++
			// lengths that need the third and the fourth length byte
			var huge []int
			if w == 3 {
				huge = []int{1<<24 - 1}
			}
			if w == 4 {
				huge = []int{1<<24 - 1, 1 << 24, 1<<24 + 1}
			}
			for hi, l := range huge {
				if c.Mine(*slot) {
					cs := c13Case{Type: typ, Meta: uint16(w), Declared: w, PrefixW: w, Len: l, Content: c13Contents[(hi+int(typ))%5]}
					c13Place(r, &cs)
					c13RunCell(c, &cs, t)
					c.Bulk(1, 1)
				}
				*slot++
			}
			// random lengths, in batches so that the shards share them
			const batch = 500
			for b := 0; b*batch < nrand; b++ {
				if c.Mine(*slot) {
					rb := c.Rng(core.StrID("c13blobrand"), uint64(typ), uint64(w), uint64(b))
					for i := 0; i < batch && b*batch+i < nrand; i++ {
						var l int
						switch rb.Intn(10) {
						case 0:
							l = 65530 + rb.Intn(12)
						case 1:
							l = 250 + rb.Intn(12)
						case 2:
							l = rb.Intn(200000)
						default:
							l = rb.Intn(400)
						}
						if l > c09BlobCap(w) {
							l = rb.Intn(c09BlobCap(w) + 1)
						}
						cs := c13Case{Type: typ, Meta: uint16(w), Declared: w, PrefixW: w, Len: l, Content: c13Contents[rb.Intn(5)]}
						c13Place(rb, &cs)
						h := uint64(0)
						if hashed < cellHashBudget {
							hashed++
							h = core.HashU64(core.HashU64(core.HashU64(core.HashAdd(0, []byte(cs.Content)), uint64(typ)<<32|uint64(w)), uint64(cs.Len)), cs.Fill)
						}
						c.Case(h, true)
						c13RunCell(c, &cs, t)
					}
				}
				*slot++
			}
		}
	}
	c.ExhaustiveDomain("TINY/MEDIUM/LONG/BLOB (249..252) and GEOMETRY (255) x length bytes 1..4 x actual lengths {0,1,255,256,257,65535,65536,65537,70001, 131069..131072, 196607, 262143, 2^24-1, 2^24, 2^24+1} (those the prefix can express) x 5 content classes (the three 16 MB lengths with one class each)")
	for k, v := range t.cells {
		c.CellN("direct:"+k, v)
	}
	c.Note("direct_cells", t.n)
	c.Note("direct_payload_bytes", t.bytes)
}

// ---------------------------------------------------------------- part 2

type c13Scn struct {
	N     int  `json:"ncols"`
	NoID  bool `json:"no_id_column"`
	Rep   int  `json:"rep"`
	Index int  `json:"index"`
}

type c13ColSpec struct {
	typ      byte
	meta     uint16
	w        int // prefix width (oracle side)
	declared int
}

var c13E2ECols = []c13ColSpec{
	{ev.TVarchar, 40, 1, 40}, {ev.TVarchar, 300, 2, 300}, {ev.TVarchar, 255, 1, 255}, {ev.TVarchar, 256, 2, 256},
	{ev.TString, gen.StringMeta(ev.TString, 30), 1, 30}, {ev.TString, gen.StringMeta(ev.TString, 600), 2, 600},
	{ev.TTinyBlob, 1, 1, 1}, {ev.TBlob, 2, 2, 2}, {ev.TMediumBlob, 3, 3, 3}, {ev.TLongBlob, 4, 4, 4}, {ev.TGeometry, 4, 4, 4},
	{ev.TVarString, 100, 1, 100}, {ev.TVarString, 1000, 2, 1000}, {ev.TBlob, 1, 1, 1}, {ev.TBlob, 3, 3, 3}, {ev.TBlob, 4, 4, 4},
	{ev.TGeometry, 1, 1, 1}, {ev.TString, gen.StringMeta(ev.TString, 255), 1, 255}, {ev.TString, gen.StringMeta(ev.TString, 256), 2, 256},
	{ev.TVarchar, 65535, 2, 65535}, {ev.TVarchar, 0, 1, 0},
}

const (
	c13Null = iota
	c13Empty
	c13Value
)

var c13StateNames = [3]string{"null", "empty", "value"}

type c13Table struct {
	t     *hist.Table
	specs []c13ColSpec // per column; zero value for the id column
	first int          // first varied column position
}

func c13MakeTable(r *core.Rng, scn c13Scn) *c13Table {
	ct := &c13Table{t: &hist.Table{ID: uint64(1000 + scn.Index), DB: fmt.Sprintf("db%d", scn.N%3), Name: fmt.Sprintf("t%d_%d", scn.N, scn.Rep), Flags: 1},
		specs: make([]c13ColSpec, scn.N)}
	off := r.Intn(len(c13E2ECols))
	for i := 0; i < scn.N; i++ {
		if i == 0 && !scn.NoID {
			ct.t.Cols = append(ct.t.Cols, hist.Column{Name: "id", Type: ev.TLongLong, Unsigned: true})
			ct.first = 1
			continue
		}
		sp := c13E2ECols[(off+i*(1+scn.Rep%3)+scn.Rep)%len(c13E2ECols)]
		if sp.declared == 0 && sp.typ == ev.TVarchar {
			sp = c13E2ECols[0] // VARCHAR(0) can only hold the empty value; keep it out of the end-to-end tables
		}
		ct.specs[i] = sp
		ct.t.Cols = append(ct.t.Cols, hist.Column{Name: fmt.Sprintf("c%d", i), Type: sp.typ, Meta: sp.meta, Nullable: true})
	}
	return ct
}

func (ct *c13Table) value(r *core.Rng, col int, state int, id uint64) hist.Value {
	if col == 0 && ct.first == 1 {
		enc := make([]byte, 8)
		for i := range enc {
			enc[i] = byte(id >> (8 * uint(i)))
		}
		return hist.Value{Enc: enc, Text: []byte(fmt.Sprint(id))}
	}
	sp := ct.specs[col]
	switch state {
	case c13Null:
		return hist.Value{Null: true}
	case c13Empty:
		return hist.Value{Enc: make([]byte, sp.w), Text: []byte{}}
	}
	n := 1 + r.Intn(12)
	if sp.w != 1 && sp.typ != ev.TGeometry && r.Chance(1, 6) && (sp.typ != ev.TVarchar && sp.typ != ev.TVarString && sp.typ != ev.TString || sp.declared >= 300) {
		n = 256 + r.Intn(40)
	}
	if n > sp.declared && (sp.typ == ev.TVarchar || sp.typ == ev.TVarString || sp.typ == ev.TString) {
		n = sp.declared
	}
	if sp.w >= 3 && sp.typ != ev.TGeometry && r.Chance(1, 24) {
		n = 1<<20 + r.Intn(64) // a row image of more than a megabyte (with NULL / empty / small siblings)
	}
	var data []byte
	switch r.Intn(4) {
	case 0:
		data = make([]byte, n) // a value made of 0x00 bytes is not the empty value
	case 1:
		data = c13Payload("utf8", n, r.U64())
	default:
		data = r.Bytes(n)
	}
	enc := make([]byte, sp.w, sp.w+n)
	for i := 0; i < sp.w; i++ {
		enc[i] = byte(n >> (8 * uint(i)))
	}
	enc = append(enc, data...)
	return hist.Value{Enc: enc, Text: enc[sp.w:]}
}

// image draws a row image: column p (if >= 0) gets state st, the other varied
// columns a random state.
func (ct *c13Table) image(r *core.Rng, p, st int, id uint64) []hist.Value {
	vals := make([]hist.Value, len(ct.t.Cols))
	for i := range vals {
		s := r.Intn(3)
		if i == p {
			s = st
		}
		vals[i] = ct.value(r, i, s, id)
	}
	return vals
}

func c13Full(n int) []bool {
	p := make([]bool, n)
	for i := range p {
		p[i] = true
	}
	return p
}

// c13History builds the history of one scenario: three transactions (insert,
// update, delete), each holding the full / absent-p / only-p events for every
// varied position p.
func c13History(c *core.Ctx, scn c13Scn) (*hist.History, *hist.Layout, []*hist.Table, *c13Table) {
	r := c.Rng(core.StrID("c13e2e"), uint64(scn.N), uint64(scn.Rep), boolU64(scn.NoID))
	combos := allCombos()
	cb := combos[(scn.Index*5+scn.Rep)%len(combos)]
	o := cb.hopts(r)
	o.MaxTables, o.MaxCols, o.MaxStmts, o.MaxRows, o.MaxEvents = 1, 1, 1, 1, 1
	b := gen.NewBuilder(r, o)
	ct := c13MakeTable(r, scn)
	t := ct.t
	n := scn.N
	for _, kind := range []ev.RowsKind{ev.KWrite, ev.KUpdate, ev.KDelete} {
		hasB, hasA := kind != ev.KWrite, kind != ev.KDelete
		var events []hist.RowsEvent
		newEvent := func(pb, pa []bool) *hist.RowsEvent {
			e := hist.RowsEvent{Kind: kind, Table: t, TS: b.TS()}
			if hasB {
				e.PresentBefore = pb
			}
			if hasA {
				e.PresentAfter = pa
			}
			if cb.RowsV2 && r.Chance(1, 4) {
				e.Extra = r.Bytes([]int{1, 8, 253}[r.Intn(3)])
			}
			events = append(events, e)
			return &events[len(events)-1]
		}
		addRow := func(e *hist.RowsEvent, p, sb, sa int) {
			id := b.ID()
			row := hist.Row{}
			if hasB {
				row.Before = ct.image(r, p, sb, id)
			}
			if hasA {
				row.After = ct.image(r, p, sa, id)
			}
			e.Rows = append(e.Rows, row)
		}
		// full images: every position in every state (update: the two images hold different states)
		e := newEvent(c13Full(n), c13Full(n))
		if ct.first >= n {
			addRow(e, -1, 0, 0)
		}
		for p := ct.first; p < n; p++ {
			for s := 0; s < 3; s++ {
				addRow(e, p, s, (s+1)%3)
			}
		}
		for p := ct.first; p < n; p++ {
			// only p (and the id) present
			only := make([]bool, n)
			only[p] = true
			if ct.first == 1 {
				only[0] = true
			}
			e := newEvent(only, only)
			for s := 0; s < 3; s++ {
				addRow(e, p, s, (s+2)%3)
			}
			// p absent
			if n-ct.first < 2 && ct.first == 0 {
				continue // a one-column table without id: nothing else could be present
			}
			without := c13Full(n)
			without[p] = false
			if kind == ev.KUpdate {
				for _, v := range [][2][]bool{{without, c13Full(n)}, {c13Full(n), without}, {without, without}} {
					e := newEvent(v[0], v[1])
					addRow(e, -1, 0, 0)
					addRow(e, -1, 0, 0)
				}
			} else {
				e := newEvent(without, without)
				addRow(e, -1, 0, 0)
				addRow(e, -1, 0, 0)
			}
		}
		u := b.Unit(hist.TxXID)
		u.Stmts = []hist.Stmt{{Kind: hist.StmtRows, MapTS: b.TS(), TableMaps: []*hist.Table{t}, Rows: events}}
		u.EndTS = b.TS()
		b.H.Units = append(b.H.Units, u)
	}
	return b.H, b.H.Build(), []*hist.Table{t}, ct
}

func boolU64(b bool) uint64 {
	if b {
		return 1
	}
	return 0
}

func c13WantState(e *hist.ExpCol) string {
	switch {
	case e.Absent:
		return "absent"
	case e.Val.Null:
		return "null"
	case len(e.Val.Text) == 0:
		return "empty"
	}
	return "value"
}

func c13GotState(g *run.DCol) string {
	switch {
	case g.IsEmpty:
		return "absent"
	case g.Data == nil:
		return "null"
	case len(g.Data) == 0:
		return "empty"
	}
	return "value"
}

// c13RunE2E streams one scenario and applies the three-way rule to every
// delivered column.
func c13RunE2E(c *core.Ctx, scn c13Scn) {
	c.Log("C13 e2e %+v", scn)
	h, l, tables, ct := c13History(c, scn)
	start := hist.Pos{File: h.FirstFile, Off: 4}
	exp := hist.Expect(h, l, start)
	s, err := run.NewSession(l, tables, 1313, start, scn.Index%4 != 3)
	if err != nil {
		c.Inconclusive("cannot start master: " + err.Error())
		return
	}
	defer s.Close()
	s.M.SetDefault(&sim.Script{End: sim.EndEOF})
	res := s.Attempt(run.NoFaults(), nil, maxWait)
	lh := layoutHash(l)
	wit := func(where string, extra map[string]interface{}) interface{} {
		if extra == nil {
			extra = map[string]interface{}{}
		}
		extra["stream_err"] = errStr(res.Err)
		sc := scn
		return &c13Witness{Part: "e2e", E2E: &sc, Where: where, Stream: witnessOf(scn, h, s, extra)}
	}
	viol := func(key, where, msg string) {
		var w interface{}
		if c.KeyCount(key) == 0 {
			w = wit(where, nil)
		}
		c.Violation(key, fmt.Sprintf("e2e ncols=%d no-id=%v rep=%d %s: %s", scn.N, scn.NoID, scn.Rep, where, msg), w)
	}
	if res.Verdict != run.Returned {
		c.Inconclusive(fmt.Sprintf("C13 e2e %+v: Stream did not return (termination is C05's subject)", scn))
		return
	}
	if res.Panic != "" {
		viol("e2e-stream-panic", "Stream", "Stream panicked on a well-formed history: "+res.Panic)
		return
	}
	if len(res.Delivered) != len(exp) {
		viol("e2e-delivery-missing", "deliveries", fmt.Sprintf("%d transactions delivered, %d logged (Stream returned %v)", len(res.Delivered), len(exp), errStr(res.Err)))
		return
	}
	rowOrd := uint64(0)
	seen := map[string]int{}
	for ti := range exp {
		if len(exp[ti].Events) != len(res.Delivered[ti].Events) {
			viol("e2e-delivery-missing", fmt.Sprintf("tx%d", ti), fmt.Sprintf("%d events delivered, %d logged", len(res.Delivered[ti].Events), len(exp[ti].Events)))
			return
		}
		for ei := range exp[ti].Events {
			ee, ge := &exp[ti].Events[ei], &res.Delivered[ti].Events[ei]
			kindName := map[int]string{hist.StInsert: "insert", hist.StUpdate: "update", hist.StDelete: "delete"}[ee.Type]
			for _, sd := range []struct {
				name string
				e    [][]hist.ExpCol
				g    [][]run.DCol
			}{{"after", ee.Values, ge.Values}, {"before", ee.Idents, ge.Idents}} {
				if len(sd.e) != len(sd.g) {
					viol("e2e-delivery-missing", fmt.Sprintf("tx%d.ev%d.%s", ti, ei, sd.name), fmt.Sprintf("%d row images delivered, %d logged", len(sd.g), len(sd.e)))
					return
				}
				for ri := range sd.e {
					if len(sd.e[ri]) != len(sd.g[ri]) {
						viol("e2e-delivery-missing", fmt.Sprintf("tx%d.ev%d.row%d.%s", ti, ei, ri, sd.name), fmt.Sprintf("%d columns delivered, the table has %d", len(sd.g[ri]), len(sd.e[ri])))
						return
					}
					rowOrd++
					special := false
					for ci := range sd.e[ri] {
						e, g := &sd.e[ri][ci], &sd.g[ri][ci]
						where := fmt.Sprintf("tx%d.ev%d(%s).row%d.%s[%d]", ti, ei, kindName, ri, sd.name, ci)
						want, got := c13WantState(e), c13GotState(g)
						tn := rowTypeName(e.Type, 0)
						if want != "value" {
							special = true
						}
						if ci >= ct.first {
							seen[fmt.Sprintf("%s/%s/%d/%s", kindName, sd.name, ci, want)]++
							c.Cell("e2e:state=" + want + ":" + kindName + "-" + sd.name)
							c.Cell("e2e:type=" + tn + ":" + want)
						}
						switch {
						case want == "absent" && !g.IsEmpty:
							viol("absent-not-flagged", where, fmt.Sprintf("column absent from the image is delivered with IsEmpty=false (Data nil=%v len=%d)", g.Data == nil, len(g.Data)))
						case want != "absent" && g.IsEmpty:
							viol("present-flagged-absent", where, fmt.Sprintf("column present in the image (%s) is delivered with IsEmpty=true", want))
						case want == "null" && g.Data != nil:
							viol("null-has-data", where, fmt.Sprintf("SQL NULL is delivered with non-nil data (len %d) %s", len(g.Data), c09Clip(g.Data)))
						case want == "empty" && g.Data == nil:
							viol("empty-delivered-as-nil", where, fmt.Sprintf("the empty %s value is delivered as nil data, i.e. as NULL", tn))
						case want == "value" && g.Data == nil:
							viol("value-delivered-as-nil", where, fmt.Sprintf("a non-empty %s value is delivered as nil data", tn))
						case (want == "empty" || want == "value") && !bytes.Equal(g.Data, e.Val.Text):
							viol("e2e-bytes-differ:"+tn, where, fmt.Sprintf("delivered %s, logged %s", c09Clip(g.Data), c09Clip(e.Val.Text)))
						case want != got && want != "absent":
							viol("e2e-state-confused", where, fmt.Sprintf("logged %s, delivered %s", want, got))
						}
					}
					c.Case(core.HashU64(lh, rowOrd), special)
				}
			}
		}
	}
	c.Note("e2e_row_images", int64(rowOrd))
	c.Cell(fmt.Sprintf("e2e:ncols=%02d", scn.N))
	if scn.NoID {
		c.Cell("e2e:table=no-id-column")
	} else {
		c.Cell("e2e:table=id-first")
	}
	// self-check of the workload: every varied position was seen in every state on every image side
	for p := ct.first; p < scn.N; p++ {
		for _, ks := range [][2]string{{"insert", "after"}, {"update", "after"}, {"update", "before"}, {"delete", "before"}} {
			for _, st := range []string{"null", "empty", "value", "absent"} {
				if st == "absent" && scn.N-ct.first < 2 && ct.first == 0 {
					continue
				}
				if seen[fmt.Sprintf("%s/%s/%d/%s", ks[0], ks[1], p, st)] == 0 {
					c.Inconclusive(fmt.Sprintf("C13 e2e %+v: position %d was never delivered in state %s of the %s %s image (workload hole)", scn, p, st, ks[0], ks[1]))
				}
			}
		}
	}
	if c.WantSample() && scn.N >= 3 && scn.N <= 5 {
		c.Sample(map[string]interface{}{"part": "e2e", "scenario": scn, "transactions": len(exp), "row_images": rowOrd, "stream_err": errStr(res.Err), "held": true})
	}
}

func c13Scenarios(c *core.Ctx) []c13Scn {
	var out []c13Scn
	reps := c.N(3, 12)
	for rep := 0; rep < reps; rep++ {
		for n := 1; n <= 17; n++ {
			for _, noID := range []bool{false, true} {
				out = append(out, c13Scn{N: n, NoID: noID, Rep: rep, Index: len(out)})
			}
		}
	}
	return out
}

// ---------------------------------------------------------------- driver

func c13Check(c *core.Ctx) {
	c.SetRule("Part 1 (direct CellBytes): for VARCHAR (15) and VAR_STRING (253) every declared maximum 0..65535, for CHAR/BINARY (TypeString) every declared length 0..1023, for TINY/MEDIUM/LONG/BLOB and GEOMETRY every length-byte count 1..4: " +
		"payloads of the lengths {0,1,255,256,declared max} (blob family: {0,1,255,256,257,65535,65536,65537,70001,131069..131072,196607,262143} and, for 3/4 length bytes, 2^24-1, 2^24, 2^24+1) that the declaration allows, plus random lengths " +
		"(quick 3 / thorough 120 per declared VARCHAR maximum, 4 / 300 per CHAR length, another 40 / 1200 for every declared length <= 600, 2000 / 100000 per blob type and width), content classes {random bytes, all 0x00, all 0xFF, valid UTF-8 with 1..4-byte characters, invalid UTF-8}, " +
		"the cell placed after 0..16 filler bytes and before 0..8 filler bytes. Required: returned bytes == payload, non-nil also for length 0, consumed == prefix width + length, prefix width 2 iff declared > 255 (blob family: the metadata value). " +
		"JSON is left to C14. A direct case is (type, metadata, length, content class, filler seed); every one counts as non-trivial (length 0 is a required class). " +
		"Part 2 (end to end): for tables of 1..17 columns (first column the id; and a variant without id column) whose other columns are VARCHAR/VAR_STRING/CHAR/blob/GEOMETRY with 1-, 2-, 3- and 4-byte prefixes, a history of an insert, an update and a delete transaction " +
		"in which every column position is NULL, the empty value, a non-empty value (full images and images that hold only that column), and absent from the image (update: absent from the before image, the after image, both), " +
		"the other columns in random states; streamed by the real Streamer from the simulated master; every delivered column is classified by (IsEmpty, Data==nil, len) and compared with the logged state. " +
		"An end-to-end case is one delivered row image; non-trivial iff it holds a NULL, an empty value or an absent column.")
	c.Assume("cell layout of length-prefixed types as in DESIGN Appendix A; simulated master as in C01")
	if c.Replay != "" {
		c13Replay(c)
		return
	}
	slot := 0
	// end to end first (needs sockets; cheap)
	for _, scn := range c13Scenarios(c) {
		if c.Mine(slot) {
			c13RunE2E(c, scn)
		}
		slot++
	}
	c.ExhaustiveDomain("end to end: every column position of tables with 1..17 columns (id first: positions 1..n-1; without id column: positions 0..n-1) x {NULL, empty value, non-empty value, absent} x {insert after image, update before image, update after image, delete before image} (absent is impossible for the only column of a one-column table)")
	c13Direct(c, &slot)
}

func c13Replay(c *core.Ctx) {
	var w c13Witness
	if err := cellReadWitness(c.Replay, &w); err != nil {
		c.Inconclusive("cannot read witness: " + err.Error())
		return
	}
	switch {
	case w.Part == "direct" && w.Case != nil:
		cs := *w.Case
		c.Case(core.HashU64(core.HashU64(uint64(cs.Type)<<32|uint64(cs.Meta), uint64(cs.Len)), cs.Fill), true)
		if w.Call != nil && w.Call.BufHex != "" {
			// the stored buffer must be the one the case describes
			buf, _, _ := c13Cell(&cs)
			if hex.EncodeToString(buf) != w.Call.BufHex {
				c.Inconclusive("witness buffer differs from the buffer rebuilt from the case")
				return
			}
		}
		if c13RunCell(c, &cs, nil) {
			c.Cell("replay-held")
		}
	case w.Part == "e2e" && w.E2E != nil:
		before := c.TotalViolations()
		c13RunE2E(c, *w.E2E)
		if c.TotalViolations() == before {
			c.Cell("replay-held")
		}
	default:
		c.Inconclusive("witness has no replayable case")
	}
}
