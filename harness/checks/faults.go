package checks

import (
	"context"
	"fmt"
	"strings"
	"sync"

	"github.com/Breeze0806/gobinlog"

	"verifharness/core"
	"verifharness/enc/ev"
	"verifharness/gen"
	"verifharness/hist"
	"verifharness/run"
	"verifharness/sim"
	"verifharness/xport"
)

// faultSpec is one scripted way for a stream attempt to end.
type faultSpec struct {
	Kind  string `json:"kind"`
	At    int    `json:"at"`   // packet index / transaction ordinal / mapper call ordinal (0-based, within the attempt)
	Lock  bool   `json:"lock"` // lock-step pacing (else the master is far ahead)
	Code  uint16 `json:"code,omitempty"`
	Msg   string `json:"msg,omitempty"`
	State string `json:"state,omitempty"`
	Slow  int    `json:"slow_us,omitempty"` // handler sleep per call
}

func (f faultSpec) String() string {
	p := "far"
	if f.Lock {
		p = "lock"
	}
	return fmt.Sprintf("%s@%d/%s", f.Kind, f.At, p)
}

// Fault kinds. Packet kinds are addressed by packet index of the attempt.
var packetKinds = []string{"fin", "rst", "short0", "zerolen", "cut", "badseq", "err", "eof", "cancel-master",
	"inject-rowsquery", "inject-intvar", "inject-rand", "inject-invalid",
	"inject-baddecode-before", "inject-baddecode-after", "inject-baddecode-write", "inject-baddecode-delete",
	"inject-hdronly-tablemap", "inject-hdronly-rows", "inject-hdronly-query", "inject-hdronly-fde", "inject-hdronly-rotate", "inject-hdronly-nocrc-rotate"}
var txKinds = []string{"cancel-handler", "handler-err", "handler-err-cancel", "handler-ctxerr-cancel"}
var mapperKinds = []string{"mapper-err", "mapper-count", "mapper-err-cancel", "mapper-count-cancel"}

// preconnKinds fail the attempt before a reader exists.
var preconnKinds = []string{"connect-refused", "handshake-garbage", "handshake-close", "handshake-err", "auth-err", "set-rejected", "set-close", "dump-write-fail", "dump-write-late-error"}

func isPacketKind(k string) bool { return inList(packetKinds, k) }
func isTxKind(k string) bool     { return inList(txKinds, k) }
func isMapperKind(k string) bool { return inList(mapperKinds, k) }
func isPreconn(k string) bool    { return inList(preconnKinds, k) }
func inList(l []string, k string) bool {
	for _, x := range l {
		if x == k {
			return true
		}
	}
	return false
}

// causeClass groups fault kinds by what C06 says about them.
func causeClass(k string) string {
	switch k {
	case "clean-eof", "eof":
		return "eof"
	case "cancel-master", "cancel-handler", "cancel-idle", "cancel-blocked", "cancel-late-packet":
		return "cancel"
	case "cancel-during-set":
		return "cancel-during-handshake"
	case "cancel-at-dial":
		return "cancel-at-dial"
	case "err":
		return "master-err"
	case "fin", "rst", "zerolen", "badseq", "read-error", "fin-blocked", "rst-blocked":
		return "transport"
	case "err-blocked":
		return "master-err"
	case "eof-blocked":
		return "eof"
	case "short0", "cut", "inject-invalid":
		return "gate-reject"
	case "inject-rowsquery", "inject-intvar", "inject-rand":
		return "unsupported-event"
	case "inject-baddecode-before", "inject-baddecode-after", "inject-baddecode-write", "inject-baddecode-delete":
		return "undecodable-event"
	case "inject-hdronly-tablemap", "inject-hdronly-rows", "inject-hdronly-query", "inject-hdronly-fde", "inject-hdronly-rotate", "inject-hdronly-nocrc-rotate":
		return "undecodable-event"
	case "handler-err", "handler-err-cancel", "handler-ctxerr-cancel":
		return "handler"
	case "mapper-err", "mapper-count", "mapper-err-cancel", "mapper-count-cancel":
		return "mapper"
	}
	if isPreconn(k) {
		return "preconnect"
	}
	return "other"
}

// hostileNext is put into injected events so that a leak into the kept
// position is visible.
const hostileNext = 0xfffffff0

// injected builds the event a fault injects at plan packet k.
func injected(kind string, l *hist.Layout, pk sim.PlanPkt, r *core.Rng) []byte {
	cfg := l.Files[pk.File].Cfg
	switch kind {
	case "inject-rowsquery":
		return cfg.EventNext(1, ev.RowsQuery, 0, ev.RowsQueryBody("insert into t values (1)"), hostileNext)
	case "inject-intvar":
		return cfg.EventNext(1, ev.IntVar, 0, ev.IntVarBody(2, 99), hostileNext)
	case "inject-rand":
		return cfg.EventNext(1, ev.Rand, 0, ev.RandBody(1, 2), hostileNext)
	case "inject-hdronly-tablemap", "inject-hdronly-rows", "inject-hdronly-query", "inject-hdronly-fde", "inject-hdronly-rotate":
		// a full header whose length field is right, and no body at all: it
		// passes the validity test and cannot be decoded
		typ := map[string]byte{"tablemap": ev.TableMap, "rows": cfg.RowsType(ev.RowsKind(r.Intn(3))), "query": ev.Query, "fde": ev.FormatDescription, "rotate": ev.Rotate}[kind[len("inject-hdronly-"):]]
		return cfg.EventNext(1, typ, 0, nil, hostileNext)
	case "inject-hdronly-nocrc-rotate":
		// the same without the four checksum bytes the file's setting announces
		return ev.Raw(1, ev.Rotate, cfg.ServerID, 0, nil, hostileNext, false)
	case "inject-invalid":
		b := cfg.EventNext(1, ev.XID, 0, ev.XIDBody(7), hostileNext)
		// length field says one byte more than there is: the gate must reject it
		n := uint32(len(b) + 1)
		b[9], b[10], b[11], b[12] = byte(n), byte(n>>8), byte(n>>16), byte(n>>24)
		return b
	}
	return nil
}

// badDecode builds a table map for run.BadTable and a rows event of it in
// which one image holds a JSON cell of an unknown value type (the other image,
// if any, is fine): a well-formed event that cannot be decoded.
func badDecode(kind string, cfg *ev.Cfg) (tm, rows []byte) {
	t := run.BadTable
	tm = cfg.EventNext(1, ev.TableMap, 0, cfg.TableMapBody(t.ID, 1, t.DB, t.Name, []byte{ev.TLong, ev.TJSON}, []uint16{0, 4}, []bool{false, true}, nil), hostileNext)
	img := func(typ byte) []byte { return []byte{7, 0, 0, 0 /* id */, 2, 0, 0, 0 /* doc length */, typ, 1} }
	good, bad := img(4), img(13) // literal true / no such type
	all := []bool{true, true}
	row := ev.RowImage{BeforeNull: []bool{false, false}, AfterNull: []bool{false, false}}
	k := ev.KUpdate
	switch kind {
	case "inject-baddecode-before":
		row.Before, row.After = bad, good
	case "inject-baddecode-after":
		row.Before, row.After = good, bad
	case "inject-baddecode-write":
		k, row.After = ev.KWrite, bad
	case "inject-baddecode-delete":
		k, row.Before = ev.KDelete, bad
	}
	rows = cfg.EventNext(1, cfg.RowsType(k), 0, cfg.RowsBody(k, t.ID, 1, nil, 2, all, all, []ev.RowImage{row}), hostileNext)
	return tm, rows
}

// randMsg draws a printable master error message (may contain UTF-8).
func randMsg(r *core.Rng) string {
	words := []string{"Could not find first log file name", "binlog truncated", "Slave has more GTIDs than the master",
		"Got fatal error 1236", "misconfigured", "héllo wörld", "日本語のエラー", "log event entry exceeded max_allowed_packet",
		"Client requested master to start replication from impossible position", "x"}
	s := words[r.Intn(len(words))] + fmt.Sprintf(" #%d", r.Intn(1000000))
	if r.Chance(1, 6) {
		// a master (or a proxy in front of it) may word its error like the texts
		// the library and the Go runtime use for their own conditions
		s += []string{": context canceled", "; context deadline exceeded", ": EOF", " stream reached EOF", ": invalid connection", " bad connection", " use of closed network connection"}[r.Intn(7)]
	}
	return s
}

// attemptObs is everything observed about one attempt.
type attemptObs struct {
	mu        sync.Mutex
	Spec      faultSpec
	Res       *run.AttemptResult
	Err1      *run.ErrorResult
	Err2      *run.ErrorResult
	LeftV     run.Verdict
	LeftG     []run.G
	LeftDone  bool
	Reader    string // reader state observed when the stop was injected: network / holding / running / none / unknown
	Handler   string // fast / slow / blocked
	Reached   bool   // the scripted fault was actually applied / reached
	PlanLen   int
	MapperErr bool
}

func (ob *attemptObs) reached() bool  { ob.mu.Lock(); defer ob.mu.Unlock(); return ob.Reached }
func (ob *attemptObs) reader() string { ob.mu.Lock(); defer ob.mu.Unlock(); return ob.Reader }

type attemptOpts struct {
	InlineError  bool // the first Error() call is made by the Stream goroutine itself, immediately
	ErrorCalls   int  // how many Error() calls after Stream returned
	Leftovers    bool // wait for library goroutines to vanish
	ErrorFirst   bool // call Error() before the leftover wait (else after)
	ObserveState bool // sample the reader state when the stop is injected
	Chunks       []int
	BlockHandler bool // handler blocked at the stop and released afterwards (cancel kinds)
	// CancelBeforeError: the caller cancels its context after Stream has returned
	// and before it asks Error() (a deferred cancel, a signal handler)
	CancelBeforeError bool
}

// runAttempt performs one scripted attempt on the session. start is the
// position the attempt is expected to request (used to address packets).
func runAttempt(c *core.Ctx, s *run.Session, l *hist.Layout, start hist.Pos, spec faultSpec, o attemptOpts, r *core.Rng) *attemptObs {
	ob := &attemptObs{Spec: spec, Reader: "unknown", Handler: "fast"}
	plan := sim.Plan(l, start)
	ob.PlanLen = len(plan)
	scr := &sim.Script{End: sim.EndEOF, LockStep: spec.Lock, Faults: map[int]sim.Fault{}}
	if r != nil && r.Chance(1, 4) {
		// seeded micro-delays between packets: schedule diversity only
		for i := 0; i < 7; i++ {
			scr.MicroDelays = append(scr.MicroDelays, []int{0, 0, 0, 20, 80, 300}[r.Intn(6)])
		}
	}
	hs := run.NoFaults()
	hs.InlineError = o.InlineError
	hs.SlowUS = spec.Slow
	if spec.Slow > 0 {
		ob.Handler = "slow"
	}
	var xo *xport.Options
	if len(o.Chunks) > 0 {
		xo = &xport.Options{Chunks: o.Chunks}
	}
	observe := func() {
		st := "unknown"
		if o.ObserveState {
			st = s.ReaderState()
		}
		ob.mu.Lock()
		ob.Reached = true
		ob.Reader = st
		ob.mu.Unlock()
	}
	at := spec.At
	switch {
	case spec.Kind == "clean-eof":
		ob.Reached = true // (no other goroutine yet)
	case isPacketKind(spec.Kind):
		if at > len(plan) {
			at = len(plan)
		}
		f := sim.Fault{OnReach: observe}
		switch spec.Kind {
		case "fin":
			f.Kind = sim.FClose
		case "rst":
			f.Kind = sim.FReset
		case "short0":
			f.Kind, f.Payload = sim.FShort, []byte{0x00}
		case "zerolen":
			f.Kind, f.Payload = sim.FShort, []byte{}
		case "cut":
			f.Kind = sim.FShort
			if at < len(plan) {
				b := plan[at].Bytes
				f.Payload = append([]byte{0}, b[:len(b)/2]...)
			} else {
				f.Payload = []byte{0, 1, 2, 3}
			}
		case "badseq":
			f.Kind = sim.FBadSeq
			if at >= len(plan) {
				f.Kind, f.Payload = sim.FShort, []byte{}
			}
		case "err":
			f.Kind, f.Code, f.Msg, f.State = sim.FErr, spec.Code, spec.Msg, spec.State
		case "eof":
			f.Kind = sim.FEOF
		case "cancel-master":
			f.Kind = sim.FNone
			f.OnReach = func() { observe(); s.Cancel() }
		default: // inject-*
			f.Kind = sim.FInject
			pk := sim.PlanPkt{}
			if at < len(plan) {
				pk = plan[at]
			} else if len(plan) > 0 {
				pk = plan[len(plan)-1]
			}
			if strings.HasPrefix(spec.Kind, "inject-baddecode-") {
				f.Payload, f.Payload2 = badDecode(spec.Kind, l.Files[pk.File].Cfg)
			} else {
				f.Payload = injected(spec.Kind, l, pk, r)
			}
		}
		scr.Faults[at] = f
	case isTxKind(spec.Kind):
		switch spec.Kind {
		case "handler-err":
			hs.ErrAt = at
		case "handler-err-cancel": // the caller cancels while the handler is running, and the handler then fails
			hs.ErrAt, hs.CancelAt = at, at
		case "handler-ctxerr-cancel": // ... and what the handler returns is the context's own error (a handler that forwards on a channel and gives up on ctx.Done())
			hs.ErrAt, hs.CancelAt, hs.ErrValue = at, at, context.Canceled
		default:
			hs.CancelAt = at
		}
		hs.OnCall = func(n int, tx *gobinlog.Transaction, d *run.Delivered) {
			if n == at {
				observe()
			}
		}
	case isMapperKind(spec.Kind):
		base := s.Mapper.TotalCalls()
		s.Mapper.ErrOnCall, s.Mapper.BadOnCall = 0, 0
		s.Mapper.OnFail = nil
		if strings.HasSuffix(spec.Kind, "-cancel") { // the caller cancels while the lookup is running
			s.Mapper.OnFail = s.Cancel
		}
		if strings.HasPrefix(spec.Kind, "mapper-err") {
			s.Mapper.ErrOnCall = base + at + 1
		} else {
			s.Mapper.BadOnCall = base + at + 1
			s.Mapper.BadDelta = 1
			if at%2 == 1 {
				s.Mapper.BadDelta = -1
			}
		}
	case isPreconn(spec.Kind):
		ob.Reached = true
		switch spec.Kind {
		case "connect-refused":
			xo = &xport.Options{FailDial: true}
		case "handshake-garbage":
			scr.Handshake = "garbage"
		case "handshake-close":
			scr.Handshake = "close"
		case "handshake-err":
			scr.Handshake = "errhello"
		case "auth-err":
			scr.Handshake = "autherr"
		case "set-rejected":
			scr.SetReject = true
		case "set-close":
			scr.SetClose = true
		case "dump-write-fail":
			// writes: handshake response, SET query, dump request
			xo = &xport.Options{FailWriteN: 3}
		case "dump-write-late-error":
			// the dump request reaches the master, the write is reported as failed
			xo = &xport.Options{LateFailN: 3}
		}
	}
	if spec.Kind != "connect-refused" { // a refused dial never reaches the master
		s.M.SetScripts(scr)
	}
	ob.Res = s.Attempt(hs, xo, maxWait)
	if isMapperKind(spec.Kind) {
		for _, mc := range s.Mapper.CallList() {
			if mc.Result == "error" || mc.Result == "wrong-count" {
				ob.mu.Lock()
				ob.Reached = true
				ob.MapperErr = true
				ob.mu.Unlock()
			}
		}
		s.Mapper.ErrOnCall, s.Mapper.BadOnCall, s.Mapper.OnFail = 0, 0, nil
	}
	if ob.Res.Verdict != run.Returned {
		return ob
	}
	errCalls := func() {
		if o.CancelBeforeError {
			s.Cancel()
		}
		if o.InlineError && ob.Res.InlineErrDone {
			ob.Err1 = &run.ErrorResult{Err: ob.Res.InlineErr, Verdict: run.Returned}
		} else if o.ErrorCalls >= 1 {
			ob.Err1 = s.CallError(maxWait)
		}
		if o.ErrorCalls >= 2 && ob.Err1.Verdict == run.Returned {
			ob.Err2 = s.CallError(maxWait)
		}
	}
	if o.ErrorFirst {
		errCalls()
	}
	if o.Leftovers {
		ob.LeftV, ob.LeftG = s.Leftovers(maxWait)
		ob.LeftDone = true
	}
	if !o.ErrorFirst {
		errCalls()
	}
	return ob
}

// smallHistory draws a compact history for fault enumeration: ntx delivering
// units, narrow tables, optional rotation, ignorable units sprinkled in.
func smallHistory(r *core.Rng, idx int) (*hist.History, []*hist.Table) {
	cb := allCombos()[r.Intn(24)]
	o := cb.hopts(r)
	o.MaxCols = 4
	o.MaxRows = 2
	o.MaxStmts = 2
	o.MaxEvents = 1
	o.MaxTables = 2
	o.NoJSON = true
	ntx := 3 + r.Intn(4)
	rot := 0
	switch idx % 4 {
	case 1:
		rot, o.Switch = 1, 1 // the file ends with a ROTATE event
	case 3:
		rot, o.Switch = 1, 2 // server restart: no ROTATE event, ids possibly re-bound
	}
	return gen.RandomHistory(r, o, ntx, rot)
}

// validResume lists the positions from which "after delivery index last" can
// be resumed: the end label of that delivery (or the initial position), and the
// target of every rotate the streamer may already have consumed after it
// without meeting another commit.
func validResume(h *hist.History, l *hist.Layout, exp []hist.ExpTx, start hist.Pos, last int) []hist.Pos {
	var base hist.Pos
	fromUnit := -1
	if last < 0 {
		base = start
	} else {
		base = exp[last].Next
		fromUnit = exp[last].Unit
	}
	out := []hist.Pos{base}
	startFile := -1
	for i, f := range l.Files {
		if f.Name == base.File {
			startFile = i
		}
	}
	for ui := fromUnit + 1; ui < len(h.Units); ui++ {
		sp := l.Spans[ui]
		if sp.File < startFile || (sp.File == startFile && int64(sp.Start) < base.Off) {
			continue
		}
		u := &h.Units[ui]
		if u.Kind.Delivers() {
			break
		}
		if u.Kind == hist.Rotate || u.Kind == hist.Restart {
			out = append(out, hist.Pos{File: u.NextFile, Off: 4})
		}
	}
	return out
}

func posIn(p hist.Pos, l []hist.Pos) bool {
	for _, x := range l {
		if x == p {
			return true
		}
	}
	return false
}
