package checks

import (
	"encoding/hex"
	"fmt"
	"math/big"
	"strings"

	"verifharness/core"
	"verifharness/enc/val"
)

// C11 — DECIMAL values decode to canonical decimal text.
//
// Oracle: the case IS a digit string; the expected text is derived from the
// digit string alone (val.DecimalText) and the bytes handed to the library come
// from an own decimal2bin (val.EncodeDecimal, written from strings/decimal.c).

type c11Case struct {
	P     int    `json:"p"`
	S     int    `json:"s"`
	Neg   bool   `json:"neg"`
	Int   string `json:"int_digits"`
	Frac  string `json:"frac_digits"`
	Class string `json:"class"`
	Pre   string `json:"prefix_hex"`
	Suf   string `json:"suffix_hex"`
}

type c11Witness struct {
	Case c11Case      `json:"case"`
	Call cellCallInfo `json:"call"`
}

func init() { core.Register("C11", c11Check) }

// c11Groups returns the digit-group widths of DECIMAL(p,s) in storage order
// and how many of them belong to the integer part.
func c11Groups(p, s int) (widths []int, nInt int) {
	intg := p - s
	if intg%9 > 0 {
		widths = append(widths, intg%9)
	}
	for i := 0; i < intg/9; i++ {
		widths = append(widths, 9)
	}
	nInt = len(widths)
	for i := 0; i < s/9; i++ {
		widths = append(widths, 9)
	}
	if s%9 > 0 {
		widths = append(widths, s%9)
	}
	return widths, nInt
}

func c11RandGroup(r *core.Rng, w int, nonzero bool) string {
	b := make([]byte, w)
	for {
		mode := r.Intn(4)
		nz := false
		for i := range b {
			var d int
			switch mode {
			case 0: // small value: leading zeros inside the group
				if i < w-1-r.Intn(2) {
					d = 0
				} else {
					d = r.Intn(10)
				}
			case 1: // nines and zeros
				d = []int{0, 9}[r.Intn(2)]
			default:
				d = r.Intn(10)
			}
			b[i] = byte('0' + d)
			if d != 0 {
				nz = true
			}
		}
		if nz || !nonzero {
			return string(b)
		}
	}
}

type c11Digits struct {
	class  string
	digits string // p digits: integer part then fraction
}

// c11DigitStrings lists the digit strings tried for one (p,s): a pure function
// of (p, s, nrandom, rng stream).
func c11DigitStrings(p, s, nrandom int, r *core.Rng) []c11Digits {
	widths, nInt := c11Groups(p, s)
	zeros := strings.Repeat("0", p)
	join := func(gs []string) string { return strings.Join(gs, "") }
	zeroG := func(i int) string { return strings.Repeat("0", widths[i]) }
	oneG := func(i int) string { return strings.Repeat("0", widths[i]-1) + "1" }
	var out []c11Digits
	add := func(class, d string) {
		if len(d) != p {
			panic("c11: digit string of wrong length")
		}
		out = append(out, c11Digits{class, d})
	}
	add("all-zero", zeros)
	add("lowest-digit-1", zeros[:p-1]+"1")
	add("highest-digit-1", "1"+zeros[1:])
	add("all-nines", strings.Repeat("9", p))
	// every group holds the value 1 (leading zeros inside every group)
	gs := make([]string, len(widths))
	for i := range widths {
		gs[i] = oneG(i)
	}
	add("every-group-one", join(gs))
	// each group non-zero in turn, everything else zero
	for i := range widths {
		for v := 0; v < 2; v++ {
			for j := range widths {
				gs[j] = zeroG(j)
			}
			if v == 0 {
				gs[i] = oneG(i)
			} else {
				gs[i] = c11RandGroup(r, widths[i], true)
			}
			add("only-one-group-nonzero", join(gs))
		}
	}
	// each group zero in turn, everything else non-zero
	for i := range widths {
		for v := 0; v < 2; v++ {
			for j := range widths {
				if v == 0 {
					gs[j] = oneG(j)
				} else {
					gs[j] = c11RandGroup(r, widths[j], true)
				}
			}
			gs[i] = zeroG(i)
			add("one-group-zero", join(gs))
		}
	}
	// the first k integer groups zero, every later group non-zero
	for k := 1; k <= nInt; k++ {
		for j := range widths {
			if j < k {
				gs[j] = zeroG(j)
			} else {
				gs[j] = c11RandGroup(r, widths[j], true)
			}
		}
		add("leading-int-groups-zero", join(gs))
	}
	// integer part zero, fraction non-zero; and the reverse
	if nInt > 0 && nInt < len(widths) {
		for j := range widths {
			if j < nInt {
				gs[j] = zeroG(j)
			} else {
				gs[j] = c11RandGroup(r, widths[j], true)
			}
		}
		add("int-zero-frac-nonzero", join(gs))
		for j := range widths {
			if j >= nInt {
				gs[j] = zeroG(j)
			} else {
				gs[j] = c11RandGroup(r, widths[j], true)
			}
		}
		add("int-nonzero-frac-zero", join(gs))
	}
	for k := 0; k < nrandom; k++ {
		mode := r.Intn(3)
		for j := range widths {
			switch {
			case mode == 1 && r.Chance(1, 3):
				gs[j] = zeroG(j)
			case mode == 2:
				b := make([]byte, widths[j])
				for x := range b {
					b[x] = byte('0' + r.Intn(10))
				}
				gs[j] = string(b)
			default:
				gs[j] = c11RandGroup(r, widths[j], false)
			}
		}
		add("random", join(gs))
	}
	return out
}

func c11IsZero(cs c11Case) bool {
	return strings.Trim(cs.Int+cs.Frac, "0") == ""
}

// c11Key names what is wrong with got (deterministic classification).
func c11Key(cs c11Case, r cellOut, want string, wantN int) (key, msg string) {
	switch {
	case r.pan != "":
		return "decimal-panic", "CellBytes panicked on a valid DECIMAL image"
	case r.err != nil:
		return "decimal-error", "CellBytes returned an error for a valid DECIMAL image: " + r.err.Error()
	case r.n != wantN:
		return "decimal-consumed-length", fmt.Sprintf("consumed %d bytes, decimal_bin_size(%d,%d)=%d", r.n, cs.P, cs.S, wantN)
	}
	got := string(r.out)
	if got == want && r.out != nil {
		return "", ""
	}
	if len(r.out) == 0 {
		if c11IsZero(cs) {
			return "decimal-zero-renders-empty", fmt.Sprintf("DECIMAL(%d,%d) zero decodes to an empty/nil value (nil=%v), want %q", cs.P, cs.S, r.out == nil, want)
		}
		return "decimal-renders-empty", fmt.Sprintf("DECIMAL(%d,%d) non-zero value decodes to an empty/nil value, want %q", cs.P, cs.S, want)
	}
	if strings.ContainsAny(got, " \t\r\n\x00") {
		if strings.NewReplacer(" ", "", "\t", "").Replace(got) == want {
			return "decimal-space-padding", fmt.Sprintf("DECIMAL(%d,%d): got %q, want %q (padding inside the number)", cs.P, cs.S, got, want)
		}
		return "decimal-space-padding-and-digits-differ", fmt.Sprintf("DECIMAL(%d,%d): got %q, want %q", cs.P, cs.S, got, want)
	}
	m := fmt.Sprintf("DECIMAL(%d,%d): got %q, want %q", cs.P, cs.S, got, want)
	if strings.TrimPrefix(got, "-") == strings.TrimPrefix(want, "-") {
		return "decimal-text-mismatch:sign", m
	}
	gr, ok1 := new(big.Rat).SetString(got)
	wr, ok2 := new(big.Rat).SetString(want)
	if !ok1 || !ok2 {
		return "decimal-text-mismatch:not-a-number", m
	}
	if gr.Cmp(wr) == 0 {
		return "decimal-text-mismatch:non-canonical-form", m
	}
	gi, wi := got, want
	if i := strings.IndexByte(gi, '.'); i >= 0 {
		gi = gi[:i]
	}
	if i := strings.IndexByte(wi, '.'); i >= 0 {
		wi = wi[:i]
	}
	if gi == wi {
		return "decimal-text-mismatch:fraction-digits", m
	}
	return "decimal-text-mismatch:value", m
}

// c11Run evaluates one case; it reports whether the case held.
func c11Run(c *core.Ctx, cs c11Case) bool {
	enc := val.EncodeDecimal(cs.P, cs.S, cs.Neg, cs.Int, cs.Frac)
	wantN := val.DecimalBinSize(cs.P, cs.S)
	if len(enc) != wantN {
		panic("c11: encoder size disagrees with DecimalBinSize")
	}
	want := val.DecimalText(cs.Neg, cs.Int, cs.Frac)
	buf, pos := cellEmbed(cellUnhex(cs.Pre), enc, cellUnhex(cs.Suf))
	meta := uint16(cs.P)<<8 | uint16(cs.S)
	r := cellCall(buf, pos, val.TypeNewDecimal, meta, false)
	key, msg := c11Key(cs, r, want, wantN)
	if key == "" {
		return true
	}
	var w interface{}
	if c.KeyCount(key) == 0 {
		w = c11Witness{Case: cs, Call: cellInfo(buf, pos, enc, val.TypeNewDecimal, meta, false, r, want)}
	}
	c.Violation(key, msg, w)
	return false
}

func c11Check(c *core.Ctx) {
	c.SetRule("For every valid (p,s) (p 1..65, s 0..min(30,p): 1580 pairs; the pair list is split over the shards) a fixed family of digit strings " +
		"(all zeros; lowest / highest digit 1; all nines; every storage group = 1; each storage group non-zero alone; each group zero with the others non-zero; " +
		"the first k integer groups zero; integer part zero / fraction zero) plus N random digit strings (N=20 quick, 20000 thorough), each with both signs " +
		"(no negative zero). The value is encoded with an own decimal2bin, embedded at a random non-zero offset between random filler bytes, and decoded with " +
		"CellBytes(TypeNewDecimal, p<<8|s). A case is identified by (p,s,sign,digits); every case counts as non-trivial (the all-zero string is a required class). " +
		"distinct_nontrivial counts the first 300 000 cases of each process by hash.")
	c.Assume("MySQL decimal2bin layout as in strings/decimal.c (val.EncodeDecimal, cross-checked in enc/val tests against the worked example of decimal.c, math/big and the order-preservation property)")
	c.Assume("math/big only classifies a mismatch, it does not decide one: the verdict is byte equality with the text built from the digit string")

	if c.Replay != "" {
		var w c11Witness
		if err := cellReadWitness(c.Replay, &w); err != nil {
			c.Inconclusive("cannot read witness: " + err.Error())
			return
		}
		c.Case(core.Hash64([]byte(fmt.Sprintf("%d,%d,%v,%s.%s", w.Case.P, w.Case.S, w.Case.Neg, w.Case.Int, w.Case.Frac))), true)
		if c11Run(c, w.Case) {
			c.Cell("replay-held")
		}
		return
	}

	nrandom := c.N(20, 20000)
	idx := -1
	hashed := 0
	for p := 1; p <= 65; p++ {
		for s := 0; s <= p && s <= 30; s++ {
			idx++
			if !c.Mine(idx) {
				continue
			}
			c.Log("C11 pair %d p=%d s=%d", idx, p, s)
			r := c.Rng(core.StrID("digits"), uint64(p), uint64(s))
			rp := c.Rng(core.StrID("placement"), uint64(p), uint64(s))
			widths, nInt := c11Groups(p, s)
			c.Cell(fmt.Sprintf("int-groups=%d", nInt))
			c.Cell(fmt.Sprintf("frac-groups=%d", len(widths)-nInt))
			c.Cell(fmt.Sprintf("lead-partial-digits=%d", (p-s)%9))
			c.Cell(fmt.Sprintf("frac-partial-digits=%d", s%9))
			if p == s {
				c.Cell("no-integer-digits")
			}
			for _, ds := range c11DigitStrings(p, s, nrandom, r) {
				for sign := 0; sign < 2; sign++ {
					cs := c11Case{P: p, S: s, Neg: sign == 1, Int: ds.digits[:p-s], Frac: ds.digits[p-s:], Class: ds.class}
					if cs.Neg && c11IsZero(cs) {
						continue // MySQL never stores a negative zero
					}
					pre, suf := cellFiller(rp)
					cs.Pre, cs.Suf = hex.EncodeToString(pre), hex.EncodeToString(suf)
					h := uint64(0)
					if hashed < cellHashBudget {
						hashed++
						h = core.HashAdd(core.HashU64(core.HashU64(0, uint64(p)<<8|uint64(s)), uint64(sign)), []byte(ds.digits))
					}
					c.Case(h, true)
					c.Cell("class=" + ds.class)
					if cs.Neg {
						c.Cell("sign=negative")
					} else {
						c.Cell("sign=non-negative")
					}
					ok := c11Run(c, cs)
					if ok && ds.class == "random" && cs.Neg && p-s >= 10 && s >= 3 && c.WantSample() {
						c.Sample(map[string]interface{}{"p": p, "s": s, "text": val.DecimalText(cs.Neg, cs.Int, cs.Frac),
							"bytes": hex.EncodeToString(val.EncodeDecimal(p, s, cs.Neg, cs.Int, cs.Frac)), "held": true})
					}
				}
			}
		}
	}
	c.Note("pairs_total", 0)
	if c.Shard == 0 {
		c.Note("pairs_total", int64(idx+1))
	}
	c.ExhaustiveDomain("all 1580 valid (precision, scale) pairs of DECIMAL (values per pair are sampled by class, not exhaustive)")
}
