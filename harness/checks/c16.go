package checks

import (
	"bytes"
	"encoding/binary"
	"encoding/hex"
	"fmt"
	"hash/crc32"
	"strings"

	"github.com/Breeze0806/gobinlog/replication"

	"verifharness/core"
	"verifharness/enc/ev"
)

// C16: event headers and control events decode exactly, checksum or not.
//
// Every case is one event from the independent encoder. It is decoded through
// both event wrappers in three forms: (algorithm off, plain bytes), (CRC32,
// bytes + real CRC with the length field counting it) and (undefined, plain
// bytes), each after StripChecksum(format). All accessor results are compared
// with what the encoder wrote; a difference that only shows in the CRC32 or
// undefined form is reported as a checksum-equivalence failure.
func init() { core.Register("C16", checkC16) }

// status variables in the order a server writes them
var c16VarCodes = []byte{0, 1, 6, 3, 4, 5, 7, 8, 9, 10, 11, 12, 13, 16, 17, 18, 19, 20}

const c16CharsetBit = 4 // index of code 4 in c16VarCodes

type c16Case struct {
	Class string `json:"class"`
	Index int    `json:"index"`
	Kind  string `json:"kind"` // generic fde rotate query intvar rand xid

	TS       uint32 `json:"ts"`
	Type     byte   `json:"type"`
	ServerID uint32 `json:"server_id"`
	NextPos  uint32 `json:"next_pos"`
	Flags    uint16 `json:"flags"`
	Body     []byte `json:"-"`
	NumTypes int    `json:"num_types"`

	// format description
	Version string `json:"-"`
	Alg     byte   `json:"alg"`
	Sizes   []byte `json:"-"`
	// rotate
	RotName string `json:"-"`
	RotPos  uint64 `json:"rot_pos"`
	// query
	Mask    uint32     `json:"mask"`
	Force   int        `json:"force,omitempty"` // 1: every string payload empty, 2: every string payload at its maximum
	DB      string     `json:"-"`
	SQL     string     `json:"-"`
	Charset *[3]uint16 `json:"charset"`
	// intvar / rand
	IVType byte   `json:"iv_type"`
	V1     uint64 `json:"v1"`
	V2     uint64 `json:"v2"`
}

type c16Diff struct{ key, msg string }

type c16HdrIface interface {
	Type() byte
	ServerID() uint32
	Length() uint32
	Flags() uint16
}

var c16Wrappers = []struct {
	name string
	mk   func([]byte) replication.BinlogEvent
	gtid byte
}{
	{"mysql56", replication.NewMysql56BinlogEvent, ev.GTID},
	{"mariadb", replication.NewMariadbBinlogEvent, ev.MariaGTID},
}

func (cs *c16Case) sizes() []byte {
	cfg := &ev.Cfg{NumTypes: cs.NumTypes, GTIDPostHeader: 42}
	return cfg.PostHeaderLens()
}

// c16Decode calls every applicable accessor of e and compares with the case.
// length is the value the encoder wrote into the length field of this form.
func c16Decode(cs *c16Case, e replication.BinlogEvent, f replication.BinlogFormat, length uint32, gtidType byte, wname string) (out []c16Diff) {
	add := func(key, format string, a ...interface{}) {
		out = append(out, c16Diff{key, fmt.Sprintf(format, a...)})
	}
	// ---- common header
	var ts uint32
	var np int64
	var pred [15]bool
	var h c16HdrIface
	var hok bool
	var typ byte
	var sid, ln uint32
	var fl uint16
	if p := core.Guard(func() {
		ts = e.Timestamp()
		np = e.NextPosition()
		pred = [15]bool{e.IsFormatDescription(), e.IsQuery(), e.IsXID(), e.IsGTID(), e.IsRotate(), e.IsIntVar(), e.IsRand(),
			e.IsPreviousGTIDs(), e.IsRowsQuery(), e.IsTableMap(), e.IsWriteRows(), e.IsUpdateRows(), e.IsDeleteRows(), e.IsPseudo(), false}
		h, hok = e.(c16HdrIface)
		if hok {
			typ, sid, ln, fl = h.Type(), h.ServerID(), h.Length(), h.Flags()
		}
	}); p != "" {
		add("header-panic", "a header accessor panicked: %s", firstLine(p))
		return
	}
	if ts != cs.TS {
		add("header-field:timestamp", "Timestamp()=%d want %d", ts, cs.TS)
	}
	if np != int64(cs.NextPos) {
		add("header-field:next-position", "NextPosition()=%d want %d", np, cs.NextPos)
	}
	if !hok {
		add("header-accessors-not-exposed", "the event value does not offer Type/ServerID/Length/Flags")
	} else {
		if typ != cs.Type {
			add("header-field:type", "Type()=%d want %d", typ, cs.Type)
		}
		if sid != cs.ServerID {
			add("header-field:server-id", "ServerID()=%d want %d", sid, cs.ServerID)
		}
		if ln != length {
			add("header-field:length", "Length()=%d want %d (the value in the header)", ln, length)
		}
		if fl != cs.Flags {
			add("header-field:flags", "Flags()=%#x want %#x", fl, cs.Flags)
		}
	}
	t := cs.Type
	names := [...]string{"IsFormatDescription", "IsQuery", "IsXID", "IsGTID", "IsRotate", "IsIntVar", "IsRand", "IsPreviousGTIDs",
		"IsRowsQuery", "IsTableMap", "IsWriteRows", "IsUpdateRows", "IsDeleteRows"}
	want := [...]bool{t == ev.FormatDescription, t == ev.Query, t == ev.XID, t == gtidType, t == ev.Rotate, t == ev.IntVar, t == ev.Rand,
		t == ev.PreviousGTIDs, t == ev.RowsQuery, t == ev.TableMap, t == ev.WriteRowsV1 || t == ev.WriteRowsV2,
		t == ev.UpdateRowsV1 || t == ev.UpdateRowsV2, t == ev.DeleteRowsV1 || t == ev.DeleteRowsV2}
	for i, nm := range names {
		if i >= 10 && t >= ev.WriteRowsV0 && t <= ev.DeleteRowsV0 {
			continue // pre-GA v0 rows events: no supported server writes them, classification not demanded
		}
		if pred[i] != want[i] {
			k := "predicate:" + nm
			if nm == "IsGTID" {
				k += ":" + wname
			}
			add(k, "%s()=%v for type byte %d (%s wrapper)", nm, pred[i], t, wname)
		}
	}
	// ---- body
	switch cs.Kind {
	case "fde":
		var bf replication.BinlogFormat
		var err error
		if p := core.Guard(func() { bf, err = e.Format() }); p != "" {
			add("format-panic", "Format panicked: %s", firstLine(p))
			return
		}
		if err != nil {
			add("format-error", "Format returned %v", err)
			return
		}
		if bf.FormatVersion != 4 {
			add("format-version", "FormatVersion=%d want 4", bf.FormatVersion)
		}
		if bf.ServerVersion != cs.Version {
			add("format-server-version", "ServerVersion=%q (%d bytes) want %q (%d bytes)", bf.ServerVersion, len(bf.ServerVersion), cs.Version, len(cs.Version))
		}
		if bf.HeaderLength != 19 {
			add("format-header-length", "HeaderLength=%d want 19", bf.HeaderLength)
		}
		if bf.ChecksumAlgorithm != cs.Alg {
			add("format-checksum-algorithm", "ChecksumAlgorithm=%d want %d", bf.ChecksumAlgorithm, cs.Alg)
		}
		if !bytes.Equal(bf.HeaderSizes, cs.Sizes) {
			add("format-header-sizes", "HeaderSizes has %d entries %x want %d entries %x", len(bf.HeaderSizes), c15Trunc(bf.HeaderSizes), len(cs.Sizes), c15Trunc(cs.Sizes))
		}
	case "rotate":
		var name string
		var pos int64
		var err error
		if p := core.Guard(func() { name, pos, err = e.Rotate(f) }); p != "" {
			add("rotate-panic", "Rotate panicked: %s", firstLine(p))
			return
		}
		if err != nil {
			add("rotate-error", "Rotate returned %v", err)
			return
		}
		if name != cs.RotName {
			add("rotate-name", "file name %q (%d bytes) want %q (%d bytes)", c15Trunc([]byte(name)), len(name), c15Trunc([]byte(cs.RotName)), len(cs.RotName))
		}
		if pos != int64(cs.RotPos) {
			add("rotate-position", "position %d want %d", pos, cs.RotPos)
		}
	case "query":
		var q replication.Query
		var err error
		if p := core.Guard(func() { q, err = e.Query(f) }); p != "" {
			add("query-panic", "Query panicked: %s", firstLine(p))
			return
		}
		if err != nil {
			add("query-error", "Query returned %v", err)
			return
		}
		if q.Database != cs.DB {
			add("query-db", "Database %q (%d bytes) want %q (%d bytes)", c15Trunc([]byte(q.Database)), len(q.Database), c15Trunc([]byte(cs.DB)), len(cs.DB))
		}
		if q.SQL != cs.SQL {
			add("query-sql", "SQL of %d bytes %q want %d bytes %q", len(q.SQL), c15Trunc([]byte(q.SQL)), len(cs.SQL), c15Trunc([]byte(cs.SQL)))
		}
		switch {
		case cs.Charset == nil && q.Charset != nil:
			add("query-charset-spurious", "Charset=%v although no charset status variable was written (mask %#x)", *q.Charset, cs.Mask)
		case cs.Charset != nil && q.Charset == nil:
			add("query-charset-missing", "Charset=nil although the charset status variable %v was written (mask %#x)", *cs.Charset, cs.Mask)
		case cs.Charset != nil:
			if q.Charset.Client != int32(cs.Charset[0]) || q.Charset.Conn != int32(cs.Charset[1]) || q.Charset.Server != int32(cs.Charset[2]) {
				add("query-charset-value", "Charset=%v want client %d conn %d server %d (mask %#x)", *q.Charset, cs.Charset[0], cs.Charset[1], cs.Charset[2], cs.Mask)
			}
		}
	case "intvar":
		var ty byte
		var v uint64
		var err error
		if p := core.Guard(func() { ty, v, err = e.IntVar(f) }); p != "" {
			add("intvar-panic", "IntVar panicked: %s", firstLine(p))
			return
		}
		if err != nil {
			add("intvar-error", "IntVar returned %v", err)
			return
		}
		if ty != cs.IVType {
			add("intvar-type", "variable id %d want %d", ty, cs.IVType)
		}
		if v != cs.V1 {
			add("intvar-value", "value %d want %d", v, cs.V1)
		}
	case "rand":
		var s1, s2 uint64
		var err error
		if p := core.Guard(func() { s1, s2, err = e.Rand(f) }); p != "" {
			add("rand-panic", "Rand panicked: %s", firstLine(p))
			return
		}
		if err != nil {
			add("rand-error", "Rand returned %v", err)
			return
		}
		if s1 != cs.V1 || s2 != cs.V2 {
			add("rand-seed", "seeds (%d,%d) want (%d,%d)", s1, s2, cs.V1, cs.V2)
		}
	}
	return
}

type c16Finding struct {
	key, msg, wrapper, form string
	raw                     []byte
	f                       replication.BinlogFormat
}

// c16Eval runs the case through both wrappers and all forms.
func c16Eval(cs *c16Case) []c16Finding {
	var out []c16Finding
	plain := ev.Raw(cs.TS, cs.Type, cs.ServerID, cs.Flags, cs.Body, cs.NextPos, false)
	withCRC := ev.Raw(cs.TS, cs.Type, cs.ServerID, cs.Flags, cs.Body, cs.NextPos, true)
	sizes := cs.sizes()
	for _, w := range c16Wrappers {
		if cs.Kind == "fde" {
			// a format description always carries the algorithm byte and a CRC; Format is
			// called on the event as received
			e := w.mk(append([]byte(nil), withCRC...))
			var valid bool
			if p := core.Guard(func() { valid = e.IsValid() }); p != "" || !valid {
				out = append(out, c16Finding{"valid-event-rejected", "IsValid()=false or panicked on a well-formed format description", w.name, "fde", withCRC, replication.BinlogFormat{}})
				continue
			}
			for _, d := range c16Decode(cs, e, replication.BinlogFormat{}, uint32(len(withCRC)), w.gtid, w.name) {
				out = append(out, c16Finding{d.key, d.msg, w.name, "fde", withCRC, replication.BinlogFormat{}})
			}
			continue
		}
		var offKeys map[string]bool
		for _, form := range []struct {
			name string
			alg  byte
			raw  []byte
		}{{"off", 0, plain}, {"crc32", 1, withCRC}, {"undef", 255, plain}} {
			f := replication.BinlogFormat{FormatVersion: 4, ServerVersion: "5.7.44-log", HeaderLength: 19, ChecksumAlgorithm: form.alg, HeaderSizes: sizes}
			var diffs []c16Diff
			e := w.mk(append([]byte(nil), form.raw...))
			var valid bool
			if p := core.Guard(func() { valid = e.IsValid() }); p != "" || !valid {
				diffs = append(diffs, c16Diff{"valid-event-rejected", "IsValid()=false or panicked on a well-formed event"})
			}
			var se replication.BinlogEvent
			var sum []byte
			var err error
			if p := core.Guard(func() { se, sum, err = e.StripChecksum(f) }); p != "" {
				diffs = append(diffs, c16Diff{"strip-panic", "StripChecksum panicked: " + firstLine(p)})
			} else if err != nil || se == nil {
				diffs = append(diffs, c16Diff{"strip-error", fmt.Sprintf("StripChecksum returned (%v, %v)", se, err)})
			} else {
				var sb []byte
				if p := core.Guard(func() { sb = se.Bytes() }); p != "" {
					diffs = append(diffs, c16Diff{"strip-panic", "Bytes panicked: " + firstLine(p)})
				}
				if form.alg == 1 {
					if !bytes.Equal(sum, withCRC[len(withCRC)-4:]) {
						diffs = append(diffs, c16Diff{"checksum-bytes", fmt.Sprintf("returned checksum %x, the event carries %x", sum, withCRC[len(withCRC)-4:])})
					}
					if !bytes.Equal(sb, withCRC[:len(withCRC)-4]) {
						diffs = append(diffs, c16Diff{"stripped-bytes", fmt.Sprintf("the stripped event has %d bytes, want the %d bytes before the checksum", len(sb), len(withCRC)-4)})
					}
				} else {
					if sum != nil {
						diffs = append(diffs, c16Diff{"checksum-when-none", fmt.Sprintf("a checksum %x was returned although the algorithm is %d", sum, form.alg)})
					}
					if !bytes.Equal(sb, plain) {
						diffs = append(diffs, c16Diff{"stripped-when-none", fmt.Sprintf("the event has %d bytes after StripChecksum with algorithm %d, want all %d", len(sb), form.alg, len(plain))})
					}
				}
				diffs = append(diffs, c16Decode(cs, se, f, uint32(len(form.raw)), w.gtid, w.name)...)
			}
			if form.name == "off" {
				offKeys = map[string]bool{}
				for _, d := range diffs {
					offKeys[d.key] = true
					key := d.key
					if key == "checksum-when-none" || key == "stripped-when-none" {
						key = "checksum-equivalence:" + key
					}
					out = append(out, c16Finding{key, d.msg, w.name, form.name, form.raw, f})
				}
				continue
			}
			for _, d := range diffs {
				if offKeys[d.key] {
					continue // the same failure without a checksum: reported under its own key
				}
				key := "checksum-equivalence:" + d.key
				if form.name == "undef" {
					key = "checksum-equivalence:undef:" + d.key
				}
				out = append(out, c16Finding{key, d.msg, w.name, form.name, form.raw, f})
			}
		}
	}
	return out
}

func c16Report(c *core.Ctx, cs *c16Case) {
	for _, fd := range c16Eval(cs) {
		hx := hex.EncodeToString(fd.raw)
		if len(hx) > 8000 {
			hx = hx[:8000] + "…"
		}
		c.Violation("c16:"+fd.key, fmt.Sprintf("%s [%s wrapper, form %s, class %s #%d]", fd.msg, fd.wrapper, fd.form, cs.Class, cs.Index),
			map[string]interface{}{"case": cs, "wrapper": fd.wrapper, "form": fd.form, "event_hex": hx, "event_len": len(fd.raw),
				"format": map[string]interface{}{"FormatVersion": fd.f.FormatVersion, "ServerVersion": fd.f.ServerVersion, "HeaderLength": fd.f.HeaderLength,
					"ChecksumAlgorithm": fd.f.ChecksumAlgorithm, "HeaderSizes": hex.EncodeToString(fd.f.HeaderSizes)},
				"db_hex": hex.EncodeToString([]byte(cs.DB)), "rotate_name_hex": hex.EncodeToString([]byte(cs.RotName)),
				"server_version_hex": hex.EncodeToString([]byte(cs.Version)), "sql_len": len(cs.SQL)})
	}
}

// ---------------------------------------------------------------- generators

func c16Header(r *core.Rng, cs *c16Case) {
	switch r.Intn(8) {
	case 0:
		cs.TS, cs.ServerID, cs.NextPos, cs.Flags = 0, 0, 0, 0
	case 1:
		cs.TS, cs.ServerID, cs.NextPos, cs.Flags = 0xffffffff, 0xffffffff, 0xffffffff, 0xffff
	case 2:
		cs.TS, cs.ServerID, cs.NextPos, cs.Flags = 0x80000000, 0x7fffffff, 0x80000000, 0x8000
	default:
		cs.TS, cs.ServerID, cs.NextPos, cs.Flags = r.U32(), r.U32(), r.U32(), uint16(r.U32())
	}
	cs.NumTypes = []int{27, 35, 38, 40, 41, 42, 255}[r.Intn(7)]
}

func c16NonNul(r *core.Rng, n int, cls int) string {
	b := make([]byte, n)
	switch cls % 4 {
	case 0:
		const cs = "abcdefghijklmnopqrstuvwxyz0123456789_-."
		for i := range b {
			b[i] = cs[r.Intn(len(cs))]
		}
	case 1:
		s := "дб-é日本語.✓"
		for i := range b {
			b[i] = s[i%len(s)]
		}
	case 2:
		for i := range b {
			b[i] = byte(1 + r.Intn(255))
		}
	default:
		for i := range b {
			b[i] = byte(0x80 + r.Intn(0x80))
		}
	}
	return string(b)
}

var c16Versions = []string{"5.6.51-log", "5.7.44-log", "8.0.36", "10.4.12-MariaDB-log", "5.5.68-MariaDB", "5.3.12-MariaDB-log", "5.6.0-m4", "5.1.73-community", "10.0.38-MariaDB", "4.1.22", "9.0.1", "5.5.5-10.11.6-MariaDB-1:10.11.6+maria~ubu2204-log", "8.0.28-0ubuntu0.20.04.3-debug-asan-log-xxxxxxxxxxxxx"}

func c16GenFDE(c *core.Ctx, i int) *c16Case {
	// i enumerates (entries 27..255) x (alg 0,1,255) x (version length 0..50)
	r := c.Rng(core.StrID("c16fde"), uint64(i))
	cs := &c16Case{Class: "fde", Index: i, Kind: "fde", Type: ev.FormatDescription}
	c16Header(r, cs)
	n := 27 + i%229
	alg := []byte{0, 1, 255}[(i/229)%3]
	vl := (i / (229 * 3)) % 51
	var v string
	switch r.Intn(3) {
	case 0:
		v = c16Versions[r.Intn(len(c16Versions))]
		for len(v) < vl {
			v += string(rune('a' + r.Intn(26)))
		}
		v = v[:vl]
	case 1:
		v = c16NonNul(r, vl, 0)
	default:
		v = c16NonNul(r, vl, 2)
	}
	cfg := &ev.Cfg{Checksum: alg == 1, ChecksumAlg: alg, ServerVersion: v, NumTypes: n, TableID4: r.Chance(1, 4), GTIDPostHeader: []int{25, 42}[r.Intn(2)]}
	body := cfg.FormatDescriptionBody(r.U32())
	// entries of event types no server knows yet carry arbitrary sizes
	tbl := body[2+50+4+1 : len(body)-1]
	for k := 41; k < len(tbl); k++ {
		if r.Bool() {
			tbl[k] = byte(r.Intn(256))
		}
	}
	cs.NumTypes, cs.Alg, cs.Version = n, alg, v
	cs.Sizes = append([]byte(nil), tbl...)
	cs.Body = body
	return cs
}

func c16QueryBody(r *core.Rng, cs *c16Case, dbLen, sqlLen int) {
	sv := &ev.StatusVars{}
	str := func(max int) string {
		switch cs.Force {
		case 1:
			return ""
		case 2:
			return string(r.Bytes(max))
		}
		switch r.Intn(6) {
		case 0:
			return ""
		case 1:
			return string(r.Bytes(max))
		}
		return string(r.Bytes(r.Intn(max + 1)))
	}
	for bi, code := range c16VarCodes {
		if cs.Mask>>uint(bi)&1 == 0 {
			continue
		}
		switch code {
		case 0:
			sv.Flags2(r.U32())
		case 1:
			sv.SQLMode(r.U64())
		case 6:
			// servers 5.0.0-5.0.3 wrote the old Q_CATALOG (code 2, NUL terminated) in this place
			if (cs.Force == 0 && r.Chance(1, 4)) || (cs.Force != 0 && cs.Index%2 == 1) {
				sv.CatalogOld(str(255))
			} else {
				sv.CatalogNZ(str(255))
			}
		case 3:
			sv.AutoIncrement(uint16(r.U32()), uint16(r.U32()))
		case 4:
			cs.Charset = &[3]uint16{uint16(r.U32()), uint16(r.U32()), uint16(r.U32())}
			if r.Chance(1, 4) {
				cs.Charset = &[3]uint16{uint16(1 + r.Intn(300)), uint16(1 + r.Intn(300)), uint16(1 + r.Intn(300))}
			}
			sv.Charset(cs.Charset[0], cs.Charset[1], cs.Charset[2])
		case 5:
			sv.TimeZone(str(255))
		case 7:
			sv.LcTimeNames(uint16(r.U32()))
		case 8:
			sv.CharsetDatabase(uint16(r.U32()))
		case 9:
			sv.TableMapForUpdate(r.U64())
		case 10:
			sv.MasterDataWritten(r.U32())
		case 11:
			sv.Invoker(str(96), str(255))
		case 12:
			if r.Chance(1, 4) {
				sv.UpdatedDBNames(nil) // the "too many databases" marker 254
			} else {
				names := make([]string, r.Intn(11))
				for k := range names {
					names[k] = c16NonNul(r, 1+r.Intn(64), r.Intn(4))
				}
				sv.UpdatedDBNames(names)
			}
		case 13:
			sv.Microseconds(r.U32() & 0xffffff)
		case 16:
			sv.ExplicitDefaultsTS(byte(r.Intn(256)))
		case 17:
			sv.DDLLoggedWithXID(r.U64())
		case 18:
			sv.DefaultCollationUTF8MB4(uint16(r.U32()))
		case 19:
			sv.SQLRequirePK(byte(r.Intn(256)))
		case 20:
			sv.DefaultTableEncryption(byte(r.Intn(256)))
		}
	}
	cs.DB = c16NonNul(r, dbLen, r.Intn(4))
	var sql []byte
	switch r.Intn(4) {
	case 0:
		sql = r.Bytes(sqlLen)
	case 1:
		sql = bytes.Repeat([]byte{0}, sqlLen)
	default:
		const tpl = "INSERT INTO `t` VALUES (1,'é日本語\x00\xff') /* ✓ */; "
		sql = []byte(strings.Repeat(tpl, sqlLen/len(tpl)+1))[:sqlLen]
	}
	cs.SQL = string(sql)
	cs.Body = ev.QueryBody(r.U32(), r.U32(), cs.DB, uint16(r.U32()), sv.Bytes(), cs.SQL)
}

func c16SQLLen(r *core.Rng) int {
	switch r.Intn(100) {
	case 0:
		return []int{65535, 65536, 65534, 65000}[r.Intn(4)]
	case 1, 2:
		return 4000 + r.Intn(200)
	case 3, 4, 5, 6:
		return 0
	case 7, 8:
		return 1
	case 9, 10:
		return 250 + r.Intn(10)
	}
	return r.Intn(200)
}

func c16GenQuery(c *core.Ctx, class string, i int, mask uint32, dbLen int) *c16Case {
	return c16GenQueryForced(c, class, i, mask, dbLen, 0)
}

func c16GenQueryForced(c *core.Ctx, class string, i int, mask uint32, dbLen, force int) *c16Case {
	r := c.Rng(core.StrID("c16"+class), uint64(i))
	cs := &c16Case{Class: class, Index: i, Kind: "query", Type: ev.Query, Mask: mask, Force: force}
	c16Header(r, cs)
	if dbLen < 0 {
		switch r.Intn(5) {
		case 0:
			dbLen = 0
		case 1:
			dbLen = 255
		default:
			dbLen = r.Intn(65)
		}
	}
	c16QueryBody(r, cs, dbLen, c16SQLLen(r))
	return cs
}

var c16RotPos = []uint64{4, 0, 1<<32 - 1, 1 << 32, 1<<32 + 4, 1<<63 - 1, 1 << 62, 0x0102030405060708}

func c16GenRotate(c *core.Ctx, i int) *c16Case {
	r := c.Rng(core.StrID("c16rotate"), uint64(i))
	cs := &c16Case{Class: "rotate", Index: i, Kind: "rotate", Type: ev.Rotate}
	c16Header(r, cs)
	nl := i % 256
	switch k := (i / 256) % 12; {
	case k < len(c16RotPos):
		cs.RotPos = c16RotPos[k]
	case k == 8:
		cs.RotPos = uint64(r.U32())
	case k == 9:
		cs.RotPos = uint64(r.U32())<<31 | uint64(r.U32())
	default:
		cs.RotPos = r.U64() >> 1
	}
	switch r.Intn(4) {
	case 0:
		name := fmt.Sprintf("%s.%06d", []string{"mysql-bin", "binlog", "a.b.c", "дб-é日本語"}[r.Intn(4)], r.Intn(1000000))
		for len(name) < nl {
			name = "x" + name
		}
		cs.RotName = name[len(name)-nl:]
	case 1:
		cs.RotName = c16NonNul(r, nl, 1)
	default:
		cs.RotName = c16NonNul(r, nl, r.Intn(4))
	}
	cs.Body = ev.RotateBody(cs.RotPos, cs.RotName)
	return cs
}

func c16U64(r *core.Rng) uint64 {
	switch r.Intn(8) {
	case 0:
		return 0
	case 1:
		return 1<<64 - 1
	case 2:
		return 1 << 63
	case 3:
		return uint64(r.U32())
	case 4:
		return 0x0102030405060708
	}
	return r.U64()
}

func c16GenSmall(c *core.Ctx, class string, i int) *c16Case {
	r := c.Rng(core.StrID("c16"+class), uint64(i))
	cs := &c16Case{Class: class, Index: i, Kind: class}
	c16Header(r, cs)
	switch class {
	case "intvar":
		cs.Type, cs.IVType, cs.V1 = ev.IntVar, byte(1+i%2), c16U64(r)
		cs.Body = ev.IntVarBody(cs.IVType, cs.V1)
	case "rand":
		cs.Type, cs.V1, cs.V2 = ev.Rand, c16U64(r), c16U64(r)
		cs.Body = ev.RandBody(cs.V1, cs.V2)
	case "xid":
		cs.Type = ev.XID
		cs.Body = ev.XIDBody(c16U64(r))
	case "generic":
		cs.Type = byte(i % 256)
		cs.Body = r.Bytes(r.Intn(48))
	}
	return cs
}

// c16Plan is the list of classes with their sizes per tier; a global index
// addresses (class, index) and is sharded with c.Mine.
type c16Class struct {
	name string
	n    int
	gen  func(c *core.Ctx, i int) *c16Case
}

func c16Classes(c *core.Ctx) []c16Class {
	qsub := c16Class{"query-subset", 20000, func(c *core.Ctx, i int) *c16Case {
		r := c.Rng(core.StrID("c16mask"), uint64(i))
		var mask uint32
		switch {
		case i < 18:
			mask = 1 << uint(i)
		case i < 36:
			mask = 1<<uint(i-18) | 1<<c16CharsetBit
		case i < 54:
			mask = (1<<18 - 1) &^ (1 << uint(i-36))
		case i == 54:
			mask = 0
		case i == 55:
			mask = 1<<18 - 1
		default:
			mask = r.U32() & (1<<18 - 1)
		}
		return c16GenQuery(c, "query-subset", i, mask, -1)
	}}
	if !c.Quick() {
		qsub = c16Class{"query-all-subsets", 1 << 18, func(c *core.Ctx, i int) *c16Case {
			return c16GenQuery(c, "query-all-subsets", i, uint32(i), -1)
		}}
	}
	return []c16Class{
		{"fde", 229 * 3 * 51, c16GenFDE},
		qsub,
		// every variable in turn as the last one written, behind a random subset of
		// the earlier ones, its string payload (catalog in both forms, time zone,
		// invoker) empty or at its maximum: the scanner's end-of-block arithmetic
		{"query-last-var", 18 * 2 * 16, func(c *core.Ctx, i int) *c16Case {
			r := c.Rng(core.StrID("c16lastmask"), uint64(i))
			b := uint(i % 18)
			mask := 1<<b | r.U32()&(1<<b-1)
			if (i/36)%4 == 0 {
				mask = 1 << b
			}
			return c16GenQueryForced(c, "query-last-var", i, mask, -1, 1+(i/18)%2)
		}},
		{"query-db", c.N(40000, 1800000), func(c *core.Ctx, i int) *c16Case {
			r := c.Rng(core.StrID("c16dbmask"), uint64(i))
			return c16GenQuery(c, "query-db", i, r.U32()&(1<<18-1), i%256)
		}},
		{"rotate", c.N(40000, 1500000), c16GenRotate},
		{"intvar", c.N(20000, 900000), func(c *core.Ctx, i int) *c16Case { return c16GenSmall(c, "intvar", i) }},
		{"rand", c.N(15000, 300000), func(c *core.Ctx, i int) *c16Case { return c16GenSmall(c, "rand", i) }},
		{"xid", c.N(15000, 300000), func(c *core.Ctx, i int) *c16Case { return c16GenSmall(c, "xid", i) }},
		{"generic", c.N(25600, 1920000), func(c *core.Ctx, i int) *c16Case { return c16GenSmall(c, "generic", i) }},
	}
}

func c16Hash(cs *c16Case) uint64 {
	var hd [15]byte
	binary.LittleEndian.PutUint32(hd[0:], cs.TS)
	hd[4] = cs.Type
	binary.LittleEndian.PutUint32(hd[5:], cs.ServerID)
	binary.LittleEndian.PutUint32(hd[9:], cs.NextPos)
	binary.LittleEndian.PutUint16(hd[13:], cs.Flags)
	return core.HashU64(core.HashAdd(0, hd[:]), uint64(crc32.ChecksumIEEE(cs.Body))|uint64(len(cs.Body))<<32)
}

func c16Nontrivial(cs *c16Case) bool {
	switch cs.Kind {
	case "query":
		return cs.Mask != 0 || len(cs.DB) > 0 || len(cs.SQL) > 0
	case "rotate":
		return len(cs.RotName) > 0
	}
	return true
}

func checkC16(c *core.Ctx) {
	c.SetRule("one case = one event built by the independent encoder, decoded through both event wrappers in three forms (algorithm off + plain bytes, CRC32 + bytes with a real CRC and a length field that counts it, undefined + plain bytes) after StripChecksum; every header accessor (Timestamp, NextPosition, Type, ServerID, Length, Flags, all Is* predicates) and the body accessor of the class are compared with what was written. Classes: format descriptions (every table size 27..255 x algorithm {0,1,255} x server-version length 0..50, entries of unknown event types random); queries (status-variable subsets in server order with random payloads: quick 20 000 sampled incl. all singletons, all pairs with the charset, all co-singletons; thorough all 2^18; a second class cycling database lengths 0..255; a third with every variable in turn as the last one written and all string payloads (catalog in both forms, time zone, invoker) empty or at their maximum; SQL 0..64 KB incl. NUL and high bytes); rotate (name length 0..255 cycled x position classes incl. 2^32-1, 2^32, 2^63-1); intvar (ids 1, 2), rand, XID; generic events of every type byte 0..255 with random bodies for the predicates. Header fields mix all-zero, all-ones, sign-bit and random values. Distinct by (header fields, body bytes); non-trivial unless an empty query (no variables, no database, no SQL) or a rotate without a name")
	c.Assume("status variables are only emitted as a subset in the server's order 0,1,6,3,4,5,7,8,9,10,11,12,13,16,17,18,19,20; in a quarter of the cases the catalog is written in the old Q_CATALOG form (code 2, NUL terminated, 5.0.0-5.0.3) in place of Q_CATALOG_NZ")
	c.Assume("a format description is decoded as received (it always ends with the algorithm byte and a CRC); server versions contain no NUL byte")
	c.Assume("not demanded: classification of the pre-GA rows events v0 (types 20..22); checksum algorithms other than off, CRC32, undefined; IsPseudo")
	classes := c16Classes(c)
	if c.Replay != "" {
		var w struct {
			Witness struct {
				Case struct {
					Class string `json:"class"`
					Index int    `json:"index"`
				} `json:"case"`
			} `json:"witness"`
		}
		if err := readWitness(c.Replay, &w); err != nil {
			c.Inconclusive("cannot read witness: " + err.Error())
			return
		}
		for _, cl := range classes {
			if cl.name == w.Witness.Case.Class {
				cs := cl.gen(c, w.Witness.Case.Index)
				c16Report(c, cs)
				c.Case(c16Hash(cs), true)
				return
			}
		}
		c.Inconclusive("witness names class " + w.Witness.Case.Class + ", which this tier does not have")
		return
	}
	g := 0
	for _, cl := range classes {
		for i := 0; i < cl.n; i++ {
			g++
			if !c.Mine(g) {
				continue
			}
			cs := cl.gen(c, i)
			c16Report(c, cs)
			c.Case(c16Hash(cs), c16Nontrivial(cs))
			c.Cell("class:" + cl.name)
			switch cs.Kind {
			case "query":
				if cs.Charset != nil {
					c.Cell("query:charset-present")
				} else {
					c.Cell("query:charset-absent")
				}
				if cs.Mask>>(c16CharsetBit+1) != 0 {
					c.Cell("query:variables-after-charset")
				}
				if len(cs.SQL) >= 65000 {
					c.Cell("query:sql>=64KB")
				}
				if len(cs.DB) == 255 {
					c.Cell("query:db-255-bytes")
				}
				if len(cs.DB) == 0 {
					c.Cell("query:db-empty")
				}
			case "rotate":
				if cs.RotPos >= 1<<32 {
					c.Cell("rotate:position>=2^32")
				}
			case "fde":
				c.Cell(fmt.Sprintf("fde:alg-%d", cs.Alg))
				if len(cs.Version) == 50 {
					c.Cell("fde:version-50-bytes")
				}
			}
			if c.WantSample() && i%1009 == 7 {
				c.Sample(map[string]interface{}{"class": cl.name, "index": i, "type": cs.Type, "body_len": len(cs.Body), "mask": fmt.Sprintf("%#x", cs.Mask),
					"db_len": len(cs.DB), "sql_len": len(cs.SQL), "charset": cs.Charset, "rotate_pos": cs.RotPos, "rotate_name_len": len(cs.RotName),
					"fde_entries": len(cs.Sizes), "fde_version_len": len(cs.Version), "alg": cs.Alg})
			}
		}
		if cl.name == "fde" {
			c.ExhaustiveDomain("format descriptions: every header-size table length 27..255 x checksum algorithm {0, 1, 255} x server-version length 0..50")
		}
		if cl.name == "query-all-subsets" {
			c.ExhaustiveDomain("query events: every subset (2^18) of the status variables 0,1,6,3,4,5,7,8,9,10,11,12,13,16,17,18,19,20 in server order, one random payload each")
		}
	}
	c.ExhaustiveDomain("type byte: every value 0..255 against every Is* predicate of both wrappers (class generic)")
	c.ExhaustiveDomain("rotate: every file-name length 0..255; query-db: every database-name length 0..255")
}
