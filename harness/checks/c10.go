package checks

import (
	"bytes"
	"encoding/hex"
	"fmt"
	"math"
	"strconv"

	"github.com/Breeze0806/gobinlog/replication"

	"verifharness/core"
	"verifharness/enc/val"
)

// C10 — integer, floating-point, YEAR, BIT, ENUM and SET values decode exactly.
//
// Oracle: a case is (family, width, signedness, raw value). The cell image is
// written here byte by byte (little-endian integers / IEEE floats / ENUM / SET,
// big-endian BIT) and the expected text is strconv.FormatInt/FormatUint of the
// value computed arithmetically (v - 2^w when the top bit is set and the
// column is signed). Floats are judged by round trip, not by a fixed text.

type c10Case struct {
	Fam      string `json:"family"` // int float year bit enum-string enum-bare set-string set-bare
	Width    int    `json:"width"`  // bytes; for bit: number of bits
	Unsigned bool   `json:"unsigned"`
	Bits     uint64 `json:"raw_value"` // numeric value of the image (LE families: as LE integer; bit: as BE integer)
	Pre      string `json:"prefix_hex"`
	Suf      string `json:"suffix_hex"`
}

type c10Witness struct {
	Case c10Case      `json:"case"`
	Call cellCallInfo `json:"call"`
	Note string       `json:"note,omitempty"`
}

func init() { core.Register("C10", c10Check) }

func c10LE(v uint64, n int) []byte {
	b := make([]byte, n)
	for i := 0; i < n; i++ {
		b[i] = byte(v >> (8 * uint(i)))
	}
	return b
}

func c10BE(v uint64, n int) []byte {
	b := make([]byte, n)
	for i := 0; i < n; i++ {
		b[n-1-i] = byte(v >> (8 * uint(i)))
	}
	return b
}

func c10IntType(width int) byte {
	switch width {
	case 1:
		return val.TypeTiny
	case 2:
		return val.TypeShort
	case 3:
		return val.TypeInt24
	case 4:
		return val.TypeLong
	case 8:
		return val.TypeLongLong
	}
	panic("c10: bad integer width")
}

// c10IntText is the decimal text of a w-byte integer image read as unsigned or
// as two's complement.
func c10IntText(dst []byte, bits uint64, width int, unsigned bool) []byte {
	if unsigned {
		return strconv.AppendUint(dst, bits, 10)
	}
	if width == 8 {
		return strconv.AppendInt(dst, int64(bits), 10)
	}
	w := uint(8 * width)
	if bits >= uint64(1)<<(w-1) {
		return strconv.AppendInt(dst, int64(bits)-int64(1)<<w, 10)
	}
	return strconv.AppendInt(dst, int64(bits), 10)
}

type c10Plan struct {
	enc   []byte
	typ   byte
	meta  uint16
	mode  string // text | bytes | float32 | float64
	want  string // text mode: expected text; bytes mode: hex of expected bytes; float: description
	label string // key prefix
}

func c10Build(cs c10Case) c10Plan {
	switch cs.Fam {
	case "int":
		sg := "signed"
		if cs.Unsigned {
			sg = "unsigned"
		}
		return c10Plan{enc: c10LE(cs.Bits, cs.Width), typ: c10IntType(cs.Width), mode: "text",
			want: string(c10IntText(nil, cs.Bits, cs.Width, cs.Unsigned)), label: fmt.Sprintf("int%d-%s", cs.Width*8, sg)}
	case "float":
		if cs.Width == 4 {
			return c10Plan{enc: c10LE(cs.Bits, 4), typ: val.TypeFloat, meta: 4, mode: "float32",
				want: fmt.Sprintf("plain decimal text parsing back to float32 bits %08x (%v)", uint32(cs.Bits), math.Float32frombits(uint32(cs.Bits))), label: "float32"}
		}
		return c10Plan{enc: c10LE(cs.Bits, 8), typ: val.TypeDouble, meta: 8, mode: "float64",
			want: fmt.Sprintf("plain decimal text parsing back to float64 bits %016x (%v)", cs.Bits, math.Float64frombits(cs.Bits)), label: "float64"}
	case "year":
		w := "0000"
		if cs.Bits != 0 {
			w = strconv.Itoa(1900 + int(cs.Bits))
		}
		return c10Plan{enc: []byte{byte(cs.Bits)}, typ: val.TypeYear, mode: "text", want: w, label: "year"}
	case "bit":
		nb := cs.Width
		e := c10BE(cs.Bits, (nb+7)/8)
		return c10Plan{enc: e, typ: val.TypeBit, meta: uint16(nb/8)<<8 | uint16(nb%8), mode: "bytes", want: hex.EncodeToString(e), label: "bit"}
	case "enum-string":
		return c10Plan{enc: c10LE(cs.Bits, cs.Width), typ: val.TypeString, meta: uint16(val.TypeEnum)<<8 | uint16(cs.Width), mode: "text",
			want: strconv.FormatUint(cs.Bits, 10), label: fmt.Sprintf("enum-string-%dbyte", cs.Width)}
	case "enum-bare":
		return c10Plan{enc: c10LE(cs.Bits, cs.Width), typ: val.TypeEnum, meta: uint16(cs.Width), mode: "text",
			want: strconv.FormatUint(cs.Bits, 10), label: fmt.Sprintf("enum-bare-%dbyte", cs.Width)}
	case "set-string":
		return c10Plan{enc: c10LE(cs.Bits, cs.Width), typ: val.TypeString, meta: uint16(val.TypeSet)<<8 | uint16(cs.Width), mode: "text",
			want: strconv.FormatUint(cs.Bits, 10), label: fmt.Sprintf("set-string-%dbyte", cs.Width)}
	case "set-bare":
		e := c10LE(cs.Bits, cs.Width)
		return c10Plan{enc: e, typ: val.TypeSet, meta: uint16(cs.Width), mode: "bytes", want: hex.EncodeToString(e), label: "set-bare"}
	}
	panic("c10: unknown family " + cs.Fam)
}

func c10PlainDecimal(b []byte) bool {
	if len(b) == 0 {
		return false
	}
	for _, ch := range b {
		if !(ch >= '0' && ch <= '9') && ch != '-' && ch != '.' {
			return false
		}
	}
	return true
}

func c10FloatClass(bits uint64, width int) string {
	var exp, mant, maxExp uint64
	if width == 4 {
		exp, mant, maxExp = (bits>>23)&0xFF, bits&0x7FFFFF, 0xFE
	} else {
		exp, mant, maxExp = (bits>>52)&0x7FF, bits&(1<<52-1), 0x7FE
	}
	switch {
	case exp == 0 && mant == 0:
		return "zero"
	case exp == 0:
		return "subnormal"
	case exp == maxExp:
		return "top-exponent"
	}
	return "normal"
}

// c10FloatOK judges a float text: plain decimal characters only and an
// identical value after strconv.ParseFloat.
func c10FloatOK(out []byte, bits uint64, width int) (ok bool, kind string) {
	if bytes.ContainsAny(out, "eE") {
		return false, "exponent-notation"
	}
	if !c10PlainDecimal(out) {
		return false, "not-plain-decimal"
	}
	if width == 4 {
		f, err := strconv.ParseFloat(string(out), 32)
		if err != nil {
			return false, "unparsable"
		}
		if math.Float32bits(float32(f)) != uint32(bits) {
			return false, "roundtrip-differs"
		}
		return true, ""
	}
	f, err := strconv.ParseFloat(string(out), 64)
	if err != nil {
		return false, "unparsable"
	}
	if math.Float64bits(f) != bits {
		return false, "roundtrip-differs"
	}
	return true, ""
}

// c10Judge returns "" if r is what the plan demands, else the violation key.
func c10Judge(cs c10Case, pl c10Plan, r cellOut) (key, msg string) {
	switch {
	case r.pan != "":
		return pl.label + "-panic", "CellBytes panicked on a valid value"
	case r.err != nil:
		return pl.label + "-error", "CellBytes returned an error for a valid value: " + r.err.Error()
	case r.n != len(pl.enc):
		return pl.label + "-consumed-length", fmt.Sprintf("consumed %d bytes, the value occupies %d", r.n, len(pl.enc))
	}
	switch pl.mode {
	case "text":
		if string(r.out) == pl.want {
			return "", ""
		}
		m := fmt.Sprintf("%s image %x: got %q, want %q", pl.label, pl.enc, r.out, pl.want)
		switch cs.Fam {
		case "int":
			other := string(c10IntText(nil, cs.Bits, cs.Width, !cs.Unsigned))
			if string(r.out) == other {
				if cs.Unsigned {
					return pl.label + "-decoded-as-signed", m
				}
				return pl.label + "-decoded-as-unsigned", m
			}
		case "year":
			if cs.Bits == 0 {
				return "year-zero-text-mismatch", m
			}
		}
		return pl.label + "-text-mismatch", m
	case "bytes":
		if hex.EncodeToString(r.out) == pl.want && len(r.out) == len(pl.enc) {
			return "", ""
		}
		return pl.label + "-bytes-mismatch", fmt.Sprintf("%s(width %d) image %x: got bytes %x, want the image verbatim", pl.label, cs.Width, pl.enc, r.out)
	default:
		ok, kind := c10FloatOK(r.out, cs.Bits, cs.Width)
		if ok {
			return "", ""
		}
		k := pl.label + "-" + kind
		if kind == "roundtrip-differs" {
			k += ":" + c10FloatClass(cs.Bits, cs.Width)
		}
		return k, fmt.Sprintf("%s image %x: got %q, want %s", pl.label, pl.enc, r.out, pl.want)
	}
}

// c10Run evaluates one case completely (slow path: used for sampled cases, for
// pin-pointing a failure seen in an exhaustive loop, and for replay).
func c10Run(c *core.Ctx, cs c10Case) bool {
	pl := c10Build(cs)
	buf, pos := cellEmbed(cellUnhex(cs.Pre), pl.enc, cellUnhex(cs.Suf))
	r := cellCall(buf, pos, pl.typ, pl.meta, cs.Unsigned)
	key, msg := c10Judge(cs, pl, r)
	if key == "" {
		if cs.Bits > 1000 && cs.Bits%7 == 3 && c.WantSample() {
			got := string(r.out)
			if pl.mode == "bytes" {
				got = "0x" + hex.EncodeToString(r.out)
			}
			c.Sample(map[string]interface{}{"family": cs.Fam, "width": cs.Width, "unsigned": cs.Unsigned, "image": hex.EncodeToString(pl.enc),
				"offset": pos, "decoded": got, "held": true})
		}
		return true
	}
	var w interface{}
	if c.KeyCount(key) == 0 {
		w = c10Witness{Case: cs, Call: cellInfo(buf, pos, pl.enc, pl.typ, pl.meta, cs.Unsigned, r, pl.want)}
	}
	c.Violation(key, msg, w)
	return false
}

// ---------------------------------------------------------------- workloads

type c10State struct {
	c      *core.Ctx
	chunk  int // running scenario index (sharding)
	hashed int
}

func (st *c10State) mine() bool {
	i := st.chunk
	st.chunk++
	return st.c.Mine(i)
}

// sampled evaluates one case with a random placement.
func (st *c10State) sampled(r *core.Rng, cs c10Case) bool {
	pre, suf := cellFiller(r)
	cs.Pre, cs.Suf = hex.EncodeToString(pre), hex.EncodeToString(suf)
	h := uint64(0)
	if st.hashed < cellHashBudget {
		st.hashed++
		u := uint64(0)
		if cs.Unsigned {
			u = 1
		}
		h = core.HashU64(core.HashU64(core.HashAdd(0, []byte(cs.Fam)), uint64(cs.Width)<<1|u), cs.Bits)
	}
	st.c.Case(h, cs.Bits != 0)
	return c10Run(st.c, cs)
}

// intRange enumerates the integer images lo..hi-1 of one width and signedness
// in a tight loop; a mismatch (or a panic anywhere in the batch) is handed to
// c10Run value by value.
func (st *c10State) intRange(width int, unsigned bool, lo, hi uint64) {
	c := st.c
	typ := c10IntType(width)
	var bufs [4][]byte
	for i := range bufs {
		pre, suf := cellFixedFiller(i)
		bufs[i], _ = cellEmbed(pre, make([]byte, width), suf)
	}
	slow := func(v uint64) {
		pre, suf := cellFixedFiller(int(v))
		c10Run(c, c10Case{Fam: "int", Width: width, Unsigned: unsigned, Bits: v,
			Pre: hex.EncodeToString(pre), Suf: hex.EncodeToString(suf)})
	}
	var tmp [24]byte
	var highBit int64
	top := uint64(1) << (uint(8*width) - 1)
	pan := core.Guard(func() {
		for v := lo; v < hi; v++ {
			pos := int(v & 3)
			b := bufs[pos]
			for i := 0; i < width; i++ {
				b[pos+i] = byte(v >> (8 * uint(i)))
			}
			out, n, err := replication.CellBytes(b, pos, typ, 0, unsigned)
			want := c10IntText(tmp[:0], v, width, unsigned)
			if err != nil || n != width || !bytes.Equal(out, want) {
				slow(v)
			}
			if v&top != 0 {
				highBit++
			}
		}
	})
	if pan != "" {
		// locate the value(s): every call individually guarded
		for v := lo; v < hi; v++ {
			slow(v)
		}
	}
	n := int64(hi - lo)
	nz := n
	if lo == 0 {
		nz--
	}
	c.Bulk(n, nz)
	sg := "signed"
	if unsigned {
		sg = "unsigned"
	}
	c.CellN(fmt.Sprintf("int%d:%s:top-bit-set", width*8, sg), highBit)
	c.CellN(fmt.Sprintf("int%d:%s:top-bit-clear", width*8, sg), n-highBit)
}

// floatRange enumerates float images start, start+step, … (count of them).
func (st *c10State) floatRange(width int, start, step uint64, count int) {
	c := st.c
	typ, meta := byte(val.TypeFloat), uint16(4)
	if width == 8 {
		typ, meta = val.TypeDouble, 8
	}
	finite := func(v uint64) bool {
		if width == 4 {
			return (v>>23)&0xFF != 0xFF
		}
		return (v>>52)&0x7FF != 0x7FF
	}
	var bufs [4][]byte
	for i := range bufs {
		pre, suf := cellFixedFiller(i)
		bufs[i], _ = cellEmbed(pre, make([]byte, width), suf)
	}
	slow := func(v uint64, k int) {
		pre, suf := cellFixedFiller(k)
		c10Run(c, c10Case{Fam: "float", Width: width, Bits: v, Pre: hex.EncodeToString(pre), Suf: hex.EncodeToString(suf)})
	}
	var done int64
	pan := core.Guard(func() {
		v := start
		for k := 0; k < count; k, v = k+1, v+step {
			if !finite(v) {
				continue
			}
			pos := k & 3
			b := bufs[pos]
			for i := 0; i < width; i++ {
				b[pos+i] = byte(v >> (8 * uint(i)))
			}
			out, n, err := replication.CellBytes(b, pos, typ, meta, false)
			if err != nil || n != width {
				slow(v, k)
			} else if ok, _ := c10FloatOK(out, v, width); !ok {
				slow(v, k)
			}
			done++
		}
	})
	if pan != "" {
		v := start
		for k := 0; k < count; k, v = k+1, v+step {
			if finite(v) {
				slow(v, k)
			}
		}
	}
	c.Bulk(done, done)
	c.CellN(fmt.Sprintf("float%d:strided-patterns", width*8), done)
}

func c10IntBoundaries(width int) []uint64 {
	w := uint(8 * width)
	mask := ^uint64(0)
	if w < 64 {
		mask = uint64(1)<<w - 1
	}
	seen := map[uint64]bool{}
	var out []uint64
	add := func(v uint64) {
		v &= mask
		if !seen[v] {
			seen[v] = true
			out = append(out, v)
		}
	}
	for _, v := range []uint64{0, 1, 2, 9, 10, 99, 100} {
		add(v)
		add(-v)
	}
	for k := uint(1); k < w; k++ {
		p := uint64(1) << k
		for _, v := range []uint64{p - 1, p, p + 1} {
			add(v)  // +2^k-1, +2^k, +2^k+1
			add(-v) // the same magnitudes negative (two's complement image)
		}
	}
	add(mask)     // -1 / max unsigned
	add(mask - 1) // -2
	add(mask >> 1)
	add(mask>>1 + 1) // min signed
	// powers of ten around every digit-count change
	p10 := uint64(1)
	for i := 0; i < 19; i++ {
		p10 *= 10
		add(p10 - 1)
		add(p10)
		add(-p10)
		add(-(p10 - 1))
	}
	return out
}

func c10Check(c *core.Ctx) {
	c.SetRule("Integers: every image of the 8-, 16- and 24-bit types, signed and unsigned, is enumerated (24-bit in 256 chunks per signedness, split over the shards); " +
		"32-bit: boundary images (0, ±1, ±2^k, ±2^k±1, ±10^k, min, max) + 2M random images per run in quick, every one of the 2^32 images × 2 signedness in thorough; " +
		"64-bit: the same boundaries + 1M (quick) / 20M (thorough) random images. FLOAT/DOUBLE: every exponent × mantissa {0,1,max} × sign, 1M random finite bit patterns each " +
		"(DOUBLE thorough: 20M), FLOAT thorough additionally every 256th of all 2^32 patterns (non-finite patterns skipped: MySQL cannot store them). All 256 YEAR bytes. " +
		"BIT(1..64) × {0, all ones, random}. ENUM 1 and 2 bytes (all values) as TypeString+ENUM metadata and as bare TypeEnum. SET 1..8 bytes (all values for 1-2 bytes, boundaries+random above) " +
		"as TypeString+SET metadata (decimal bitmask) and as bare TypeSet (bytes verbatim). Sampled cases sit at a random non-zero offset between random filler bytes; enumerations use offsets 0..3 with fixed filler. " +
		"A case is identified by (family, width, signedness, image); non-trivial iff the image is not all zero bytes. " +
		"distinct_nontrivial = enumerated cases + the first 300 000 sampled cases of each process (later sampled cases count as evaluations only).")
	c.Assume("strconv.FormatInt/FormatUint/ParseFloat of the Go standard library are correct (shared with the code under test)")
	c.Assume("TABLE_MAP metadata conventions: BIT = (bits/8)<<8 | bits%8; ENUM/SET arrive as MYSQL_TYPE_STRING with the real type in the metadata high byte and the pack length in the low byte")

	if c.Replay != "" {
		var w c10Witness
		if err := cellReadWitness(c.Replay, &w); err != nil {
			c.Inconclusive("cannot read witness: " + err.Error())
			return
		}
		c.Case(core.HashU64(core.HashAdd(0, []byte(w.Case.Fam)), w.Case.Bits), true)
		if c10Run(c, w.Case) {
			c.Cell("replay-held")
		}
		return
	}

	st := &c10State{c: c}
	thorough := !c.Quick()

	// ---- integers, exhaustive widths
	for _, uns := range []bool{false, true} {
		if st.mine() {
			c.Log("C10 int8 unsigned=%v", uns)
			st.intRange(1, uns, 0, 1<<8)
		}
		if st.mine() {
			c.Log("C10 int16 unsigned=%v", uns)
			st.intRange(2, uns, 0, 1<<16)
		}
	}
	for _, uns := range []bool{false, true} {
		for ch := uint64(0); ch < 256; ch++ {
			if st.mine() {
				c.Log("C10 int24 unsigned=%v chunk %d", uns, ch)
				st.intRange(3, uns, ch<<16, (ch+1)<<16)
			}
		}
	}
	c.ExhaustiveDomain("TINYINT: all 2^8 images × signed/unsigned")
	c.ExhaustiveDomain("SMALLINT: all 2^16 images × signed/unsigned")
	c.ExhaustiveDomain("MEDIUMINT: all 2^24 images × signed/unsigned")

	// ---- 32 and 64 bit: boundaries
	for _, width := range []int{4, 8} {
		for _, uns := range []bool{false, true} {
			if !st.mine() {
				continue
			}
			c.Log("C10 int%d boundaries unsigned=%v", width*8, uns)
			r := c.Rng(core.StrID("int-boundaries"), uint64(width), core.StrID(fmt.Sprint(uns)))
			for _, v := range c10IntBoundaries(width) {
				st.sampled(r, c10Case{Fam: "int", Width: width, Unsigned: uns, Bits: v})
				c.Cell(fmt.Sprintf("int%d:boundary", width*8))
			}
		}
	}
	// also the narrow widths once through the sampled (random offset) path
	for _, width := range []int{1, 2, 3} {
		for _, uns := range []bool{false, true} {
			if !st.mine() {
				continue
			}
			r := c.Rng(core.StrID("int-boundaries"), uint64(width), core.StrID(fmt.Sprint(uns)))
			for _, v := range c10IntBoundaries(width) {
				st.sampled(r, c10Case{Fam: "int", Width: width, Unsigned: uns, Bits: v})
				c.Cell(fmt.Sprintf("int%d:boundary", width*8))
			}
		}
	}
	// ---- 32 bit: random (quick) or everything (thorough)
	if thorough {
		for _, uns := range []bool{false, true} {
			for ch := uint64(0); ch < 1<<12; ch++ {
				if st.mine() {
					c.Log("C10 int32 unsigned=%v chunk %d", uns, ch)
					st.intRange(4, uns, ch<<20, (ch+1)<<20)
				}
			}
		}
		c.ExhaustiveDomain("INT: all 2^32 images × signed/unsigned (thorough tier)")
	} else {
		for ch := 0; ch < 200; ch++ {
			if !st.mine() {
				continue
			}
			r := c.Rng(core.StrID("int32-random"), uint64(ch))
			for k := 0; k < 10000; k++ {
				v := uint64(r.U32())
				if r.Chance(1, 8) {
					v >>= uint(r.Intn(32))
				}
				uns := r.Bool()
				st.sampled(r, c10Case{Fam: "int", Width: 4, Unsigned: uns, Bits: v})
			}
			c.CellN("int32:random", 10000)
		}
	}
	// ---- 64 bit random
	for ch := 0; ch < c.N(100, 2000); ch++ {
		if !st.mine() {
			continue
		}
		r := c.Rng(core.StrID("int64-random"), uint64(ch))
		for k := 0; k < 10000; k++ {
			v := r.U64()
			if r.Chance(1, 8) {
				v >>= uint(r.Intn(64))
			}
			if r.Chance(1, 16) {
				v = -v
			}
			uns := r.Bool()
			st.sampled(r, c10Case{Fam: "int", Width: 8, Unsigned: uns, Bits: v})
		}
		c.CellN("int64:random", 10000)
	}

	// ---- floats: exponent classes
	for _, width := range []int{4, 8} {
		mbits, ebits := uint(23), uint64(0xFF)
		if width == 8 {
			mbits, ebits = 52, 0x7FF
		}
		for sign := uint64(0); sign < 2; sign++ {
			if !st.mine() {
				continue
			}
			c.Log("C10 float%d classes sign=%d", width*8, sign)
			r := c.Rng(core.StrID("float-classes"), uint64(width), sign)
			for e := uint64(0); e < ebits; e++ {
				for _, m := range []uint64{0, 1, uint64(1)<<mbits - 1, uint64(1) << (mbits - 1)} {
					bits := sign<<(uint(width*8)-1) | e<<mbits | m
					st.sampled(r, c10Case{Fam: "float", Width: width, Bits: bits})
					sg := "positive"
					if sign == 1 {
						sg = "negative"
					}
					c.Cell(fmt.Sprintf("float%d:%s:%s", width*8, sg, c10FloatClass(bits, width)))
				}
			}
		}
	}
	// ---- floats: random bit patterns
	for _, width := range []int{4, 8} {
		chunks := 100
		if thorough && width == 8 {
			chunks = 2000
		}
		for ch := 0; ch < chunks; ch++ {
			if !st.mine() {
				continue
			}
			r := c.Rng(core.StrID("float-random"), uint64(width), uint64(ch))
			for k := 0; k < 10000; k++ {
				var bits uint64
				if width == 4 {
					bits = uint64(r.U32())
					if (bits>>23)&0xFF == 0xFF {
						bits &^= 1 << 23 // make it finite
					}
					if r.Chance(1, 4) { // "human" values: small decimals
						bits = uint64(math.Float32bits(float32(r.Intn(2000001)-1000000) / float32(c10Pow10(r.Intn(7)))))
					}
				} else {
					bits = r.U64()
					if (bits>>52)&0x7FF == 0x7FF {
						bits &^= 1 << 52
					}
					if r.Chance(1, 4) {
						bits = math.Float64bits(float64(int64(r.U64()>>20)-(1<<43)) / float64(c10Pow10(r.Intn(16))))
					}
				}
				st.sampled(r, c10Case{Fam: "float", Width: width, Bits: bits})
			}
			c.CellN(fmt.Sprintf("float%d:random", width*8), 10000)
		}
	}
	if thorough {
		off := uint64(c.Rng(core.StrID("float32-stride")).Intn(256))
		for ch := uint64(0); ch < 256; ch++ {
			if st.mine() {
				c.Log("C10 float32 stride chunk %d", ch)
				st.floatRange(4, ch<<24|off, 256, 1<<16)
			}
		}
	}

	// ---- YEAR
	if st.mine() {
		r := c.Rng(core.StrID("year"))
		for b := uint64(0); b < 256; b++ {
			st.sampled(r, c10Case{Fam: "year", Width: 1, Bits: b})
		}
		c.CellN("year:bytes", 256)
		c.Cell("year:zero")
	}
	c.ExhaustiveDomain("YEAR: all 256 byte values")

	// ---- BIT(1..64)
	for nb := 1; nb <= 64; nb++ {
		if !st.mine() {
			continue
		}
		r := c.Rng(core.StrID("bit"), uint64(nb))
		mask := ^uint64(0)
		if nb < 64 {
			mask = uint64(1)<<uint(nb) - 1
		}
		vals := []uint64{0, 1, mask, uint64(1) << uint(nb-1)}
		for k := 0; k < c.N(200, 5000); k++ {
			vals = append(vals, r.U64()&mask)
		}
		for _, v := range vals {
			st.sampled(r, c10Case{Fam: "bit", Width: nb, Bits: v})
		}
		c.Cell(fmt.Sprintf("bit:bytes=%d", (nb+7)/8))
		if nb%8 != 0 {
			c.Cell("bit:partial-top-byte")
		}
	}

	// ---- ENUM
	for _, fam := range []string{"enum-string", "enum-bare"} {
		for _, width := range []int{1, 2} {
			if !st.mine() {
				continue
			}
			r := c.Rng(core.StrID(fam), uint64(width))
			for v := uint64(0); v < uint64(1)<<uint(8*width); v++ {
				st.sampled(r, c10Case{Fam: fam, Width: width, Bits: v})
			}
			c.CellN(fmt.Sprintf("%s:%dbyte", fam, width), int64(1)<<uint(8*width))
		}
	}
	c.ExhaustiveDomain("ENUM: all member indexes of the 1- and 2-byte forms, via TypeString metadata and bare TypeEnum")

	// ---- SET
	for _, fam := range []string{"set-string", "set-bare"} {
		for width := 1; width <= 8; width++ {
			if !st.mine() {
				continue
			}
			r := c.Rng(core.StrID(fam), uint64(width))
			var n int64
			if width <= 2 {
				for v := uint64(0); v < uint64(1)<<uint(8*width); v++ {
					st.sampled(r, c10Case{Fam: fam, Width: width, Bits: v})
					n++
				}
			} else {
				for _, v := range c10IntBoundaries(width) {
					st.sampled(r, c10Case{Fam: fam, Width: width, Bits: v})
					n++
				}
				mask := ^uint64(0)
				if width < 8 {
					mask = uint64(1)<<uint(8*width) - 1
				}
				for k := 0; k < c.N(20000, 200000); k++ {
					v := r.U64() & mask
					if r.Chance(1, 4) {
						v &= r.U64() // sparse masks
					}
					st.sampled(r, c10Case{Fam: fam, Width: width, Bits: v})
					n++
				}
			}
			c.CellN(fmt.Sprintf("%s:%dbyte", fam, width), n)
		}
	}
	c.ExhaustiveDomain("SET: all bitmasks of the 1- and 2-byte forms, via TypeString metadata and bare TypeSet")
	c.Note("scenario_chunks", 0)
	if c.Shard == 0 {
		c.Note("scenario_chunks", int64(st.chunk))
	}
}

func c10Pow10(n int) int64 {
	p := int64(1)
	for i := 0; i < n; i++ {
		p *= 10
	}
	return p
}
