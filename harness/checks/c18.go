//go:build verif

package checks

// C18 "MySQL 5.6 GTID sets behave as mathematical sets of transaction ids".
//
// The library's Mysql56GTIDSet is driven next to the models of
// verifharness/model/gtidmodel (a set of (SID, number) pairs; sorted disjoint
// intervals for wide numbers). Sets are obtained only the ways the property
// allows: from canonical input (SID block written by the model, canonical text
// through the flavor parser) and by AddGTID from those / from the empty set.

import (
	"bytes"
	"encoding/json"
	"fmt"
	"os"

	"github.com/Breeze0806/gobinlog/replication"

	"verifharness/core"
	"verifharness/model/gtidmodel"
)

func init() { core.Register("C18", runC18) }

const (
	c18WaySIDBlock = 0 // NewMysql56GTIDSetFromSIDBlock(model bytes)
	c18WayParser   = 1 // VerifParseGTIDSet("MySQL56", canonical text)
	c18WayChain    = 2 // AddGTID chain from Mysql56GTIDSet{}
)

var c18WayNames = [3]string{"sidblock", "parser", "addchain"}

// c18Op is one AddGTID: receiver = set number From of the sequence (-1 = the
// most recent one).
type c18Op struct {
	SID  gtidmodel.SID
	N    int64
	From int
}

// c18Scn is one sequence scenario: an initial canonical set and adds.
type c18Scn struct {
	init      gtidmodel.IvSet56
	way       int
	chainSeed uint64
	ops       []c18Op
	probeSIDs []gtidmodel.SID
	dense     bool // probe every number in lo..hi
	lo, hi    int64
	origin    string
}

type c18OpJSON struct {
	SID  string `json:"sid"`
	N    int64  `json:"n"`
	From int    `json:"from"`
}

// c18Wit is the replayable form of a scenario (sequence or pair).
type c18Wit struct {
	Kind      string      `json:"kind"` // "seq" | "pair"
	Origin    string      `json:"origin,omitempty"`
	Init      string      `json:"init"`
	Way       int         `json:"way"`
	ChainSeed uint64      `json:"chain_seed"`
	Ops       []c18OpJSON `json:"ops,omitempty"`
	ProbeSIDs []string    `json:"probe_sids,omitempty"`
	Dense     bool        `json:"dense"`
	Lo        int64       `json:"lo"`
	Hi        int64       `json:"hi"`
	A         string      `json:"a,omitempty"`
	B         string      `json:"b,omitempty"`
	WayA      int         `json:"way_a"`
	WayB      int         `json:"way_b"`
	ChainA    uint64      `json:"chain_seed_a"`
	ChainB    uint64      `json:"chain_seed_b"`
	Detail    interface{} `json:"detail,omitempty"`
}

func (sc *c18Scn) witness(detail interface{}) *c18Wit {
	w := &c18Wit{Kind: "seq", Origin: sc.origin, Init: sc.init.String(), Way: sc.way, ChainSeed: sc.chainSeed,
		Dense: sc.dense, Lo: sc.lo, Hi: sc.hi, Detail: detail}
	for _, o := range sc.ops {
		w.Ops = append(w.Ops, c18OpJSON{o.SID.String(), o.N, o.From})
	}
	for _, s := range sc.probeSIDs {
		w.ProbeSIDs = append(w.ProbeSIDs, s.String())
	}
	return w
}

// c18Set is one obtained library set with its model and the snapshots taken
// when it was obtained.
type c18Set struct {
	m   gtidmodel.IvSet56
	l   replication.Mysql56GTIDSet
	str string
	blk []byte
}

type c18 struct {
	c     *core.Ctx
	cells map[string]int64
}

func (k *c18) cell(name string) { k.cells[name]++ }

func (k *c18) flush() {
	for n, v := range k.cells {
		k.c.CellN(n, v)
	}
	k.cells = map[string]int64{}
}

// vio reports a violation; the witness is only built for the first one of a key.
func (k *c18) vio(key, msg string, wit func() interface{}) {
	var w interface{}
	if k.c.KeyCount(key) == 0 && wit != nil {
		w = wit()
	}
	k.c.Violation(key, msg, w)
}

func c18GTID(sid gtidmodel.SID, n int64) replication.Mysql56GTID {
	return replication.Mysql56GTID{Server: replication.SID(sid), Sequence: n}
}

// build obtains a library set equal to model m one of the three ways. It does
// not report; the caller decides what an error means.
func (k *c18) build(m gtidmodel.IvSet56, way int, chainSeed uint64) (set replication.Mysql56GTIDSet, errs string) {
	if way == c18WayChain && m.Count(64) > 64 {
		way = c18WaySIDBlock
	}
	if way == c18WayParser && len(m) == 0 {
		// the text form is only stated for non-empty sets
		way = c18WaySIDBlock
	}
	p := core.Guard(func() {
		switch way {
		case c18WaySIDBlock:
			s, err := replication.NewMysql56GTIDSetFromSIDBlock(m.SIDBlock())
			if err != nil {
				errs = "NewMysql56GTIDSetFromSIDBlock: " + err.Error()
				return
			}
			set = s
		case c18WayParser:
			gs, err := replication.VerifParseGTIDSet("MySQL56", m.String())
			if err != nil {
				errs = "parser: " + err.Error()
				return
			}
			s, ok := gs.(replication.Mysql56GTIDSet)
			if !ok {
				errs = fmt.Sprintf("parser returned %T", gs)
				return
			}
			set = s
		default:
			pts := m.Points()
			switch chainSeed {
			case 0:
			case 1:
				for i, j := 0, len(pts)-1; i < j; i, j = i+1, j-1 {
					pts[i], pts[j] = pts[j], pts[i]
				}
			default:
				r := core.NewRng(chainSeed)
				for i := len(pts) - 1; i > 0; i-- {
					j := r.Intn(i + 1)
					pts[i], pts[j] = pts[j], pts[i]
				}
			}
			cur := replication.Mysql56GTIDSet{}
			for _, pt := range pts {
				gs := cur.AddGTID(c18GTID(pt.SID, pt.N))
				s, ok := gs.(replication.Mysql56GTIDSet)
				if !ok {
					errs = fmt.Sprintf("AddGTID returned %T", gs)
					return
				}
				cur = s
			}
			set = cur
		}
	})
	if p != "" {
		return nil, "PANIC " + p
	}
	return set, errs
}

// snap reads String() and SIDBlock() of a library set.
func (k *c18) snap(l replication.Mysql56GTIDSet) (str string, blk []byte, perr string) {
	perr = core.Guard(func() {
		str = l.String()
		blk = l.SIDBlock()
	})
	return
}

// obtain builds a set, snapshots it and verifies the rendering against the model.
func (k *c18) obtain(m gtidmodel.IvSet56, way int, chainSeed uint64, wit func(detail interface{}) interface{}) *c18Set {
	l, errs := k.build(m, way, chainSeed)
	if errs != "" {
		key := "gtid56-create-error:" + c18WayNames[way]
		if len(errs) > 5 && errs[:5] == "PANIC" {
			key = "gtid56-panic"
		}
		k.vio(key, "canonical set "+c18Short(m.String())+" could not be built via "+c18WayNames[way]+": "+c18FirstLine(errs),
			func() interface{} { return wit(map[string]string{"error": errs}) })
		return nil
	}
	str, blk, perr := k.snap(l)
	if perr != "" {
		k.vio("gtid56-panic", "String/SIDBlock panicked: "+c18FirstLine(perr), func() interface{} { return wit(map[string]string{"panic": perr}) })
		return nil
	}
	s := &c18Set{m: m, l: l, str: str, blk: blk}
	if !k.rendering(s, "gtid56-string-mismatch", "gtid56-string-mismatch", "gtid56-sidblock-mismatch", "gtid56-sidblock-mismatch",
		"set built via "+c18WayNames[way], wit) {
		return nil
	}
	return s
}

// rendering compares String() and SIDBlock() of s with the model. The keys
// say what to report when the denoted set is wrong / right but not canonical.
func (k *c18) rendering(s *c18Set, keyStrWrong, keyStrForm, keyBlkWrong, keyBlkForm, what string, wit func(detail interface{}) interface{}) bool {
	ok := true
	if want := s.m.String(); s.str != want {
		ok = false
		key := keyStrWrong
		if es, err := gtidmodel.ParseText56(s.str); err == nil && gtidmodel.FromEntries(es).Equal(s.m) {
			key = keyStrForm
		}
		k.vio(key, fmt.Sprintf("%s: String()=%s, model %s", what, c18Short(s.str), c18Short(want)),
			func() interface{} { return wit(map[string]string{"got_string": s.str, "want_string": want}) })
	}
	if want := s.m.SIDBlock(); !bytes.Equal(s.blk, want) {
		ok = false
		key := keyBlkWrong
		if es, err := gtidmodel.DecodeSIDBlock(s.blk); err == nil && gtidmodel.FromEntries(es).Equal(s.m) {
			key = keyBlkForm
		}
		k.vio(key, fmt.Sprintf("%s: SIDBlock()=%x, model %x", what, c18Clip(s.blk, 80), c18Clip(want, 80)),
			func() interface{} {
				return wit(map[string]string{"got_sidblock": fmt.Sprintf("%x", s.blk), "want_sidblock": fmt.Sprintf("%x", want)})
			})
	}
	return ok
}

func c18Clip(b []byte, n int) []byte {
	if len(b) > n {
		return b[:n]
	}
	return b
}

func c18Short(s string) string {
	if len(s) > 200 {
		return s[:200] + "…"
	}
	if s == "" {
		return `""`
	}
	return s
}

func c18FirstLine(s string) string {
	for i := 0; i < len(s); i++ {
		if s[i] == '\n' {
			return s[:i]
		}
	}
	return s
}

// pair checks a.Contains(b) and a.Equal(b) against the expected answers.
func (k *c18) pair(a, b *c18Set, wantContains, wantEqual bool, wit func(detail interface{}) interface{}) {
	var gc, ge bool
	if p := core.Guard(func() { gc = a.l.Contains(b.l); ge = a.l.Equal(b.l) }); p != "" {
		k.vio("gtid56-panic", "Contains/Equal panicked: "+c18FirstLine(p), func() interface{} { return wit(map[string]string{"panic": p}) })
		return
	}
	if gc != wantContains {
		k.vio("gtid56-contains-mismatch", fmt.Sprintf("{%s}.Contains({%s}) = %v, model %v", c18Short(a.str), c18Short(b.str), gc, wantContains),
			func() interface{} {
				return wit(map[string]interface{}{"a": a.m.String(), "b": b.m.String(), "got": gc, "want": wantContains})
			})
	}
	if ge != wantEqual {
		k.vio("gtid56-equal-mismatch", fmt.Sprintf("{%s}.Equal({%s}) = %v, model %v", c18Short(a.str), c18Short(b.str), ge, wantEqual),
			func() interface{} {
				return wit(map[string]interface{}{"a": a.m.String(), "b": b.m.String(), "got": ge, "want": wantEqual})
			})
	}
}

// probe checks ContainsGTID(sid, n) against the model.
func (k *c18) probe(s *c18Set, sid gtidmodel.SID, n int64, wit func(detail interface{}) interface{}) {
	if n < 1 {
		return
	}
	var got bool
	if p := core.Guard(func() { got = s.l.ContainsGTID(c18GTID(sid, n)) }); p != "" {
		k.vio("gtid56-panic", "ContainsGTID panicked: "+c18FirstLine(p), func() interface{} { return wit(map[string]string{"panic": p}) })
		return
	}
	if want := s.m.Has(sid, n); got != want {
		k.vio("gtid56-containsgtid-mismatch", fmt.Sprintf("{%s}.ContainsGTID(%s:%d) = %v, model %v", c18Short(s.str), sid, n, got, want),
			func() interface{} {
				return wit(map[string]interface{}{"set": s.m.String(), "sid": sid.String(), "n": n, "got": got, "want": want})
			})
	}
}

// probeAll runs the membership probes of a scenario on one set. extra are
// numbers of special interest (the number just added).
func (k *c18) probeAll(sc *c18Scn, s *c18Set, extraSID gtidmodel.SID, extra int64, wit func(detail interface{}) interface{}) int {
	n := 0
	if sc.dense {
		for _, sid := range sc.probeSIDs {
			for v := sc.lo; v <= sc.hi; v++ {
				k.probe(s, sid, v, wit)
				n++
			}
		}
		return n
	}
	for _, sid := range sc.probeSIDs {
		ivs := s.m[sid]
		for i, iv := range ivs {
			if i >= 6 {
				break
			}
			for _, v := range [...]int64{iv.Start - 1, iv.Start, iv.Start + 1, iv.End - 1, iv.End, iv.End + 1} {
				k.probe(s, sid, v, wit)
				n++
			}
		}
		if len(ivs) == 0 {
			k.probe(s, sid, 1, wit)
			n++
		}
	}
	if extra > 0 {
		for d := int64(-2); d <= 2; d++ {
			k.probe(s, extraSID, extra+d, wit)
			n++
		}
	}
	return n
}

// stable checks that a previously obtained set still renders as it did.
func (k *c18) stable(e *c18Set, key, what string, wit func(detail interface{}) interface{}) bool {
	str, blk, perr := k.snap(e.l)
	if perr != "" {
		k.vio("gtid56-panic", "String/SIDBlock panicked: "+c18FirstLine(perr), func() interface{} { return wit(map[string]string{"panic": perr}) })
		return false
	}
	if str != e.str || !bytes.Equal(blk, e.blk) {
		k.vio(key, fmt.Sprintf("%s: was %s, now %s", what, c18Short(e.str), c18Short(str)),
			func() interface{} {
				return wit(map[string]string{"before_string": e.str, "after_string": str,
					"before_sidblock": fmt.Sprintf("%x", e.blk), "after_sidblock": fmt.Sprintf("%x", blk)})
			})
		return false
	}
	return true
}

// classify names what an add does to the receiver (by the model).
func c18Classify(m gtidmodel.IvSet56, sid gtidmodel.SID, n int64) string {
	ivs, ok := m[sid]
	if !ok {
		return "add:new-sid"
	}
	if m.Has(sid, n) {
		return "add:duplicate"
	}
	lo, hi := false, false
	for _, iv := range ivs {
		if iv.End+1 == n {
			lo = true // extends an interval upwards
		}
		if iv.Start-1 == n {
			hi = true // extends an interval downwards
		}
	}
	switch {
	case lo && hi:
		return "add:bridge-merge"
	case lo:
		return "add:extend-up"
	case hi:
		return "add:extend-down"
	}
	switch {
	case n < ivs[0].Start:
		return "add:isolated-before"
	case n > ivs[len(ivs)-1].End:
		return "add:isolated-after"
	}
	return "add:isolated-between"
}

// runSeq runs one sequence scenario with all checks after every operation.
// It returns whether the sequence was non-trivial (some add touched an
// existing interval) and the number of library operations observed.
func (k *c18) runSeq(sc *c18Scn) (nontrivial bool) {
	wit := func(detail interface{}) interface{} { return sc.witness(detail) }
	s0 := k.obtain(sc.init, sc.way, sc.chainSeed, wit)
	if s0 == nil {
		return false
	}
	k.cell("create:" + c18WayNames[sc.way])
	if len(sc.init) == 0 {
		k.cell("init:empty")
	} else {
		k.cell(fmt.Sprintf("init:sids=%d", len(sc.init)))
	}
	k.probeAll(sc, s0, gtidmodel.SID{}, 0, wit)
	k.pair(s0, s0, true, true, wit)
	sets := []*c18Set{s0}
	for oi, op := range sc.ops {
		recv := sets[len(sets)-1]
		if op.From >= 0 && op.From < len(sets) {
			recv = sets[op.From]
		}
		class := c18Classify(recv.m, op.SID, op.N)
		k.cell(class)
		switch class {
		case "add:bridge-merge", "add:extend-up", "add:extend-down":
			nontrivial = true
		}
		var res replication.GTIDSet
		if p := core.Guard(func() { res = recv.l.AddGTID(c18GTID(op.SID, op.N)) }); p != "" {
			k.vio("gtid56-panic", fmt.Sprintf("AddGTID(%s:%d) on {%s} panicked: %s", op.SID, op.N, c18Short(recv.str), c18FirstLine(p)),
				func() interface{} { return wit(map[string]interface{}{"op": oi, "panic": p}) })
			return
		}
		rl, ok := res.(replication.Mysql56GTIDSet)
		if !ok {
			k.vio("gtid56-add-wrong-type", fmt.Sprintf("AddGTID returned %T", res), func() interface{} { return wit(map[string]interface{}{"op": oi}) })
			return
		}
		str, blk, perr := k.snap(rl)
		if perr != "" {
			k.vio("gtid56-panic", "String/SIDBlock of an AddGTID result panicked: "+c18FirstLine(perr),
				func() interface{} { return wit(map[string]interface{}{"op": oi, "panic": perr}) })
			return
		}
		r := &c18Set{m: recv.m.Add(op.SID, op.N), l: rl, str: str, blk: blk}
		witOp := func(detail interface{}) interface{} {
			return wit(map[string]interface{}{"op": oi, "receiver": recv.m.String(), "add": fmt.Sprintf("%s:%d", op.SID, op.N), "info": detail})
		}
		// immutability of everything obtained before (the receiver first)
		for ei, e := range sets {
			if e == recv {
				k.stable(e, "gtid56-receiver-mutated", fmt.Sprintf("receiver changed by AddGTID(%s:%d)", op.SID, op.N), witOp)
			} else {
				k.stable(e, "gtid56-earlier-set-mutated", fmt.Sprintf("set #%d changed by AddGTID(%s:%d) on set {%s}", ei, op.SID, op.N, c18Short(recv.str)), witOp)
			}
		}
		// the result is the union, in canonical form
		if !k.rendering(r, "gtid56-add-not-union", "gtid56-add-not-canonical", "gtid56-add-not-union", "gtid56-add-not-canonical",
			fmt.Sprintf("{%s}.AddGTID(%s:%d)", c18Short(recv.str), op.SID, op.N), witOp) {
			return // later operations would only repeat the divergence
		}
		k.probeAll(sc, r, op.SID, op.N, witOp)
		// all pairs: the new set against every earlier one and itself
		for _, e := range sets {
			k.pair(r, e, r.m.Contains(e.m), r.m.Equal(e.m), witOp)
			k.pair(e, r, e.m.Contains(r.m), e.m.Equal(r.m), witOp)
		}
		k.pair(r, r, true, true, witOp)
		// a derived set against the same set obtained from canonical input
		if twin := k.obtain(r.m, oi%2, 0, witOp); twin != nil {
			k.pair(r, twin, true, true, witOp)
			k.pair(twin, r, true, true, witOp)
		}
		sets = append(sets, r)
	}
	// Contains / Equal / ContainsGTID must not have changed anything either
	for ei, e := range sets {
		k.stable(e, "gtid56-operand-mutated", fmt.Sprintf("set #%d changed by a query", ei), wit)
	}
	return nontrivial
}

// ---------------------------------------------------------------- exhaustive windows

// c18Window enumerates all 256 sets whose numbers lie in 1..per for each of
// the given SIDs (len(sids)*per == 8 bits).
func (k *c18) window(name string, sids []gtidmodel.SID, per int, addSIDs []gtidmodel.SID, addMax int64) {
	c := k.c
	modelOf := func(mask int) (gtidmodel.IvSet56, gtidmodel.Set56) {
		iv, pt := gtidmodel.IvSet56{}, gtidmodel.Set56{}
		for b := 0; b < 8; b++ {
			if mask>>b&1 == 1 {
				sid, n := sids[b/per], int64(b%per+1)
				iv = iv.Add(sid, n)
				pt = pt.Add(sid, n)
			}
		}
		return iv, pt
	}
	var models [256]gtidmodel.IvSet56
	var sets [256][3]*c18Set
	for mask := 0; mask < 256; mask++ {
		iv, pt := modelOf(mask)
		if !pt.Intervals().Equal(iv) || pt.String() != iv.String() {
			c.Inconclusive(fmt.Sprintf("C18 models disagree on mask %d of %s: %q vs %q", mask, name, pt.String(), iv.String()))
			return
		}
		models[mask] = iv
		for way := 0; way < 3; way++ {
			mask, way := mask, way
			wit := func(detail interface{}) interface{} {
				return &c18Wit{Kind: "seq", Origin: name, Init: iv.String(), Way: way, ChainSeed: uint64(mask % 3), Detail: detail}
			}
			if c.Mine(mask) {
				sets[mask][way] = k.obtain(iv, way, uint64(mask%3), wit)
				k.cell("create:" + c18WayNames[way])
			} else if l, errs := k.build(iv, way, uint64(mask%3)); errs == "" {
				// built (not verified: the owning shard reports) for use as a partner
				if str, blk, perr := k.snap(l); perr == "" && str == iv.String() {
					sets[mask][way] = &c18Set{m: iv, l: l, str: str, blk: blk}
				}
			}
		}
	}
	// all ordered pairs, each in all 3x3 constructions
	var pairs, pairsNT int64
	for a := 0; a < 256; a++ {
		if !c.Mine(a) {
			continue
		}
		for b := 0; b < 256; b++ {
			wantC, wantE := a&b == b, a == b
			if models[a].Contains(models[b]) != wantC || models[a].Equal(models[b]) != wantE {
				c.Inconclusive(fmt.Sprintf("C18 interval model disagrees with bit masks on %d,%d of %s", a, b, name))
				return
			}
			for wa := 0; wa < 3; wa++ {
				for wb := 0; wb < 3; wb++ {
					A, B := sets[a][wa], sets[b][wb]
					if A == nil || B == nil {
						continue
					}
					a, b, wa, wb := a, b, wa, wb
					k.pair(A, B, wantC, wantE, func(detail interface{}) interface{} {
						return &c18Wit{Kind: "pair", Origin: name, A: models[a].String(), B: models[b].String(), WayA: wa, WayB: wb,
							ChainA: uint64(a % 3), ChainB: uint64(b % 3), Detail: detail}
					})
					pairs++
					if a != 0 && b != 0 {
						pairsNT++
					}
				}
			}
		}
	}
	k.cells["pair:exhaustive"] += pairs
	c.Bulk(pairs, pairsNT)
	// queries must not change their operands
	for mask := 0; mask < 256; mask++ {
		for way := 0; way < 3; way++ {
			if e := sets[mask][way]; e != nil {
				mask, way := mask, way
				k.stable(e, "gtid56-operand-mutated", "set changed by Contains/Equal", func(detail interface{}) interface{} {
					return &c18Wit{Kind: "seq", Origin: name, Init: models[mask].String(), Way: way, ChainSeed: uint64(mask % 3), Detail: detail}
				})
			}
		}
	}
	// all single adds
	probe := append(append([]gtidmodel.SID{}, addSIDs...), gtidmodel.SID{0x77, 0x77})
	var adds, addsNT int64
	for mask := 0; mask < 256; mask++ {
		if !c.Mine(mask) {
			continue
		}
		for way := 0; way < 3; way++ {
			for _, sid := range addSIDs {
				for n := int64(1); n <= addMax; n++ {
					sc := &c18Scn{init: models[mask], way: way, chainSeed: uint64(mask % 3), ops: []c18Op{{sid, n, -1}},
						probeSIDs: probe, dense: true, lo: 1, hi: addMax + 2, origin: name}
					k.runSeq(sc)
					adds++
					if mask != 0 {
						addsNT++
					}
				}
			}
		}
	}
	c.Bulk(adds, addsNT)
}

// ---------------------------------------------------------------- random sequences

var c18Special = func() []gtidmodel.SID {
	var out []gtidmodel.SID
	out = append(out, gtidmodel.SID{})
	var ff gtidmodel.SID
	for i := range ff {
		ff[i] = 0xff
	}
	out = append(out, ff)
	for i := 0; i < 16; i++ {
		for _, v := range []byte{0x01, 0x80, 0xff} {
			var s gtidmodel.SID
			s[i] = v
			out = append(out, s)
		}
	}
	return out
}()

func c18RandSID(r *core.Rng) gtidmodel.SID {
	var s gtidmodel.SID
	switch r.Intn(4) {
	case 0:
		return c18Special[r.Intn(len(c18Special))]
	default:
		copy(s[:], r.Bytes(16))
	}
	return s
}

// c18Pool returns n distinct SIDs; some differ from another one in a single byte.
func c18Pool(r *core.Rng, n int) []gtidmodel.SID {
	var out []gtidmodel.SID
	seen := map[gtidmodel.SID]bool{}
	for len(out) < n {
		var s gtidmodel.SID
		if len(out) > 0 && r.Chance(1, 3) {
			s = out[r.Intn(len(out))]
			s[r.Intn(16)] ^= byte(1 << uint(r.Intn(8)))
		} else {
			s = c18RandSID(r)
		}
		if !seen[s] {
			seen[s] = true
			out = append(out, s)
		}
	}
	return out
}

const c18Max = int64(1) << 62

func c18Clamp(v int64) int64 {
	if v < 1 {
		return 1
	}
	if v > c18Max {
		return c18Max
	}
	return v
}

// genSeq derives sequence scenario i from the seed.
func (k *c18) genSeq(i int) *c18Scn {
	r := k.c.Rng(core.StrID("seq"), uint64(i))
	pool := c18Pool(r, 5)
	nS := 1 + r.Intn(4)
	sc := &c18Scn{init: gtidmodel.IvSet56{}, way: r.Intn(3), chainSeed: uint64(r.Intn(6)), origin: "random"}
	sc.probeSIDs = pool // the fifth is never added: probes a SID that is absent
	mode := r.Intn(5)
	if r.Chance(1, 10) {
		mode = 5 // dozens of intervals under one server (where a search may replace a scan)
	}
	var base int64 = 1
	width := 4 + r.Intn(9)
	switch mode {
	case 5:
		k.cell("window:many-intervals")
	case 0:
		k.cell("window:dense-at-1")
	case 1:
		base = c18Clamp(int64(r.U64()>>uint(2+r.Intn(60))) + 1)
		if base > c18Max-20 {
			base = c18Max - 20
		}
		k.cell("window:dense-far")
	default:
		k.cell("window:wide")
	}
	if mode <= 1 {
		sc.dense = true
		sc.lo, sc.hi = c18Clamp(base-2), base+int64(width)+1
		for s := 0; s < nS; s++ {
			if r.Chance(1, 6) {
				continue
			}
			mask := r.U64()
			if r.Chance(1, 3) {
				mask &= r.U64() // sparser
			}
			for b := 0; b < width; b++ {
				if mask>>uint(b)&1 == 1 {
					sc.init = sc.init.AddInterval(pool[s], base+int64(b), base+int64(b))
				}
			}
		}
	} else if mode == 5 {
		for s := 0; s < nS; s++ {
			pos := c18Clamp(int64(r.U64()>>uint(34+r.Intn(28))) + 1)
			for j, nj := 0, 33+r.Intn(100); j < nj; j++ {
				start := pos + 2 + int64(r.Intn(3))
				end := start + int64(r.Intn(3))
				sc.init = sc.init.AddInterval(pool[s], start, end)
				pos = end
			}
		}
	} else {
		for s := 0; s < nS; s++ {
			for j, nj := 0, r.Intn(4); j < nj; j++ {
				start := c18Clamp(int64(r.U64()>>uint(2+r.Intn(61))) + 1)
				var length int64
				switch r.Intn(3) {
				case 0:
					length = 0
				case 1:
					length = int64(r.Intn(8))
				default:
					length = int64(r.U64() >> uint(2+r.Intn(61)))
				}
				end := start + length
				if end > c18Max || end < start {
					end = c18Max
				}
				sc.init = sc.init.AddInterval(pool[s], start, end)
			}
		}
	}
	// adds: chosen against the evolving model so that adjacency is frequent
	models := []gtidmodel.IvSet56{sc.init}
	nOps := 1 + r.Intn(12)
	for o := 0; o < nOps; o++ {
		from := -1
		cur := models[len(models)-1]
		if len(models) > 1 && r.Chance(1, 4) {
			from = r.Intn(len(models))
			cur = models[from]
		}
		sid := pool[r.Intn(nS)]
		var n int64
		if sc.dense {
			n = c18Clamp(base - 1 + int64(r.Intn(width+2)))
		} else {
			ivs := cur[sid]
			if len(ivs) > 0 && !r.Chance(1, 5) {
				iv := ivs[r.Intn(len(ivs))]
				cands := [...]int64{iv.Start - 2, iv.Start - 1, iv.Start, iv.Start + 1, iv.End - 1, iv.End, iv.End + 1, iv.End + 2}
				n = c18Clamp(cands[r.Intn(len(cands))])
			} else {
				n = c18Clamp(int64(r.U64()>>uint(2+r.Intn(61))) + 1)
			}
		}
		sc.ops = append(sc.ops, c18Op{sid, n, from})
		models = append(models, cur.Add(sid, n))
	}
	return sc
}

func (sc *c18Scn) hash() uint64 {
	h := core.HashAdd(0, []byte(sc.init.String()))
	h = core.HashU64(h, uint64(sc.way)<<8|sc.chainSeed)
	for _, o := range sc.ops {
		h = core.HashAdd(h, o.SID[:])
		h = core.HashU64(h, uint64(o.N))
		h = core.HashU64(h, uint64(int64(o.From)))
	}
	return h
}

// ---------------------------------------------------------------- entry

func runC18(c *core.Ctx) {
	k := &c18{c: c, cells: map[string]int64{}}
	defer k.flush()
	c.SetRule("Sets are obtained only from canonical input (SID block written by the model; canonical text through the registered MySQL56 parser) " +
		"and by AddGTID (chains from Mysql56GTIDSet{} and adds on obtained sets). After every operation: String() and SIDBlock() equal the model's canonical " +
		"rendering, ContainsGTID over the probe window (dense windows: every (sid,n) in window±2 for all pool SIDs and one absent SID; wide: every interval " +
		"endpoint ±1 and the added number ±2), Contains/Equal of the new set against every set of the sequence in both directions and against the same set " +
		"rebuilt from canonical input, and String()/SIDBlock() of every previously obtained set unchanged. Exhaustive part: a case is (set a, construction, " +
		"set b, construction) for Contains/Equal, expected answers from bit masks, or (set, construction, sid, n) for a single add; non-trivial iff the sets " +
		"involved are non-empty. Random part: a case is a sequence (initial set, construction, <=12 adds, each on the latest or an earlier set of the sequence), " +
		"identified by the hash of its description; non-trivial iff at least one add extends or bridges existing intervals.")
	c.Assume("Go standard library; the canonical text form and SID block layout of rpl_gtid_set.cc as restated in DESIGN Appendix A; " +
		"the models in verifharness/model/gtidmodel (two independent 5.6 models cross-checked on the exhaustive windows)")

	if c.Replay != "" {
		k.replay()
		return
	}

	sidA := gtidmodel.SID{0x00, 0xff, 0x10, 0x20, 0x30, 0x40, 0x50, 0x60, 0x70, 0x80, 0x90, 0xa0, 0xb0, 0xc0, 0xd0, 0xe0}
	sidB := gtidmodel.SID{0x01, 0x00, 0x10, 0x20, 0x30, 0x40, 0x50, 0x60, 0x70, 0x80, 0x90, 0xa0, 0xb0, 0xc0, 0xd0, 0xe0}
	sidC := gtidmodel.SID{0x00, 0xff, 0x10, 0x20, 0x30, 0x40, 0x50, 0x60, 0x70, 0x80, 0x90, 0xa0, 0xb0, 0xc0, 0xd0, 0xe1}
	k.window("exhaustive-1sid-window8", []gtidmodel.SID{sidA}, 8, []gtidmodel.SID{sidA}, 9)
	c.ExhaustiveDomain("1 SID, all 2^8 subsets of numbers 1..8, each obtained 3 ways (SID block, parser, AddGTID chain): every AddGTID of n in 1..9 (duplicates included) and all 256^2 ordered pairs x 3x3 constructions for Contains/Equal")
	k.window("exhaustive-2sid-window4", []gtidmodel.SID{sidA, sidB}, 4, []gtidmodel.SID{sidA, sidB, sidC}, 5)
	c.ExhaustiveDomain("2 SIDs, all 2^8 sets with numbers 1..4 per SID, each obtained 3 ways: all 256^2 ordered pairs x 3x3 constructions for Contains/Equal and every AddGTID of (sidA|sidB|a third SID sorting between them, n in 1..5)")
	k.flush()

	n := c.N(20000, 1000000)
	var ran int64
	for i := 0; i < n; i++ {
		if !c.Mine(i) {
			continue
		}
		sc := k.genSeq(i)
		nt := k.runSeq(sc)
		ran++
		c.Case(sc.hash(), nt)
		if i < 64 && c.WantSample() && len(sc.ops) >= 3 {
			c.Sample(sc.witness(nil))
		}
		if i&1023 == 0 {
			k.flush()
		}
	}
	c.Note("random_sequences", ran)
}

// ---------------------------------------------------------------- replay

func (k *c18) replay() {
	c := k.c
	b, err := os.ReadFile(c.Replay)
	if err != nil {
		c.Inconclusive("cannot read replay file: " + err.Error())
		return
	}
	var f struct {
		Witness c18Wit `json:"witness"`
	}
	if err := json.Unmarshal(b, &f); err != nil {
		c.Inconclusive("bad replay file: " + err.Error())
		return
	}
	w := f.Witness
	parse := func(text string) (gtidmodel.IvSet56, bool) {
		es, err := gtidmodel.ParseText56(text)
		if err != nil || !gtidmodel.IsCanonical(es) {
			c.Inconclusive(fmt.Sprintf("replay: set %q is not canonical text (%v)", text, err))
			return nil, false
		}
		return gtidmodel.FromEntries(es), true
	}
	switch w.Kind {
	case "pair":
		ma, ok1 := parse(w.A)
		mb, ok2 := parse(w.B)
		if !ok1 || !ok2 {
			return
		}
		wit := func(detail interface{}) interface{} { ww := w; ww.Detail = detail; return &ww }
		A := k.obtain(ma, w.WayA, w.ChainA, wit)
		B := k.obtain(mb, w.WayB, w.ChainB, wit)
		if A != nil && B != nil {
			k.pair(A, B, ma.Contains(mb), ma.Equal(mb), wit)
		}
		c.Case(core.Hash64([]byte(w.A+"|"+w.B)), true)
	case "seq":
		m, ok := parse(w.Init)
		if !ok {
			return
		}
		sc := &c18Scn{init: m, way: w.Way, chainSeed: w.ChainSeed, dense: w.Dense, lo: w.Lo, hi: w.Hi, origin: w.Origin}
		for _, o := range w.Ops {
			sid, err := gtidmodel.ParseSID(o.SID)
			if err != nil {
				c.Inconclusive("replay: " + err.Error())
				return
			}
			sc.ops = append(sc.ops, c18Op{sid, o.N, o.From})
		}
		for _, s := range w.ProbeSIDs {
			sid, err := gtidmodel.ParseSID(s)
			if err != nil {
				c.Inconclusive("replay: " + err.Error())
				return
			}
			sc.probeSIDs = append(sc.probeSIDs, sid)
		}
		nt := k.runSeq(sc)
		c.Case(sc.hash(), nt)
	default:
		c.Inconclusive("replay: unknown witness kind " + w.Kind)
	}
}
