package checks

import (
	"fmt"
	"strings"
	"time"

	"verifharness/core"
	"verifharness/hist"
	"verifharness/run"
	"verifharness/sim"
)

// C06: the reason a stream ended is always reported. The statement is a set
// of implications and the oracle checks exactly those (DESIGN §5 C06).
func init() { core.Register("C06", checkC06) }

func randPrintable(r *core.Rng) string {
	n := 1 + r.Intn(60)
	alphabet := []rune("abcdefghijklmnopqrstuvwxyzABCDEFGHIJKLMNOPQRSTUVWXYZ0123456789 _-.,:;()[]{}<>/\\'\"!?%&*+=~|^$@éüßñçøλжю日本語中文한국어✓€")
	var sb strings.Builder
	for i := 0; i < n; i++ {
		sb.WriteRune(alphabet[r.Intn(len(alphabet))])
	}
	s := sb.String()
	if s[0] == '#' {
		s = "x" + s
	}
	s += fmt.Sprintf(" <%d>", r.Intn(1000000))
	if r.Chance(1, 5) {
		// texts that look like the library's or the runtime's own conditions
		s += []string{": context canceled", "rpc error: code = Canceled desc = context canceled", ": context deadline exceeded", ": EOF", " stream reached EOF", ": invalid connection"}[r.Intn(6)]
	}
	return s
}

func checkC06(c *core.Ctx) {
	c.SetRule("the C05 scenario family (every packet index x stop kinds x pacing x handler speed, cancels, handler/mapper failures, pre-connection failures, read error), one pass per cell, plus ERR packets with arbitrary code (1..65535) and printable/UTF-8 message with and without the #sqlstate marker at random stop points in both pacings; Error() is called immediately after Stream returns in half of the runs and after quiescence in the other half, before any harness-side cancel in two thirds of the runs, right after a caller-side cancel in the others; plus attempts under a context with a near deadline in which the master ends the stream before the deadline and Error() is asked after it has passed; distinct by (history, spec); non-trivial iff the scripted stop was reached")
	c.Assume("only the implications of the statement are demanded: parser-side failure => Stream != nil; Stream == nil and Error() == nil => cancellation or EOF; Stream == nil after ERR => Error() carries the message")
	nh := c.N(6, 60)
	if c.Replay != "" {
		var w struct {
			Witness struct {
				Scenario stopScn `json:"scenario"`
			} `json:"witness"`
		}
		if err := readWitness(c.Replay, &w); err != nil {
			c.Inconclusive("cannot read witness: " + err.Error())
			return
		}
		var m struct {
			Witness struct {
				Scenario struct {
					Mode string `json:"mode"`
					Hist int    `json:"hist"`
					K    int    `json:"k"`
				} `json:"scenario"`
			} `json:"witness"`
		}
		_ = readWitness(c.Replay, &m)
		if m.Witness.Scenario.Mode == "deadline-after-the-end" {
			h, tables := stopHistory(c, m.Witness.Scenario.Hist)
			c06Deadline(c, m.Witness.Scenario.Hist, m.Witness.Scenario.K, h, h.Build(), tables)
			return
		}
		scn := w.Witness.Scenario
		h, tables := stopHistory(c, scn.Hist)
		c06Run(c, scn, h, h.Build(), tables)
		return
	}
	n := 0
	for hidx := 0; hidx < nh; hidx++ {
		h, tables := stopHistory(c, hidx)
		l := h.Build()
		start := hist.Pos{File: h.FirstFile, Off: 4}
		exp := hist.Expect(h, l, start)
		plan := len(sim.Plan(l, start))
		for _, scn := range stopScenarios(c, hidx, plan, len(exp), 1) {
			n++
			if !c.Mine(n) {
				continue
			}
			c06Run(c, scn, h, l, tables)
		}
		for k := 0; k < c.N(12, 60); k++ {
			n++
			if c.Mine(n) {
				c06Deadline(c, hidx, k, h, l, tables)
			}
		}
		// arbitrary ERR packets
		r := c.Rng(core.StrID("c06err"), uint64(hidx))
		nerr := c.N(1500, 30000) / nh
		for i := 0; i < nerr; i++ {
			f := faultSpec{Kind: "err", At: r.Intn(plan + 1), Lock: r.Bool(), Code: uint16(1 + r.Intn(65535)), Msg: randPrintable(r)}
			if r.Bool() {
				f.State = []string{"HY000", "08S01", "42000", "23000"}[r.Intn(4)]
			}
			n++
			if !c.Mine(n) {
				continue
			}
			c06Run(c, stopScn{Hist: hidx, Spec: f, Rep: i, Wrapped: i%4 != 0}, h, l, tables)
		}
	}
}

// c06Deadline: the attempt runs under a context with a near deadline; the
// master ends the stream (ERR packet or lost connection) before the deadline;
// the caller asks Error() only after the deadline has passed. The reason the
// stream ended is what it was when it ended.
func c06Deadline(c *core.Ctx, hidx, k int, h *hist.History, l *hist.Layout, tables []*hist.Table) {
	start := hist.Pos{File: h.FirstFile, Off: 4}
	r := c.Rng(core.StrID("c06deadline"), uint64(hidx), uint64(k))
	plan := sim.Plan(l, start)
	at := r.Intn(len(plan) + 1)
	kind := []string{"err", "fin", "rst"}[k%3]
	msg := randPrintable(r)
	s, err := run.NewSession(l, tables, 607, start, true)
	if err != nil {
		c.Inconclusive("cannot start master: " + err.Error())
		return
	}
	defer s.Close()
	for _, g := range run.LibGoroutines(nil) {
		s.Abandon(g.ID)
	}
	f := sim.Fault{}
	switch kind {
	case "err":
		f.Kind, f.Code, f.Msg, f.State = sim.FErr, uint16(1+r.Intn(65535)), msg, "HY000"
	case "fin":
		f.Kind = sim.FClose
	default:
		f.Kind = sim.FReset
	}
	s.M.SetScripts(&sim.Script{End: sim.EndEOF, Faults: map[int]sim.Fault{at: f}})
	hs := run.NoFaults()
	hs.DeadlineIn = 150 * time.Millisecond
	res := s.Attempt(hs, nil, maxWait)
	scn := map[string]interface{}{"mode": "deadline-after-the-end", "hist": hidx, "k": k, "kind": kind, "at": at}
	if res.Verdict != run.Returned {
		c.Cell("stream-not-returned(reported under C05)")
		return
	}
	if s.Ctx().Err() != nil {
		c.Cell("deadline:fired-before-the-stream-ended(not judged)")
		return
	}
	<-s.Ctx().Done() // the deadline passes after the stream has ended
	er := s.CallError(maxWait)
	c.Case(core.HashAdd(layoutHash(l), []byte(fmt.Sprint("deadline", kind, at))), true)
	c.Cell("deadline-passed-between-end-and-Error()")
	if er.Verdict != run.Returned {
		c.Cell("error-call-blocked(reported under C05)")
		return
	}
	if res.Err == nil && er.Err == nil {
		c.Violation("c06:clean-end-after-deadline:"+kind, fmt.Sprintf("the master ended the stream by %s at packet %d before the context's deadline; Error(), asked after the deadline had passed, reports a clean end", kind, at), witnessOf(scn, h, s, nil))
		return
	}
	if res.Err == nil && kind == "err" && !strings.Contains(er.Err.Error(), msg) {
		c.Violation("c06:err-message-lost-after-deadline", fmt.Sprintf("Error() = %q does not carry the master's message %q", er.Err.Error(), msg), witnessOf(scn, h, s, nil))
	}
}

func c06Run(c *core.Ctx, scn stopScn, h *hist.History, l *hist.Layout, tables []*hist.Table) {
	spec := scn.Spec
	cls := causeClass(spec.Kind)
	c.Log("C06 %+v", scn)
	start := hist.Pos{File: h.FirstFile, Off: 4}
	wrapped := scn.Wrapped || isPreconn(spec.Kind) || spec.Kind == "read-error"
	s, err := run.NewSession(l, tables, 606, start, wrapped)
	if err != nil {
		c.Inconclusive("cannot start master: " + err.Error())
		return
	}
	defer s.Close()
	for _, g := range run.LibGoroutines(nil) {
		s.Abandon(g.ID)
	}
	r := c.Rng(core.StrID("c06run"), uint64(scn.Hist), core.Hash64([]byte(fmt.Sprint(scn.Spec))), uint64(scn.Rep))
	errFirst := (scn.Hist+spec.At+scn.Rep)%2 == 0
	// in a third of the runs the caller cancels its context between Stream's
	// return and its Error() call (a deferred cancel): what ended the stream
	// does not change by that
	lateCancel := (scn.Hist+spec.At+2*scn.Rep)%3 == 1 && !strings.Contains(spec.Kind, "cancel")
	ob := runStop(c, s, l, start, scn, attemptOpts{ErrorCalls: 2, Leftovers: !errFirst, ErrorFirst: errFirst, InlineError: errFirst && !lateCancel, CancelBeforeError: lateCancel}, r)
	res := ob.Res
	c.Case(core.HashAdd(layoutHash(l), []byte(fmt.Sprint(scn.Spec, scn.Rep))), ob.reached())
	if res.Verdict != run.Returned {
		c.Cell("stream-not-returned(reported under C05)")
		return
	}
	if ob.Err1 == nil || ob.Err1.Verdict != run.Returned {
		c.Cell("error-call-blocked(reported under C05)")
		return
	}
	if !ob.reached() {
		c.Cell("not-reached:" + cls)
		return
	}
	c.Cell("cause:" + cls)
	if lateCancel {
		c.Cell("caller-cancels-between-return-and-Error()")
	}
	if errFirst {
		c.Cell("error-call:immediately")
	} else {
		c.Cell("error-call:after-quiescence")
	}
	streamErr, errErr := res.Err, ob.Err1.Err
	outcome := fmt.Sprintf("Stream=%s Error()=%s", errStr(streamErr), errStr(errErr))
	c.Cell(fmt.Sprintf("outcome:%s:stream-nil=%v,error-nil=%v", cls, streamErr == nil, errErr == nil))
	wit := func() map[string]interface{} {
		return witnessOf(scn, h, s, map[string]interface{}{"stream_err": errStr(streamErr), "error_err": errStr(errErr)})
	}
	// An event type the pinned library does not support (RowsQuery, IntVar,
	// Rand) is a failure only for a library that does not support it: if the
	// stream went on and delivered exactly the whole history up to the
	// master's EOF, nothing failed and the attempt is judged as an EOF ending.
	// (likewise a header-only event the library had no reason to decode where
	// it arrived — a ROTATE before the first format description is skipped unread)
	if (cls == "unsupported-event" || strings.HasPrefix(spec.Kind, "inject-hdronly-")) && streamErr == nil && res.Panic == "" {
		if exp := hist.Expect(h, l, start); wholeHistoryDelivered(exp, res.Delivered) {
			c.Cell("injected-event-tolerated(judged as eof):" + spec.Kind)
			cls = "eof"
		}
	}
	// (i) parser-side failures must make Stream fail
	parserSide := false
	switch cls {
	case "gate-reject", "unsupported-event", "undecodable-event":
		parserSide = true
	case "handler":
		for _, d := range res.Delivered {
			if !d.Accepted {
				parserSide = true
			}
		}
	case "mapper":
		parserSide = ob.MapperErr
	}
	if parserSide && streamErr == nil {
		c.Violation("c06:stream-nil-for:"+cls, fmt.Sprintf("%s: the parser met a %s failure but Stream returned nil (%s)", spec, cls, outcome), wit())
		return
	}
	// (ii) a clean (nil, nil) outcome is only allowed for cancellation and EOF
	if streamErr == nil && errErr == nil {
		switch cls {
		case "cancel", "eof":
		default:
			if lateCancel {
				c.Violation("c06:clean-end-after-late-cancel:"+cls, fmt.Sprintf("%s: stream ended by %s, Stream returned nil, the caller then cancelled its context and Error() reports a clean end", spec, cls), wit())
				return
			}
			c.Violation("c06:clean-end-for:"+cls, fmt.Sprintf("%s: stream ended by %s yet Stream and Error() both returned nil", spec, cls), wit())
			return
		}
	}
	// (iii) the master's message must be carried
	if streamErr == nil && cls == "master-err" && errErr != nil {
		if !strings.Contains(errErr.Error(), spec.Msg) {
			c.Violation("c06:err-message-lost", fmt.Sprintf("%s: Error() = %q does not carry the master's message %q", spec, errErr.Error(), spec.Msg), wit())
			return
		}
		c.Cell("err-message-carried")
	}
	// (iv) asked again, Error() must not turn a reported failure into a clean end
	if streamErr == nil && errErr != nil && ob.Err2 != nil && ob.Err2.Verdict == run.Returned && ob.Err2.Err == nil && !lateCancel {
		switch cls {
		case "master-err", "transport":
			c.Violation("c06:second-error-call-forgets:"+cls, fmt.Sprintf("%s: stream ended by %s, Stream returned nil, the first Error() reported %q, the second Error() reports a clean end", spec, cls, errErr.Error()), wit())
			return
		}
	}
	if c.WantSample() {
		c.Sample(map[string]interface{}{"scenario": scn, "stream": errStr(streamErr), "error": errStr(errErr)})
	}
}

// wholeHistoryDelivered: one delivery per expected transaction, ending where
// the model says (contents are C01's business, not C06's).
func wholeHistoryDelivered(exp []hist.ExpTx, got []*run.Delivered) bool {
	if len(exp) != len(got) {
		return false
	}
	for i := range exp {
		if got[i].Next != exp[i].Next {
			return false
		}
	}
	return true
}
