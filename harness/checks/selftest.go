package checks

import "verifharness/core"

// SELF is a framework self-test (not a property): it exercises accounting,
// sharding and the result path.
func init() {
	core.Register("SELF", func(c *core.Ctx) {
		c.SetRule("framework self-test: integers 0..99, non-trivial iff odd")
		for i := 0; i < 100; i++ {
			if !c.Mine(i) {
				continue
			}
			c.Case(core.HashU64(0, uint64(i)), i%2 == 1)
			c.Cell("seen")
			if c.WantSample() {
				c.Sample(map[string]int{"i": i})
			}
		}
		if c.Replay != "" || c.Seed == 424242 {
			c.Violation("selftest-key", "selftest violation", map[string]int{"x": 1})
		}
	})
}
