//go:build verif

package checks

// C19 "GTIDs survive every encoding; MariaDB sets keep one position per domain".
//
// Round trips go through the library's own printers and parsers and are judged
// both by the library's Equal and by an independent reading (struct comparison,
// the model's SID-block decoder). GTID / PREVIOUS_GTIDS events are built by the
// encoder in this file (event header and bodies as in DESIGN Appendix A).
// MariaDB sets run next to gtidmodel.MariaSet; every set ever obtained in a
// scenario is deep-snapshotted and re-compared after every AddGTID.

import (
	"bytes"
	"encoding/binary"
	"encoding/hex"
	"encoding/json"
	"fmt"
	"hash/crc32"
	"math"
	"os"

	"github.com/Breeze0806/gobinlog/replication"

	"verifharness/core"
	"verifharness/model/gtidmodel"
)

func init() { core.Register("C19", runC19) }

type c19G56 struct {
	SID string `json:"sid"`
	Seq int64  `json:"seq"`
}

type c19Set56 struct {
	Text      string `json:"text"` // canonical text of the set ("" = empty)
	Way       int    `json:"way"`  // as in C18: 0 sidblock, 1 parser, 2 addchain
	ChainSeed uint64 `json:"chain_seed"`
}

type c19ChainOp struct {
	From int                 `json:"from"` // index of the receiver among the sets obtained so far, -1 = latest
	G    gtidmodel.MariaGTID `json:"g"`
}

type c19Chain struct {
	Start []gtidmodel.MariaGTID `json:"start"`
	Via   string                `json:"via"` // nil | literal | parser | gtidset
	Ops   []c19ChainOp          `json:"ops"`
}

type c19Event struct {
	Flavor    string `json:"flavor"` // MySQL56 | MariaDB
	What      string `json:"what"`   // gtid | previous
	Timestamp uint32 `json:"timestamp"`
	ServerID  uint32 `json:"server_id"`
	NextPos   uint32 `json:"next_pos"`
	HFlags    uint16 `json:"header_flags"`
	CRC       bool   `json:"crc"`
	// MySQL 5.6 GTID
	SID           string `json:"sid,omitempty"`
	Gno           int64  `json:"gno,omitempty"`
	GFlags        byte   `json:"gtid_flags,omitempty"`
	Tail57        bool   `json:"tail57,omitempty"`
	Tail80        string `json:"tail80,omitempty"` // hex of what a MySQL 8.0 master appends after the 5.7 fields (commit timestamps, transaction length, server versions)
	LastCommitted int64  `json:"last_committed,omitempty"`
	SeqNo         int64  `json:"sequence_number,omitempty"`
	// PREVIOUS_GTIDS
	Set string `json:"set,omitempty"`
	// MariaDB GTID
	MSeq     uint64 `json:"mseq,omitempty"`
	Domain   uint32 `json:"domain,omitempty"`
	Flags2   byte   `json:"flags2,omitempty"`
	CommitID uint64 `json:"commit_id,omitempty"`
}

// c19Case is one case in replayable form.
type c19Case struct {
	Kind   string                `json:"kind"`
	Index  int                   `json:"index"`
	G56    *c19G56               `json:"g56,omitempty"`
	GM     *gtidmodel.MariaGTID  `json:"gm,omitempty"`
	Set56  *c19Set56             `json:"set56,omitempty"`
	MSet   []gtidmodel.MariaGTID `json:"mset,omitempty"`
	MVia   string                `json:"mset_via,omitempty"` // literal | chain
	Chain  *c19Chain             `json:"chain,omitempty"`
	Ev     *c19Event             `json:"event,omitempty"`
	Detail interface{}           `json:"detail,omitempty"`
}

type c19 struct {
	c     *core.Ctx
	k18   *c18
	cells map[string]int64
}

func (k *c19) cell(n string) { k.cells[n]++ }

func (k *c19) flush() {
	for n, v := range k.cells {
		k.c.CellN(n, v)
	}
	k.cells = map[string]int64{}
}

func (k *c19) vio(cs *c19Case, key, msg string, detail interface{}) {
	var w interface{}
	if k.c.KeyCount(key) == 0 {
		cp := *cs
		cp.Detail = detail
		w = &cp
	}
	k.c.Violation(key, msg, w)
}

// ---------------------------------------------------------------- single GTIDs

func (k *c19) roundTripGTID(cs *c19Case, flavor string, g replication.GTID) {
	var text, enc string
	var p1, p2 replication.GTID
	var e1, e2 error
	if p := core.Guard(func() {
		text = g.String()
		p1, e1 = replication.ParseGTID(flavor, text)
		enc = replication.EncodeGTID(g)
		p2, e2 = replication.DecodeGTID(enc)
	}); p != "" {
		k.vio(cs, "gtid-panic", "GTID round trip panicked: "+c18FirstLine(p), map[string]string{"panic": p})
		return
	}
	if e1 != nil || p1 != g {
		k.vio(cs, "gtid-roundtrip-text:"+flavor, fmt.Sprintf("ParseGTID(%q, %q) = %v, %v; want %v", flavor, text, p1, e1, g),
			map[string]string{"text": text, "got": fmt.Sprintf("%#v", p1), "err": fmt.Sprint(e1)})
	}
	if e2 != nil || p2 != g {
		k.vio(cs, "gtid-roundtrip-encoded:"+flavor, fmt.Sprintf("DecodeGTID(%q) = %v, %v; want %v", enc, p2, e2, g),
			map[string]string{"encoded": enc, "got": fmt.Sprintf("%#v", p2), "err": fmt.Sprint(e2)})
	}
}

func (k *c19) runG56(cs *c19Case) {
	sid, err := gtidmodel.ParseSID(cs.G56.SID)
	if err != nil {
		k.c.Inconclusive("C19: bad case: " + err.Error())
		return
	}
	k.roundTripGTID(cs, "MySQL56", replication.Mysql56GTID{Server: replication.SID(sid), Sequence: cs.G56.Seq})
}

func (k *c19) runGM(cs *c19Case) {
	k.roundTripGTID(cs, "MariaDB", replication.MariadbGTID{Domain: cs.GM.Domain, Server: cs.GM.Server, Sequence: cs.GM.Seq})
}

// ---------------------------------------------------------------- MySQL 5.6 sets

// denotes reads a library 5.6 set independently (through the model's SID-block
// decoder) and says whether it denotes m.
func c19Denotes(l replication.Mysql56GTIDSet, m gtidmodel.IvSet56) (bool, string) {
	var blk []byte
	if p := core.Guard(func() { blk = l.SIDBlock() }); p != "" {
		return false, "SIDBlock panicked: " + c18FirstLine(p)
	}
	es, err := gtidmodel.DecodeSIDBlock(blk)
	if err != nil {
		return false, "SIDBlock() unreadable: " + err.Error()
	}
	got := gtidmodel.FromEntries(es)
	if !got.Equal(m) {
		return false, "denotes " + c18Short(got.String())
	}
	return true, ""
}

func (k *c19) runSet56(cs *c19Case) {
	es, err := gtidmodel.ParseText56(cs.Set56.Text)
	if err != nil || !gtidmodel.IsCanonical(es) {
		k.c.Inconclusive(fmt.Sprintf("C19: bad case: set %q not canonical (%v)", cs.Set56.Text, err))
		return
	}
	m := gtidmodel.FromEntries(es)
	s, errs := k.k18.build(m, cs.Set56.Way, cs.Set56.ChainSeed)
	if errs != "" {
		key := "gtid56-create-error:" + c18WayNames[cs.Set56.Way]
		if len(errs) > 5 && errs[:5] == "PANIC" {
			key = "gtid56-panic"
		}
		k.vio(cs, key, "set "+c18Short(cs.Set56.Text)+" could not be built: "+c18FirstLine(errs), map[string]string{"error": errs})
		return
	}
	if ok, why := c19Denotes(s, m); !ok {
		k.vio(cs, "gtid56-built-set-wrong", "set built via "+c18WayNames[cs.Set56.Way]+" from "+c18Short(cs.Set56.Text)+" "+why, map[string]string{"why": why})
		return
	}
	// binary SID-block form
	var blk []byte
	var s2 replication.Mysql56GTIDSet
	var e2 error
	var eq1, eq2 bool
	if p := core.Guard(func() {
		blk = s.SIDBlock()
		s2, e2 = replication.NewMysql56GTIDSetFromSIDBlock(blk)
		if e2 == nil {
			eq1, eq2 = s2.Equal(s), s.Equal(s2)
		}
	}); p != "" {
		k.vio(cs, "gtid56-panic", "SID block round trip panicked: "+c18FirstLine(p), map[string]string{"panic": p})
		return
	}
	// a block handed out earlier must not change when another set is serialised
	if c19HeldBlk.orig != nil && !bytes.Equal(c19HeldBlk.orig, c19HeldBlk.copy) {
		k.vio(cs, "gtid56-sidblock-changed-by-later-call", fmt.Sprintf("the SID block returned for {%s} changed when the block of {%s} was built", c18Short(c19HeldBlk.text), c18Short(cs.Set56.Text)),
			map[string]string{"before": fmt.Sprintf("%x", c19HeldBlk.copy), "after": fmt.Sprintf("%x", c19HeldBlk.orig)})
	}
	if len(blk) > 8 {
		c19HeldBlk.orig, c19HeldBlk.copy, c19HeldBlk.text = blk, append([]byte(nil), blk...), cs.Set56.Text
	}
	switch {
	case e2 != nil:
		k.vio(cs, "gtid56-sidblock-roundtrip", fmt.Sprintf("NewMysql56GTIDSetFromSIDBlock(SIDBlock()) of {%s}: %v", c18Short(cs.Set56.Text), e2),
			map[string]string{"sidblock": fmt.Sprintf("%x", blk), "err": e2.Error()})
	case !eq1 || !eq2:
		k.vio(cs, "gtid56-sidblock-roundtrip", fmt.Sprintf("SID block round trip of {%s} gives {%s}: Equal=%v/%v", c18Short(cs.Set56.Text), c18Short(s2.String()), eq1, eq2),
			map[string]string{"sidblock": fmt.Sprintf("%x", blk), "decoded": s2.String()})
	default:
		if ok, why := c19Denotes(s2, m); !ok {
			k.vio(cs, "gtid56-sidblock-roundtrip", fmt.Sprintf("SID block round trip of {%s} %s although Equal says true", c18Short(cs.Set56.Text), why),
				map[string]string{"sidblock": fmt.Sprintf("%x", blk), "why": why})
		}
	}
	if len(m) == 0 {
		k.cell("set56:empty")
		return // the text form is only stated for non-empty sets
	}
	// text through the flavor's parser
	var text string
	var ps replication.GTIDSet
	var e3 error
	if p := core.Guard(func() {
		text = s.String()
		ps, e3 = replication.VerifParseGTIDSet("MySQL56", text)
		if e3 == nil && ps != nil {
			eq1, eq2 = ps.Equal(s), s.Equal(ps)
		}
	}); p != "" {
		k.vio(cs, "gtid56-panic", "text round trip panicked: "+c18FirstLine(p), map[string]string{"panic": p})
		return
	}
	p56, isType := ps.(replication.Mysql56GTIDSet)
	switch {
	case e3 != nil || !isType:
		k.vio(cs, "gtidset-roundtrip-text:MySQL56", fmt.Sprintf("parser(%q) = %T, %v", c18Short(text), ps, e3), map[string]string{"text": text, "err": fmt.Sprint(e3)})
	case !eq1 || !eq2:
		k.vio(cs, "gtidset-roundtrip-text:MySQL56", fmt.Sprintf("parser(String()) of {%s} gives {%s}: Equal=%v/%v", c18Short(text), c18Short(p56.String()), eq1, eq2),
			map[string]string{"text": text, "parsed": p56.String()})
	default:
		if ok, why := c19Denotes(p56, m); !ok {
			k.vio(cs, "gtidset-roundtrip-text:MySQL56", fmt.Sprintf("parser(String()) of {%s} %s although Equal says true", c18Short(text), why),
				map[string]string{"text": text, "why": why})
		}
	}
	k.cell(fmt.Sprintf("set56:intervals=%d", m.NumIntervals()))
	k.cell("set56:via-" + c18WayNames[cs.Set56.Way])
}

// ---------------------------------------------------------------- MariaDB sets

func c19ToLib(l []gtidmodel.MariaGTID) replication.MariadbGTIDSet {
	out := make(replication.MariadbGTIDSet, len(l))
	for i, g := range l {
		out[i] = replication.MariadbGTID{Domain: g.Domain, Server: g.Server, Sequence: g.Seq}
	}
	return out
}

func c19FromLib(l replication.MariadbGTIDSet) []gtidmodel.MariaGTID {
	out := make([]gtidmodel.MariaGTID, len(l))
	for i, g := range l {
		out[i] = gtidmodel.MariaGTID{Domain: g.Domain, Server: g.Server, Seq: g.Sequence}
	}
	return out
}

func c19SameList(a, b []gtidmodel.MariaGTID) bool {
	if len(a) != len(b) {
		return false
	}
	for i := range a {
		if a[i] != b[i] {
			return false
		}
	}
	return true
}

func c19LibGTID(g gtidmodel.MariaGTID) replication.MariadbGTID {
	return replication.MariadbGTID{Domain: g.Domain, Server: g.Server, Sequence: g.Seq}
}

// runMSet: text round trip of a non-empty MariaDB set.
func (k *c19) runMSet(cs *c19Case) {
	if _, ok := gtidmodel.MariaFromList(cs.MSet); !ok || len(cs.MSet) == 0 {
		k.c.Inconclusive("C19: bad case: MariaDB set with repeated domain or empty")
		return
	}
	var s replication.MariadbGTIDSet
	if cs.MVia == "chain" {
		var cur replication.GTIDSet = replication.MariadbGTIDSet(nil)
		if p := core.Guard(func() {
			for _, g := range cs.MSet {
				cur = cur.AddGTID(c19LibGTID(g))
			}
		}); p != "" {
			k.vio(cs, "mariadb-panic", "AddGTID chain panicked: "+c18FirstLine(p), map[string]string{"panic": p})
			return
		}
		var ok bool
		if s, ok = cur.(replication.MariadbGTIDSet); !ok {
			k.vio(cs, "mariadb-addgtid-wrong-type", fmt.Sprintf("AddGTID returned %T", cur), nil)
			return
		}
		if got := c19FromLib(s); !c19SameMembers(got, cs.MSet) {
			k.vio(cs, "mariadb-add-wrong-result", fmt.Sprintf("adding %v to the empty set gives %v", cs.MSet, got), map[string]interface{}{"got": got})
			return
		}
	} else {
		s = c19ToLib(cs.MSet)
	}
	before := c19FromLib(s)
	var text string
	var ps replication.GTIDSet
	var err error
	var eq1, eq2 bool
	if p := core.Guard(func() {
		text = s.String()
		ps, err = replication.VerifParseGTIDSet("MariaDB", text)
		if err == nil && ps != nil {
			eq1, eq2 = ps.Equal(s), s.Equal(ps)
		}
	}); p != "" {
		k.vio(cs, "mariadb-panic", "text round trip panicked: "+c18FirstLine(p), map[string]string{"panic": p})
		return
	}
	pm, isType := ps.(replication.MariadbGTIDSet)
	switch {
	case err != nil || !isType:
		k.vio(cs, "gtidset-roundtrip-text:MariaDB", fmt.Sprintf("parser(%q) = %T, %v", c18Short(text), ps, err), map[string]string{"text": text, "err": fmt.Sprint(err)})
	case !eq1 || !eq2:
		k.vio(cs, "gtidset-roundtrip-text:MariaDB", fmt.Sprintf("parser(String()) of {%s} gives {%s}: Equal=%v/%v", c18Short(text), c18Short(pm.String()), eq1, eq2),
			map[string]string{"text": text, "parsed": pm.String()})
	case !c19SameMembers(c19FromLib(pm), before):
		k.vio(cs, "gtidset-roundtrip-text:MariaDB", fmt.Sprintf("parser(String()) of {%s} has members %v although Equal says true", c18Short(text), c19FromLib(pm)),
			map[string]interface{}{"text": text, "parsed": c19FromLib(pm)})
	}
	k.cell(fmt.Sprintf("mset-text:members=%d", len(cs.MSet)))
}

// c19SameMembers compares two member lists as sets of members.
func c19SameMembers(a, b []gtidmodel.MariaGTID) bool {
	if len(a) != len(b) {
		return false
	}
	seen := make(map[gtidmodel.MariaGTID]int, len(a))
	for _, g := range a {
		seen[g]++
	}
	for _, g := range b {
		if seen[g] == 0 {
			return false
		}
		seen[g]--
	}
	return true
}

// c19MS is one obtained MariaDB set with its model and deep snapshot.
type c19MS struct {
	l    replication.MariadbGTIDSet
	m    gtidmodel.MariaSet
	snap []gtidmodel.MariaGTID
	str  string
}

func (k *c19) newMS(l replication.MariadbGTIDSet) (*c19MS, bool) {
	e := &c19MS{l: l, snap: c19FromLib(l)}
	if p := core.Guard(func() { e.str = l.String() }); p != "" {
		return nil, false
	}
	m, ok := gtidmodel.MariaFromList(e.snap)
	e.m = m
	return e, ok
}

// runChain: AddGTID chains with the model and the immutability monitor.
func (k *c19) runChain(cs *c19Case) (nontrivial bool) {
	ch := cs.Chain
	var start replication.MariadbGTIDSet
	switch ch.Via {
	case "nil":
		start = nil
	case "literal":
		start = c19ToLib(ch.Start)
	case "gtidset":
		var gs replication.GTIDSet
		if p := core.Guard(func() { gs = c19LibGTID(ch.Start[0]).GTIDSet() }); p != "" {
			k.vio(cs, "mariadb-panic", "GTIDSet() panicked: "+c18FirstLine(p), map[string]string{"panic": p})
			return
		}
		s, ok := gs.(replication.MariadbGTIDSet)
		if !ok || !c19SameList(c19FromLib(s), ch.Start[:1]) {
			k.vio(cs, "mariadb-gtidset-of-gtid", fmt.Sprintf("%v.GTIDSet() = %v", ch.Start[0], gs), nil)
			return
		}
		start = s
	case "parser":
		m, _ := gtidmodel.MariaFromList(ch.Start)
		var gs replication.GTIDSet
		var err error
		if p := core.Guard(func() { gs, err = replication.VerifParseGTIDSet("MariaDB", m.String()) }); p != "" {
			k.vio(cs, "mariadb-panic", "parser panicked: "+c18FirstLine(p), map[string]string{"panic": p})
			return
		}
		s, ok := gs.(replication.MariadbGTIDSet)
		if err != nil || !ok || !c19SameList(c19FromLib(s), ch.Start) {
			k.vio(cs, "mariadb-parse-set", fmt.Sprintf("parser(%q) = %v, %v", m.String(), gs, err), nil)
			return
		}
		start = s
	default:
		k.c.Inconclusive("C19: bad case: via " + ch.Via)
		return
	}
	k.cell("chain:start-" + ch.Via)
	s0, ok := k.newMS(start)
	if !ok {
		k.c.Inconclusive("C19: bad case: start set has a repeated domain")
		return
	}
	sets := []*c19MS{s0}
	usedAsReceiver := map[int]int{}
	for oi, op := range ch.Ops {
		ri := len(sets) - 1
		if op.From >= 0 && op.From < len(sets) {
			ri = op.From
		}
		recv := sets[ri]
		usedAsReceiver[ri]++
		if usedAsReceiver[ri] == 2 {
			k.cell("chain:two-results-from-one-receiver")
		}
		if cap(recv.l) > len(recv.l) {
			k.cell("chain:receiver-has-spare-capacity")
		}
		old, had := recv.m.Get(op.G.Domain)
		switch {
		case !had:
			k.cell("chain:add-new-domain")
		case op.G.Seq > old.Seq:
			k.cell("chain:add-newer")
			nontrivial = true
		case op.G.Seq == old.Seq:
			k.cell("chain:add-same-seq")
		default:
			k.cell("chain:add-older")
		}
		want := recv.m.Add(op.G)
		recvBefore := recv.str
		var res replication.GTIDSet
		if p := core.Guard(func() { res = recv.l.AddGTID(c19LibGTID(op.G)) }); p != "" {
			k.vio(cs, "mariadb-panic", "AddGTID panicked: "+c18FirstLine(p), map[string]interface{}{"op": oi, "panic": p})
			return
		}
		rl, isType := res.(replication.MariadbGTIDSet)
		if !isType {
			k.vio(cs, "mariadb-addgtid-wrong-type", fmt.Sprintf("AddGTID returned %T", res), map[string]interface{}{"op": oi})
			return
		}
		got := c19FromLib(rl)
		// 1. nothing obtained before may have changed
		for ei, e := range sets {
			now := c19FromLib(e.l)
			var nowStr string
			_ = core.Guard(func() { nowStr = e.l.String() })
			if c19SameList(now, e.snap) && nowStr == e.str {
				continue
			}
			detail := map[string]interface{}{"op": oi, "set_index": ei, "receiver_index": ri, "add": op.G.String(),
				"before": e.str, "after": nowStr}
			if e == recv {
				k.vio(cs, "mariadb-addgtid-mutates-receiver",
					fmt.Sprintf("{%s}.AddGTID(%s) changed its receiver to {%s}", c18Short(e.str), op.G, c18Short(nowStr)), detail)
			} else {
				// how: the add replaced a position of the receiver in place and the other set
				// shares that storage, or it appended into capacity the other set also uses
				how := "append"
				if had {
					how = "replace"
				}
				k.vio(cs, "mariadb-addgtid-aliases-sibling:"+how,
					fmt.Sprintf("{%s}.AddGTID(%s) changed another set (#%d of the scenario, receiver #%d) from {%s} to {%s}",
						c18Short(recvBefore), op.G, ei, ri, c18Short(e.str), c18Short(nowStr)), detail)
			}
			// go on from what the library now holds
			ne, ok := k.newMS(e.l)
			if !ok {
				k.vio(cs, "mariadb-two-positions-one-domain:after-aliasing",
					fmt.Sprintf("{%s}.AddGTID(%s) left the earlier set #%d as {%s}", c18Short(recvBefore), op.G, ei, c18Short(nowStr)), detail)
				return
			}
			*e = *ne
		}
		// 2. the result: one position per domain, the receiver's positions plus g
		rm, single := gtidmodel.MariaFromList(got)
		if !single {
			k.vio(cs, "mariadb-two-positions-one-domain", fmt.Sprintf("{%s}.AddGTID(%s) = {%s}", c18Short(recvBefore), op.G, c18Short(rl.String())),
				map[string]interface{}{"op": oi, "got": got})
			return
		}
		okRes := rm.Len() == want.Len()
		if okRes {
			for _, w := range want.List() {
				g, present := rm.Get(w.Domain)
				if !present {
					okRes = false
					break
				}
				if g == w {
					continue
				}
				// equal sequence numbers: either position satisfies the statement
				if w.Domain == op.G.Domain && had && op.G.Seq == old.Seq && g == op.G {
					continue
				}
				okRes = false
				break
			}
		}
		if !okRes {
			k.vio(cs, "mariadb-add-wrong-result", fmt.Sprintf("{%s}.AddGTID(%s) = {%s}, model {%s}", c18Short(recvBefore), op.G, c18Short(rm.String()), c18Short(want.String())),
				map[string]interface{}{"op": oi, "got": got, "want": want.List()})
			return
		}
		r, _ := k.newMS(rl)
		// 3. containment by sequence number within the domain
		doms := map[uint32]bool{op.G.Domain: true, op.G.Domain + 1: true}
		for _, g := range got {
			doms[g.Domain] = true
		}
		for _, g := range ch.Start {
			doms[g.Domain] = true
		}
		for d := range doms {
			cur, has := r.m.Get(d)
			seqs := []uint64{1, math.MaxInt64}
			if has {
				seqs = append(seqs, cur.Seq, cur.Seq+1)
				if cur.Seq > 1 {
					seqs = append(seqs, cur.Seq-1)
				}
			}
			for _, q := range seqs {
				for _, srv := range [...]uint32{cur.Server, cur.Server + 1} {
					pg := gtidmodel.MariaGTID{Domain: d, Server: srv, Seq: q}
					var gotC bool
					if p := core.Guard(func() { gotC = r.l.ContainsGTID(c19LibGTID(pg)) }); p != "" {
						k.vio(cs, "mariadb-panic", "ContainsGTID panicked: "+c18FirstLine(p), map[string]interface{}{"op": oi, "panic": p})
						return
					}
					if wantC := r.m.ContainsGTID(pg); gotC != wantC {
						k.vio(cs, "mariadb-containsgtid-mismatch", fmt.Sprintf("{%s}.ContainsGTID(%s) = %v, model %v", c18Short(r.str), pg, gotC, wantC),
							map[string]interface{}{"op": oi, "set": r.str, "gtid": pg.String(), "got": gotC, "want": wantC})
					}
				}
			}
		}
		// 4. Contains against every set of the scenario, both directions
		for ei, e := range append(sets, r) {
			var c1, c2 bool
			if p := core.Guard(func() { c1, c2 = r.l.Contains(e.l), e.l.Contains(r.l) }); p != "" {
				k.vio(cs, "mariadb-panic", "Contains panicked: "+c18FirstLine(p), map[string]interface{}{"op": oi, "panic": p})
				return
			}
			if w1, w2 := r.m.Contains(e.m), e.m.Contains(r.m); c1 != w1 || c2 != w2 {
				k.vio(cs, "mariadb-contains-mismatch", fmt.Sprintf("{%s} vs {%s}: Contains = %v / reverse %v, model %v / %v", c18Short(r.str), c18Short(e.str), c1, c2, w1, w2),
					map[string]interface{}{"op": oi, "a": r.str, "b": e.str, "set_index": ei})
			}
		}
		sets = append(sets, r)
	}
	// queries must not have changed anything
	for ei, e := range sets {
		if !c19SameList(c19FromLib(e.l), e.snap) {
			k.vio(cs, "mariadb-query-mutates", fmt.Sprintf("set #%d changed by a query", ei), nil)
		}
	}
	return nontrivial
}

// ---------------------------------------------------------------- events (own encoder)

// c19Header writes the 19-byte common header.
func c19Header(ts uint32, typ byte, serverID uint32, eventLen uint32, nextPos uint32, flags uint16) []byte {
	h := make([]byte, 19, int(eventLen)+8)
	binary.LittleEndian.PutUint32(h[0:], ts)
	h[4] = typ
	binary.LittleEndian.PutUint32(h[5:], serverID)
	binary.LittleEndian.PutUint32(h[9:], eventLen)
	binary.LittleEndian.PutUint32(h[13:], nextPos)
	binary.LittleEndian.PutUint16(h[17:], flags)
	return h
}

func c19Event19(e *c19Event, typ byte, body []byte) []byte {
	n := 19 + len(body)
	if e.CRC {
		n += 4
	}
	buf := append(c19Header(e.Timestamp, typ, e.ServerID, uint32(n), e.NextPos, e.HFlags), body...)
	if e.CRC {
		var c [4]byte
		binary.LittleEndian.PutUint32(c[:], crc32.ChecksumIEEE(buf))
		buf = append(buf, c[:]...)
	}
	return buf
}

func c19Format(e *c19Event) replication.BinlogFormat {
	sizes := make([]byte, 170)
	sizes[2-1], sizes[4-1], sizes[15-1], sizes[16-1], sizes[19-1] = 13, 8, 84+40, 0, 8
	sizes[33-1], sizes[34-1], sizes[35-1] = 25, 25, 0
	if e.Tail57 {
		sizes[33-1], sizes[34-1] = 42, 42
	}
	sizes[162-1] = 19
	f := replication.BinlogFormat{FormatVersion: 4, ServerVersion: "5.7.0", HeaderLength: 19, ChecksumAlgorithm: 0, HeaderSizes: sizes}
	if e.Flavor == "MariaDB" {
		f.ServerVersion = "10.1.0-MariaDB"
	}
	if e.CRC {
		f.ChecksumAlgorithm = 1
	}
	return f
}

func (k *c19) runEvent(cs *c19Case) {
	e := cs.Ev
	f := c19Format(e)
	u64 := func(b []byte, v uint64) []byte {
		var x [8]byte
		binary.LittleEndian.PutUint64(x[:], v)
		return append(b, x[:]...)
	}
	key := "event-gtid-decode:" + e.Flavor
	if e.What == "previous" {
		key = "event-previous-gtids-decode"
	}
	var buf []byte
	var ev replication.BinlogEvent
	var sid gtidmodel.SID
	var m gtidmodel.IvSet56
	switch {
	case e.Flavor == "MySQL56" && e.What == "gtid":
		var err error
		if sid, err = gtidmodel.ParseSID(e.SID); err != nil {
			k.c.Inconclusive("C19: bad case: " + err.Error())
			return
		}
		body := append([]byte{e.GFlags}, sid[:]...)
		body = u64(body, uint64(e.Gno))
		if e.Tail57 {
			body = append(body, 2) // LOGICAL_TIMESTAMP_TYPECODE
			body = u64(body, uint64(e.LastCommitted))
			body = u64(body, uint64(e.SeqNo))
			if e.Tail80 != "" {
				tail, _ := hex.DecodeString(e.Tail80)
				body = append(body, tail...)
			}
		}
		buf = c19Event19(e, 33, body)
		ev = replication.NewMysql56BinlogEvent(buf)
	case e.Flavor == "MySQL56" && e.What == "previous":
		es, err := gtidmodel.ParseText56(e.Set)
		if err != nil || !gtidmodel.IsCanonical(es) {
			k.c.Inconclusive("C19: bad case: previous-gtids set not canonical")
			return
		}
		m = gtidmodel.FromEntries(es)
		buf = c19Event19(e, 35, m.SIDBlock())
		ev = replication.NewMysql56BinlogEvent(buf)
	case e.Flavor == "MariaDB" && e.What == "gtid":
		body := u64(nil, e.MSeq)
		var d [4]byte
		binary.LittleEndian.PutUint32(d[:], e.Domain)
		body = append(body, d[:]...)
		body = append(body, e.Flags2)
		if e.Flags2&2 != 0 { // FL_GROUP_COMMIT_ID: commit id instead of the padding
			body = u64(body, e.CommitID)
		} else {
			body = append(body, 0, 0, 0, 0, 0, 0)
		}
		buf = c19Event19(e, 162, body)
		ev = replication.NewMariadbBinlogEvent(buf)
	default:
		k.c.Inconclusive("C19: bad case: event " + e.Flavor + "/" + e.What)
		return
	}
	orig := append([]byte(nil), buf...)
	hexEv := func() string { return fmt.Sprintf("%x", orig) }

	var recognised bool
	var g replication.GTID
	var begin bool
	var set replication.GTIDSet
	var err error
	if p := core.Guard(func() {
		if e.CRC {
			var serr error
			ev, _, serr = ev.StripChecksum(f)
			if serr != nil {
				err = fmt.Errorf("StripChecksum: %v", serr)
				return
			}
		}
		if e.What == "previous" {
			recognised = ev.IsPreviousGTIDs()
			set, err = ev.PreviousGTIDs(f)
		} else {
			recognised = ev.IsGTID()
			g, begin, err = ev.GTID(f)
		}
	}); p != "" {
		k.vio(cs, "event-panic", "decoding a "+e.Flavor+" "+e.What+" event panicked: "+c18FirstLine(p), map[string]string{"event": hexEv(), "panic": p})
		return
	}
	if err != nil {
		k.vio(cs, key, fmt.Sprintf("%s %s event: error %v", e.Flavor, e.What, err), map[string]string{"event": hexEv()})
		return
	}
	if !recognised {
		k.vio(cs, key, fmt.Sprintf("%s %s event not recognised by IsGTID/IsPreviousGTIDs", e.Flavor, e.What), map[string]string{"event": hexEv()})
	}
	switch {
	case e.What == "previous":
		s56, ok := set.(replication.Mysql56GTIDSet)
		if !ok {
			k.vio(cs, key, fmt.Sprintf("PreviousGTIDs returned %T", set), map[string]string{"event": hexEv()})
			break
		}
		if ok, why := c19Denotes(s56, m); !ok {
			k.vio(cs, key, fmt.Sprintf("PreviousGTIDs of {%s} %s", c18Short(e.Set), why), map[string]string{"event": hexEv(), "got": s56.String()})
		} else if got := s56.String(); got != m.String() {
			k.vio(cs, key, fmt.Sprintf("PreviousGTIDs of {%s} prints %s", c18Short(e.Set), c18Short(got)), map[string]string{"event": hexEv(), "got": got})
		}
		k.cell(fmt.Sprintf("event:previous-gtids sids=%d", len(m)))
	case e.Flavor == "MySQL56":
		want := replication.Mysql56GTID{Server: replication.SID(sid), Sequence: e.Gno}
		if g != replication.GTID(want) {
			k.vio(cs, key, fmt.Sprintf("GTID() = %v, master wrote %v", g, want), map[string]string{"event": hexEv(), "got": fmt.Sprint(g)})
		}
		if e.Tail57 && e.Tail80 != "" {
			k.cell("event:mysql-gtid-8.0-tail")
		} else if e.Tail57 {
			k.cell("event:mysql-gtid-5.7-tail")
		} else {
			k.cell("event:mysql-gtid-5.6")
		}
	default:
		want := replication.MariadbGTID{Domain: e.Domain, Server: e.ServerID, Sequence: e.MSeq}
		if g != replication.GTID(want) {
			k.vio(cs, key, fmt.Sprintf("GTID() = %v, master wrote %v", g, want), map[string]string{"event": hexEv(), "got": fmt.Sprint(g)})
		}
		if wantBegin := e.Flags2&1 == 0; begin != wantBegin {
			k.vio(cs, "event-gtid-begin-flag:MariaDB", fmt.Sprintf("flags2=%#x: begin flag %v, want %v", e.Flags2, begin, wantBegin), map[string]string{"event": hexEv()})
		}
		if e.Flags2&1 != 0 {
			k.cell("event:mariadb-gtid-standalone")
		} else {
			k.cell("event:mariadb-gtid-begin")
		}
	}
	if e.CRC {
		k.cell("event:crc32")
	} else {
		k.cell("event:no-checksum")
	}
	if !bytes.Equal(buf, orig) {
		k.vio(cs, "event-buffer-modified", "decoding changed the event buffer", map[string]string{"event": hexEv(), "after": fmt.Sprintf("%x", buf)})
	}
}

// ---------------------------------------------------------------- generators

var c19Seqs = [...]int64{1, 1 << 31, math.MaxInt64}
var c19U32s = [...]uint32{0, 1, math.MaxUint32}

func c19Seq(r *core.Rng) int64 {
	switch r.Intn(8) {
	case 0:
		return c19Seqs[r.Intn(3)]
	case 1:
		return 1 + int64(r.Intn(1000))
	case 2:
		return math.MaxInt64 - int64(r.Intn(1000))
	}
	v := int64(r.U64() >> uint(1+r.Intn(63)))
	if v < 1 {
		v = 1
	}
	return v
}

func c19U32(r *core.Rng) uint32 {
	switch r.Intn(4) {
	case 0:
		return c19U32s[r.Intn(3)]
	case 1:
		return uint32(r.Intn(100))
	}
	return r.U32()
}

func c19EvHeader(r *core.Rng, e *c19Event) {
	e.Timestamp, e.ServerID, e.NextPos = r.U32(), c19U32(r), r.U32()
	e.HFlags = uint16(r.Intn(2)) * 8 // LOG_EVENT_THREAD_SPECIFIC_F or 0
	e.CRC = r.Chance(1, 2)
}

func (k *c19) preamble() []*c19Case {
	var out []*c19Case
	for _, sid := range c18Special {
		for _, q := range c19Seqs {
			out = append(out, &c19Case{Kind: "gtid56", G56: &c19G56{sid.String(), q}})
			out = append(out, &c19Case{Kind: "event", Ev: &c19Event{Flavor: "MySQL56", What: "gtid", SID: sid.String(), Gno: q,
				Timestamp: 1500000000, ServerID: 1, NextPos: 1234, Tail57: len(out)%4 == 1, LastCommitted: 5, SeqNo: 6, CRC: len(out)%8 < 4}})
			out = append(out, &c19Case{Kind: "set56", Set56: &c19Set56{Text: (gtidmodel.IvSet56{}).Add(sid, q).String(), Way: len(out) % 3}})
		}
	}
	for _, d := range c19U32s {
		for _, s := range c19U32s {
			for _, q := range c19Seqs {
				g := gtidmodel.MariaGTID{Domain: d, Server: s, Seq: uint64(q)}
				out = append(out, &c19Case{Kind: "gtidmaria", GM: &g})
				for _, fl := range [...]byte{0, 1} {
					out = append(out, &c19Case{Kind: "event", Ev: &c19Event{Flavor: "MariaDB", What: "gtid", Domain: d, ServerID: s, MSeq: uint64(q),
						Flags2: fl, Timestamp: 1500000000, NextPos: 99, CRC: len(out)%2 == 0}})
				}
				out = append(out, &c19Case{Kind: "mset", MSet: []gtidmodel.MariaGTID{g}, MVia: "literal"})
			}
		}
	}
	out = append(out, &c19Case{Kind: "set56", Set56: &c19Set56{Text: "", Way: c18WaySIDBlock}})
	out = append(out, &c19Case{Kind: "set56", Set56: &c19Set56{Text: "", Way: c18WayChain}})
	out = append(out, &c19Case{Kind: "event", Ev: &c19Event{Flavor: "MySQL56", What: "previous", Set: "", Timestamp: 1, ServerID: 1, NextPos: 154}})
	for i, c := range out {
		c.Index = i
	}
	return out
}

// c19RandSet56 draws a canonical 5.6 set with 0..8 intervals over <= 4 SIDs.
func c19RandSet56(r *core.Rng) gtidmodel.IvSet56 {
	m := gtidmodel.IvSet56{}
	pool := c18Pool(r, 4)
	n := r.Intn(9)
	for tries := 0; m.NumIntervals() < n && tries < 40; tries++ {
		sid := pool[r.Intn(len(pool))]
		start := c19Seq(r)
		var length int64
		switch r.Intn(3) {
		case 1:
			length = int64(r.Intn(6))
		case 2:
			length = int64(r.U64() >> uint(1+r.Intn(63)))
		}
		end := start + length
		if end < start {
			end = math.MaxInt64
		}
		nm := m.AddInterval(sid, start, end)
		if nm.NumIntervals() <= n {
			m = nm
		}
	}
	return m
}

func c19RandMembers(r *core.Rng, n int) []gtidmodel.MariaGTID {
	var out []gtidmodel.MariaGTID
	seen := map[uint32]bool{}
	for len(out) < n {
		d := c19U32(r)
		if seen[d] {
			continue
		}
		seen[d] = true
		out = append(out, gtidmodel.MariaGTID{Domain: d, Server: c19U32(r), Seq: uint64(c19Seq(r))})
	}
	return out
}

func (k *c19) gen(i int) *c19Case {
	r := k.c.Rng(core.StrID("case"), uint64(i))
	cs := &c19Case{Index: i}
	switch i % 20 {
	case 0, 1, 2, 3:
		cs.Kind = "gtid56"
		cs.G56 = &c19G56{c18RandSID(r).String(), c19Seq(r)}
	case 4, 5, 6:
		cs.Kind = "gtidmaria"
		cs.GM = &gtidmodel.MariaGTID{Domain: c19U32(r), Server: c19U32(r), Seq: uint64(c19Seq(r))}
	case 7, 8, 9:
		cs.Kind = "set56"
		m := c19RandSet56(r)
		cs.Set56 = &c19Set56{Text: m.String(), Way: r.Intn(3), ChainSeed: uint64(r.Intn(6))}
	case 10, 11:
		cs.Kind = "mset"
		cs.MSet = c19RandMembers(r, 1+r.Intn(8))
		cs.MVia = [...]string{"literal", "chain"}[r.Intn(2)]
	case 12, 13, 14, 15, 16:
		cs.Kind = "chain"
		ch := &c19Chain{}
		// a small pool of domains so that adds meet existing positions
		doms := make([]uint32, 0, 8)
		seen := map[uint32]bool{}
		for len(doms) < 3+r.Intn(6) {
			if d := c19U32(r); !seen[d] {
				seen[d] = true
				doms = append(doms, d)
			}
		}
		base := uint64(c19Seq(r))
		if base > math.MaxInt64-64 {
			base = math.MaxInt64 - 64
		}
		if base < 8 {
			base = 8
		}
		switch r.Intn(4) {
		case 0:
			ch.Via = "nil"
		case 1:
			ch.Via = "gtidset"
		case 2:
			ch.Via = "parser"
		default:
			ch.Via = "literal"
		}
		nStart := 0
		switch ch.Via {
		case "gtidset":
			nStart = 1
		case "parser":
			nStart = 1 + r.Intn(4)
		case "literal":
			nStart = r.Intn(5)
		}
		if nStart > len(doms) {
			nStart = len(doms)
		}
		for j := 0; j < nStart; j++ {
			ch.Start = append(ch.Start, gtidmodel.MariaGTID{Domain: doms[j], Server: c19U32(r), Seq: base + uint64(r.Intn(8))})
		}
		nOps := 1 + r.Intn(10)
		prevFrom := -1
		for o := 0; o < nOps; o++ {
			from := -1
			switch {
			case o > 0 && r.Chance(1, 4):
				from = prevFrom // a second result from the same receiver
				if from < 0 {
					from = o - 1
				}
			case o > 0 && r.Chance(1, 5):
				from = r.Intn(o + 1)
			}
			if from < 0 {
				prevFrom = o
			} else {
				prevFrom = from
			}
			g := gtidmodel.MariaGTID{Domain: doms[r.Intn(len(doms))], Server: c19U32(r), Seq: base - 4 + uint64(r.Intn(16))}
			if r.Chance(1, 12) {
				g.Seq = uint64(c19Seq(r))
			}
			ch.Ops = append(ch.Ops, c19ChainOp{From: from, G: g})
		}
		cs.Chain = ch
	case 17:
		cs.Kind = "event"
		e := &c19Event{Flavor: "MySQL56", What: "gtid", SID: c18RandSID(r).String(), Gno: c19Seq(r), GFlags: byte(r.Intn(2)), Tail57: r.Bool()}
		if e.Tail57 {
			e.LastCommitted, e.SeqNo = int64(r.U64()>>1), int64(r.U64()>>1)
			if r.Bool() {
				// 8.0: immediate commit timestamp (7 bytes, top bit = original follows),
				// original commit timestamp (7), transaction length (length-encoded),
				// immediate server version (4, top bit = original follows), original (4)
				e.Tail80 = hex.EncodeToString(r.Bytes([]int{7, 14, 15, 17, 19, 23, 25, 27}[r.Intn(8)]))
			}
		}
		c19EvHeader(r, e)
		cs.Ev = e
	case 18:
		cs.Kind = "event"
		e := &c19Event{Flavor: "MySQL56", What: "previous", Set: c19RandSet56(r).String()}
		c19EvHeader(r, e)
		cs.Ev = e
	default:
		cs.Kind = "event"
		e := &c19Event{Flavor: "MariaDB", What: "gtid", MSeq: uint64(c19Seq(r)), Domain: c19U32(r), Flags2: byte(r.Intn(64)), CommitID: r.U64()}
		if r.Chance(1, 3) {
			e.Flags2 &= 1
		}
		c19EvHeader(r, e)
		cs.Ev = e
	}
	return cs
}

// run dispatches one case and accounts it.
func (k *c19) run(cs *c19Case) {
	nontrivial := true
	switch cs.Kind {
	case "gtid56":
		k.runG56(cs)
		k.cell("gtid:MySQL56")
	case "gtidmaria":
		k.runGM(cs)
		k.cell("gtid:MariaDB")
	case "set56":
		k.runSet56(cs)
		nontrivial = cs.Set56.Text != ""
	case "mset":
		k.runMSet(cs)
	case "chain":
		nontrivial = k.runChain(cs)
	case "event":
		k.runEvent(cs)
	default:
		k.c.Inconclusive("C19: unknown case kind " + cs.Kind)
		return
	}
	// the case is identified by its description (without the index)
	cp := *cs
	cp.Index = 0
	b, _ := json.Marshal(&cp)
	k.c.Case(core.Hash64(b), nontrivial)
}

func runC19(c *core.Ctx) {
	k := &c19{c: c, k18: &c18{c: c, cells: map[string]int64{}}, cells: map[string]int64{}}
	defer k.flush()
	c.SetRule("A case is one of: a GTID of either flavor (String -> ParseGTID and EncodeGTID -> DecodeGTID must return the same struct); a canonical MySQL 5.6 set " +
		"of 0..8 intervals over <= 4 SIDs obtained via SID block / parser / AddGTID chain (SIDBlock -> NewMysql56GTIDSetFromSIDBlock and, when non-empty, String -> parser " +
		"must be Equal both ways and denote the model's set when read with the model's own SID-block decoder); a MariaDB set of 1..8 members with distinct domains (String -> " +
		"parser Equal and member-wise identical); a MariaDB AddGTID scenario (start set via nil / literal / parser / GTID.GTIDSet, <= 10 adds on the latest or an earlier set, " +
		"domains from a pool of 3..8 so that adds meet existing positions with smaller, equal and larger sequence numbers; after every add: deep snapshot + String of every set " +
		"obtained so far unchanged, result has one member per domain and equals the receiver's positions plus g with the larger sequence number winning (either on a tie), " +
		"ContainsGTID for sequence-1/same/+1/1/2^63-1 in every domain and one absent domain, Contains both ways against every set of the scenario); a GTID_EVENT(33), " +
		"PREVIOUS_GTIDS(35) or MariaDB GTID(162) event written by the encoder in checks/c19.go, with and without CRC32 (StripChecksum first), decoded with BinlogEvent.GTID / " +
		"PreviousGTIDs. After a detected mutation the scenario continues from the contents the library now holds. Cases are identified by the hash of their description; " +
		"non-trivial: every case except the empty 5.6 set and AddGTID scenarios in which no add replaces an existing position.")
	c.Assume("Go standard library (hash/crc32, encoding/binary); event header, GTID_EVENT, PREVIOUS_GTIDS and MariaDB GTID_EVENT layouts as in DESIGN Appendix A " +
		"(FL_STANDALONE=1, FL_GROUP_COMMIT_ID=2 replaces the 6 padding bytes by an 8-byte commit id); models in verifharness/model/gtidmodel")

	if c.Replay != "" {
		b, err := os.ReadFile(c.Replay)
		if err != nil {
			c.Inconclusive("cannot read replay file: " + err.Error())
			return
		}
		var f struct {
			Witness c19Case `json:"witness"`
		}
		if err := json.Unmarshal(b, &f); err != nil || f.Witness.Kind == "" {
			c.Inconclusive(fmt.Sprintf("bad replay file: %v", err))
			return
		}
		f.Witness.Detail = nil
		k.run(&f.Witness)
		return
	}

	pre := k.preamble()
	total := c.N(100000, 12000000)
	for i := 0; i < total; i++ {
		if !c.Mine(i) {
			continue
		}
		var cs *c19Case
		if i < len(pre) {
			cs = pre[i]
		} else {
			cs = k.gen(i)
		}
		k.run(cs)
		if c.WantSample() && i >= len(pre) && (cs.Kind == "chain" || cs.Kind == "event") && i%16 == c.Shard%16 {
			c.Sample(cs)
		}
		if i&4095 == 0 {
			k.flush()
		}
	}
	c.ExhaustiveDomain("edge list: SIDs all-zero, all-FF and each single byte set to 01/80/ff x sequence {1, 2^31, 2^63-1} as GTID text round trip, GTID_EVENT and one-member set; " +
		"MariaDB domain x server in {0,1,2^32-1}^2 x sequence {1, 2^31, 2^63-1} as GTID text round trip, GTID event with flags2 0/1, one-member set")
}

// c19HeldBlk keeps the SID block of the previous case (and a private copy).
var c19HeldBlk struct {
	orig, copy []byte
	text       string
}
