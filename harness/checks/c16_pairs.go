package checks

import (
	"fmt"

	"github.com/Breeze0806/gobinlog/replication"

	"verifharness/core"
	"verifharness/enc/ev"
	"verifharness/hist"
	"verifharness/run"
	"verifharness/sim"
)

// C16, session charset across events: the charset triple a query event yields
// must be the one that event carries, whatever was decoded before it in the
// process (caches keyed on a narrow packing of the three 16-bit ids). Pairs of
// events are decoded back to back whose triples coincide when each id is
// truncated or packed as if it were 8 bits wide, or when neighbouring ids are
// swapped / shifted by one field.
func init() {
	base := core.Lookup("C16")
	core.Register("C16", func(c *core.Ctx) {
		base(c)
		if c.Replay == "" {
			c16CharsetPairs(c)
			c16EndToEnd(c)
		}
	})
}

func c16QueryCharset(r *core.Rng, cs [3]uint16, alg byte) (*replication.Charset, string) {
	cfg := &ev.Cfg{NumTypes: 38, GTIDPostHeader: 42, Checksum: alg == 1, ChecksumAlg: alg}
	sv := &ev.StatusVars{}
	if r.Bool() {
		sv.Flags2(r.U32())
	}
	if r.Bool() {
		sv.SQLMode(r.U64())
	}
	sv.Charset(cs[0], cs[1], cs[2])
	if r.Bool() {
		sv.TimeZone("SYSTEM")
	}
	b := cfg.Event(r.U32(), ev.Query, 0, ev.QueryBody(r.U32(), 0, "db", 0, sv.Bytes(), "SELECT 1"), 4)
	f := replication.BinlogFormat{FormatVersion: 4, ServerVersion: "5.7.0", HeaderLength: 19, ChecksumAlgorithm: alg, HeaderSizes: cfg.PostHeaderLens()}
	var q replication.Query
	var err error
	if p := core.Guard(func() {
		e := replication.NewMysql56BinlogEvent(b)
		var stripped replication.BinlogEvent
		stripped, _, err = e.StripChecksum(f)
		if err == nil {
			q, err = stripped.Query(f)
		}
	}); p != "" {
		return nil, "panic: " + p
	}
	if err != nil {
		return nil, "error: " + err.Error()
	}
	return q.Charset, ""
}

func c16CharsetPairs(c *core.Ctx) {
	n := c.N(4000, 600000)
	for i := 0; i < n; i++ {
		if !c.Mine(i) {
			continue
		}
		r := c.Rng(core.StrID("c16pairs"), uint64(i))
		var a [3]uint16
		for k := range a {
			switch r.Intn(3) {
			case 0:
				a[k] = uint16(r.Intn(256))
			case 1:
				a[k] = uint16(256 + r.Intn(256))
			default:
				a[k] = uint16(r.U32())
			}
		}
		// a second triple that collides with the first under a narrow reading
		key := uint64(a[0]) | uint64(a[1])<<8 | uint64(a[2])<<16
		var b [3]uint16
		switch i % 4 {
		case 0: // same value when packed client | conn<<8 | server<<16
			b = [3]uint16{uint16(key & 0xff), uint16(key >> 8 & 0xff), uint16(key >> 16)}
		case 1: // same low bytes
			b = [3]uint16{a[0] & 0xff, a[1] & 0xff, a[2] & 0xff}
		case 2: // neighbours swapped
			b = [3]uint16{a[1], a[0], a[2]}
		default: // same sum / xor
			b = [3]uint16{a[0] ^ a[1], 0, a[2]}
		}
		seq := [][3]uint16{a, b, a}
		for step, t := range seq {
			got, bad := c16QueryCharset(r, t, byte(i%2))
			c.Case(core.HashU64(core.HashU64(core.HashU64(uint64(t[0]), uint64(t[1])), uint64(t[2])), uint64(i*3+step)), t != [3]uint16{})
			if bad == "" && (got == nil || got.Client != int32(t[0]) || got.Conn != int32(t[1]) || got.Server != int32(t[2])) {
				bad = fmt.Sprintf("query with charset %v yields %v", t, got)
			}
			if bad != "" {
				c.Violation("c16:query-charset-depends-on-earlier-events", fmt.Sprintf("after decoding %v: %s", seq[:step], bad),
					map[string]interface{}{"mode": "charset-pairs", "index": i, "sequence": seq, "step": step})
				return
			}
		}
		c.Cell("charset-pairs")
	}
}

// c16EndToEnd: positions, SQL text, database and charset of query events and
// the effect of every format description (one per file, checksum setting and
// header-size table changing from file to file) are observed through the
// streamer: multi-file histories, compared with the model including labels.
func c16EndToEnd(c *core.Ctx) {
	nh := c.N(160, 4000)
	for idx := 0; idx < nh; idx++ {
		if !c.Mine(idx) {
			continue
		}
		h, tables := c03History(c, 50000+idx)
		l := h.Build()
		start := hist.Pos{File: h.FirstFile, Off: 4}
		exp := hist.Expect(h, l, start)
		s, err := run.NewSession(l, tables, 1616, start, idx%2 == 0)
		if err != nil {
			c.Inconclusive("cannot start master: " + err.Error())
			return
		}
		for _, g := range run.LibGoroutines(nil) {
			s.Abandon(g.ID)
		}
		s.M.SetDefault(&sim.Script{End: sim.EndEOF})
		res := s.Attempt(run.NoFaults(), nil, maxWait)
		c.Case(core.HashU64(layoutHash(l), 1616), len(l.Files) > 1)
		c.Cell("e2e:streamed-history")
		if len(l.Files) > 1 {
			c.Cell("e2e:several-format-descriptions")
		}
		if res.Verdict == run.Returned {
			scn := map[string]interface{}{"mode": "end-to-end", "hist": 50000 + idx}
			if res.Panic != "" {
				c.Violation("c16:e2e:panic", fmt.Sprintf("history %d: Stream panicked: %s", idx, res.Panic), witnessOf(scn, h, s, nil))
			} else if d := run.CompareAll(exp, res.Delivered, true); d != nil {
				c.Violation("c16:e2e:"+d.Kind, fmt.Sprintf("history %d (%d files): %s (stream error: %s)", idx, len(l.Files), d, errStr(res.Err)), witnessOf(scn, h, s, nil))
			}
		}
		s.Close()
	}
}
