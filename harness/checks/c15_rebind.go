package checks

import (
	"fmt"

	"verifharness/core"
	"verifharness/enc/ev"
	"verifharness/gen"
	"verifharness/hist"
	"verifharness/run"
	"verifharness/sim"
)

// C15, table ids re-bound inside one stream: after a server restart (the file
// ends without a ROTATE event) the master hands out table ids from the start
// again, so an id announced earlier now names a different table. Rows must be
// attributed to the table of the most recent announcement of their id.
func init() {
	base := core.Lookup("C15")
	core.Register("C15", func(c *core.Ctx) {
		base(c)
		if c.Replay == "" {
			c15Rebind(c)
			c15Recount(c)
			c15ManyIDs(c)
		}
	})
}

func c15Rebind(c *core.Ctx) {
	nh := c.N(400, 15000)
	for idx := 0; idx < nh; idx++ {
		if !c.Mine(idx) {
			continue
		}
		r := c.Rng(core.StrID("c15rebind"), uint64(idx))
		cb := allCombos()[idx%24]
		o := cb.hopts(r)
		o.MaxTables, o.MaxCols, o.MaxRows, o.MaxStmts = 3, 6, 2, 2
		o.NoJSON = true
		b := gen.NewBuilder(r, o)
		for len(b.Tables) < 2 {
			b.Tables = append(b.Tables, b.RandTable(uint64(300+len(b.Tables)), "dbx", fmt.Sprintf("x%d", len(b.Tables)), 1+r.Intn(5)))
		}
		if idx%4 == 1 {
			// names that differ in letter case only (distinct tables on a
			// case-sensitive server)
			variants := [][2]string{{"shop", "orders"}, {"shop", "Orders"}, {"Shop", "orders"}, {"SHOP", "ORDERS"}, {"shop", "oRDERS"}}
			for i, t := range b.Tables {
				t.DB, t.Name = variants[i%len(variants)][0], variants[i%len(variants)][1]
			}
			c.Cell("stream:id-rebound-to-name-differing-in-case-only")
		}
		kinds := []hist.UnitKind{hist.TxXID, hist.TxCommit, hist.AutoRows, hist.TxXID}
		for i := 0; i < 2+r.Intn(3); i++ {
			b.Add(kinds[r.Intn(len(kinds))])
		}
		b.Add(hist.Restart)
		b.RebindIDs()
		for i := 0; i < 2+r.Intn(3); i++ {
			b.Add(kinds[r.Intn(len(kinds))])
		}
		if r.Bool() {
			b.Add(hist.Restart)
			b.RebindIDs()
			b.Add(hist.TxXID)
		}
		h, tables := b.H, b.Tables
		l := h.Build()
		start := hist.Pos{File: h.FirstFile, Off: 4}
		exp := hist.Expect(h, l, start)
		s, err := run.NewSession(l, tables, 1515, start, idx%3 != 0)
		if err != nil {
			c.Inconclusive("cannot start master: " + err.Error())
			return
		}
		for _, g := range run.LibGoroutines(nil) {
			s.Abandon(g.ID)
		}
		s.M.SetDefault(&sim.Script{End: sim.EndEOF})
		res := s.Attempt(run.NoFaults(), nil, maxWait)
		c.Case(core.HashU64(layoutHash(l), 1515), true)
		c.Cell("stream:id-rebound-after-restart")
		scn := map[string]interface{}{"mode": "id-rebound", "hist": idx, "combo": cb.String()}
		switch {
		case res.Verdict != run.Returned:
			c.Cell("stream-not-returned(reported under C05)")
		case res.Panic != "":
			c.Violation("c15:id-rebound:panic", fmt.Sprintf("history %d: Stream panicked: %s", idx, res.Panic), witnessOf(scn, h, s, nil))
		default:
			if d := run.CompareAll(exp, res.Delivered, false); d != nil {
				c.Violation("c15:id-rebound:"+d.Kind, fmt.Sprintf("history %d (%s), table ids re-bound after a restart: %s (stream error: %s)", idx, cb, d, errStr(res.Err)), witnessOf(scn, h, s, nil))
			}
		}
		s.Close()
	}
}

// c15Recount: the same table id is announced again for the same table with
// another column count (a column was added or dropped mid-stream). The mapper
// would answer the new shape if it were asked again. The library may either
// reject the rows (its mapper table disagrees with the table map) or ask again
// and attribute them correctly; delivering them under the old column list is
// the mis-attribution the property excludes.
func c15Recount(c *core.Ctx) {
	nh := c.N(240, 8000)
	for idx := 0; idx < nh; idx++ {
		if !c.Mine(idx) {
			continue
		}
		r := c.Rng(core.StrID("c15recount"), uint64(idx))
		cb := allCombos()[idx%24]
		o := cb.hopts(r)
		o.MaxTables, o.MaxCols, o.MaxRows, o.MaxStmts, o.MaxEvents = 1, 6, 2, 2, 2
		o.NoJSON = true
		b := gen.NewBuilder(r, o)
		b.Tables = []*hist.Table{b.RandTable(uint64(700+r.Intn(50)), "dbr", "t", 2+r.Intn(5))}
		kinds := []hist.UnitKind{hist.TxXID, hist.TxCommit, hist.AutoRows}
		k1 := 1 + r.Intn(2)
		for i := 0; i < k1; i++ {
			b.Add(kinds[r.Intn(len(kinds))])
		}
		v1 := b.Tables[0]
		v2 := &hist.Table{ID: v1.ID, DB: v1.DB, Name: v1.Name, Flags: v1.Flags, Cols: append([]hist.Column(nil), v1.Cols...)}
		how := "column-added"
		switch {
		case len(v2.Cols) > 2 && idx%3 == 0:
			v2.Cols = v2.Cols[:len(v2.Cols)-1]
			how = "last-column-dropped"
		case len(v2.Cols) > 2 && idx%3 == 1:
			k := 1 + r.Intn(len(v2.Cols)-2)
			v2.Cols = append(v2.Cols[:k:k], v2.Cols[k+1:]...)
			how = "middle-column-dropped"
		default:
			extra := b.RandTable(1, "x", "x", 2).Cols[1]
			extra.Name = "added"
			v2.Cols = append(v2.Cols, extra)
		}
		if idx%4 == 3 {
			b.Add(hist.Rotate)
		}
		b.Tables = []*hist.Table{v2}
		for i := 0; i < 1+r.Intn(2); i++ {
			b.Add(kinds[r.Intn(len(kinds))])
		}
		h := b.H
		l := h.Build()
		start := hist.Pos{File: h.FirstFile, Off: 4}
		exp := hist.Expect(h, l, start)
		s, err := run.NewSession(l, []*hist.Table{v1}, 1516, start, idx%3 != 0)
		if err != nil {
			c.Inconclusive("cannot start master: " + err.Error())
			return
		}
		for _, g := range run.LibGoroutines(nil) {
			s.Abandon(g.ID)
		}
		s.Mapper.Versions = map[[2]string][]*hist.Table{{v1.DB, v1.Name}: {v1, v2}}
		s.M.SetDefault(&sim.Script{End: sim.EndEOF})
		res := s.Attempt(run.NoFaults(), nil, maxWait)
		c.Case(core.HashU64(layoutHash(l), 1516), true)
		c.Cell("stream:id-reannounced-with-other-column-count:" + how)
		scn := map[string]interface{}{"mode": "recount", "hist": idx, "combo": cb.String(), "how": how}
		switch {
		case res.Verdict != run.Returned:
			c.Cell("stream-not-returned(reported under C05)")
		case res.Panic != "":
			c.Violation("c15:recount:panic", fmt.Sprintf("history %d (%s): Stream panicked: %s", idx, how, res.Panic), witnessOf(scn, h, s, nil))
		case res.Err != nil:
			// rejected: what was delivered before must be right, and must not
			// include anything of the new shape under the old column list
			want := exp
			if len(res.Delivered) < len(want) {
				want = want[:len(res.Delivered)]
			}
			if d := run.CompareAll(want, res.Delivered, false); d != nil {
				c.Violation("c15:recount:"+d.Kind, fmt.Sprintf("history %d (%s), id re-announced with another column count, stream rejected (%s) but: %s", idx, how, errStr(res.Err), d), witnessOf(scn, h, s, nil))
			} else {
				c.Cell("recount:rejected")
			}
		default:
			if d := run.CompareAll(exp, res.Delivered, false); d != nil {
				c.Violation("c15:recount:"+d.Kind, fmt.Sprintf("history %d (%s), id re-announced with another column count, stream went on: %s", idx, how, d), witnessOf(scn, h, s, nil))
			} else {
				c.Cell("recount:attributed-to-the-new-shape")
			}
		}
		s.Close()
	}
}

// c15ManyIDs: one stream announces hundreds of distinct table ids (a server with
// many tables, or table-cache evictions on the master) while one long-lived
// table is announced in every statement, before the new id. Whatever the
// library does to bound its own bookkeeping, rows of the long-lived table must
// still be attributed to it.
func c15ManyIDs(c *core.Ctx) {
	sizes := []int{300, 520}
	if !c.Quick() {
		sizes = []int{300, 520, 1100, 2100, 4200, 70000}
	}
	manyIDs(c, "c15", sizes)
}

func manyIDs(c *core.Ctx, prefix string, sizes []int) {
	for k, n := range sizes {
		if !c.Mine(k) {
			continue
		}
		r := c.Rng(core.StrID(prefix+"manyids"), uint64(k))
		cb := allCombos()[(k*5)%24]
		o := cb.hopts(r)
		o.MaxCols, o.MaxRows, o.MaxEvents, o.NoJSON = 3, 1, 1, true
		b := gen.NewBuilder(r, o)
		long := b.RandTable(50, "dbm", "longlived", 3)
		tables := []*hist.Table{long}
		b.Tables = []*hist.Table{long}
		b.Add(hist.TxXID)
		for i := 0; i < n; i++ {
			f := b.RandTable(uint64(1000+i), "dbm", fmt.Sprintf("f%d", i), 2)
			tables = append(tables, f)
			u := b.Unit(hist.TxXID)
			s := hist.Stmt{Kind: hist.StmtRows, MapTS: b.TS(), TableMaps: []*hist.Table{long, f}}
			s.Rows = []hist.RowsEvent{b.RowsEvent(long, ev.RowsKind(r.Intn(3)), 1), b.RowsEvent(f, ev.KWrite, 1)}
			if i%7 == 3 { // sometimes only the new table is used, or the order is the other way round
				s.TableMaps = []*hist.Table{f, long}
			}
			u.Stmts = []hist.Stmt{s}
			b.H.Units = append(b.H.Units, u)
		}
		h := b.H
		l := h.Build()
		start := hist.Pos{File: h.FirstFile, Off: 4}
		exp := hist.Expect(h, l, start)
		s, err := run.NewSession(l, tables, 1517, start, false)
		if err != nil {
			c.Inconclusive("cannot start master: " + err.Error())
			return
		}
		for _, g := range run.LibGoroutines(nil) {
			s.Abandon(g.ID)
		}
		s.M.SetDefault(&sim.Script{End: sim.EndEOF})
		res := s.Attempt(run.NoFaults(), nil, maxWait)
		c.Case(core.HashU64(layoutHash(l), 1517), true)
		c.Cell("stream:hundreds-of-table-ids")
		scn := map[string]interface{}{"mode": "many-ids", "k": k, "ids": n, "combo": cb.String()}
		switch {
		case res.Verdict != run.Returned:
			c.Cell("stream-not-returned(reported under C05)")
		case res.Panic != "":
			c.Violation(prefix+":many-ids:panic", fmt.Sprintf("%d table ids: Stream panicked: %s", n, res.Panic), witnessOf(scn, nil, s, nil))
		default:
			if d := run.CompareAll(exp, res.Delivered, false); d != nil {
				c.Violation(prefix+":many-ids:"+d.Kind, fmt.Sprintf("a stream announcing %d distinct table ids: %s (stream error: %s)", n, d, errStr(res.Err)), witnessOf(scn, nil, s, nil))
			}
		}
		s.Close()
	}
}
