package checks

import (
	"fmt"
	"os"
	"time"

	"verifharness/core"
	"verifharness/gen"
	"verifharness/hist"
	"verifharness/run"
)

// C04: across failures and restarts every transaction is accepted exactly once.
// Chains of failed attempts on ONE streamer followed by a clean attempt; the
// ledger checks that the handler accepts delivery 0..T-1 exactly once and in
// order, and the position oracle checks every dump request.
func init() { core.Register("C04", checkC04) }

type c04Scn struct {
	Hist  int         `json:"hist"`
	Chain []faultSpec `json:"chain"`
}

func c04History(c *core.Ctx, idx int) (*hist.History, []*hist.Table) {
	return smallHistory(c.Rng(core.StrID("c04hist"), uint64(idx)), idx)
}

// ledgerState tracks acceptance over a chain.
type ledgerState struct {
	last int // last accepted delivery index
}

// matchIndex finds which expected delivery a delivered transaction is (by
// labels and contents), or -1.
func matchIndex(exp []hist.ExpTx, d *run.Delivered) int {
	for i := range exp {
		if exp[i].Now == d.Now && exp[i].Next == d.Next && run.CompareTx(&exp[i], d, true) == nil {
			return i
		}
	}
	for i := range exp {
		if run.CompareTx(&exp[i], d, false) == nil {
			return i
		}
	}
	return -1
}

// checkLedger feeds one attempt's deliveries to the ledger; it returns a
// violation class and message, or "".
func (ls *ledgerState) feed(exp []hist.ExpTx, ds []*run.Delivered) (string, string) {
	for _, d := range ds {
		want := ls.last + 1
		if want >= len(exp) {
			return "ledger-extra", fmt.Sprintf("delivery %v after all %d transactions were accepted", d.Now, len(exp))
		}
		if df := run.CompareTx(&exp[want], d, true); df != nil {
			mi := matchIndex(exp, d)
			switch {
			case mi > want:
				return "ledger-skip", fmt.Sprintf("expected delivery %d next (last accepted %d) but got delivery %d: transaction(s) skipped", want, ls.last, mi)
			case mi >= 0 && mi < want:
				return "ledger-repeat", fmt.Sprintf("expected delivery %d next (last accepted %d) but got delivery %d again", want, ls.last, mi)
			case mi == want:
				return "ledger-label", fmt.Sprintf("delivery %d has wrong labels: %s", want, df)
			}
			return "ledger-mismatch:" + df.Kind, fmt.Sprintf("delivery %d differs from the model: %s", want, df)
		}
		if d.Accepted {
			ls.last = want
		}
	}
	return "", ""
}

func c04Chains(c *core.Ctx, hidx int, h *hist.History, l *hist.Layout, exp []hist.ExpTx, start hist.Pos, plan int) []c04Scn {
	r := c.Rng(core.StrID("c04chains"), uint64(hidx))
	var out []c04Scn
	var firsts []faultSpec
	for _, lock := range []bool{false, true} {
		for k := 0; k <= plan; k++ {
			for _, kind := range packetKinds {
				f := faultSpec{Kind: kind, At: k, Lock: lock}
				if kind == "err" {
					f.Code, f.Msg, f.State = uint16(1+r.Intn(65535)), randMsg(r), "HY000"
				}
				firsts = append(firsts, f)
			}
		}
		for j := 0; j < len(exp); j++ {
			for _, kind := range txKinds {
				firsts = append(firsts, faultSpec{Kind: kind, At: j, Lock: lock})
			}
		}
		for n := 0; n < 4; n++ {
			for _, kind := range mapperKinds {
				firsts = append(firsts, faultSpec{Kind: kind, At: n, Lock: lock})
			}
		}
	}
	// attempts that fail before a connection / reader exists, and transport read errors
	for _, kind := range preconnKinds {
		firsts = append(firsts, faultSpec{Kind: kind})
	}
	for i := 0; i < 6; i++ {
		firsts = append(firsts, faultSpec{Kind: "read-error", At: r.Intn(3000)})
	}
	randFault := func() faultSpec {
		f := firsts[r.Intn(len(firsts))]
		// later attempts start further in; indices are clamped by runAttempt
		return f
	}
	if !c.Quick() && hidx < 2 {
		// pairs of consecutive failed attempts: every first fault x every 8th second fault
		for _, f1 := range firsts {
			for j := hidx; j < len(firsts); j += 8 {
				out = append(out, c04Scn{Hist: hidx, Chain: []faultSpec{f1, firsts[j]}})
			}
		}
	}
	for _, f := range firsts {
		ch := []faultSpec{f}
		switch r.Intn(4) {
		case 1:
			ch = append(ch, randFault())
		case 2:
			ch = append(ch, randFault(), randFault())
		}
		out = append(out, c04Scn{Hist: hidx, Chain: ch})
	}
	return out
}

func checkC04(c *core.Ctx) {
	c.SetRule("per small generated history (3..6 transactions, half with a rotation): every packet index of the first attempt x 23 packet fault kinds (incl. a well-formed rows event whose before image, after image, only image cannot be decoded, and header-only TABLE_MAP / rows / QUERY / FORMAT_DESCRIPTION / ROTATE events that pass the validity test), every transaction ordinal x {cancel in handler, handler error}, mapper error / column-count mismatch on its first 4 calls, each x pacing {far-ahead, lock-step}; 8 kinds of attempts failing before a reader exists; transport read errors at random byte offsets; 0..2 further seeded failed attempts; then a clean attempt to EOF, all on ONE streamer; distinct by (history bytes, chain); non-trivial iff the faulting attempt was reached and the chain has >=2 attempts")
	c.Assume("a transaction counts as accepted iff the handler returned nil for it")
	c.Assume("simulated master rejects a dump position that is not an event boundary (bad-resume)")
	nh := c.N(8, 200)
	if c.Replay != "" {
		var w struct {
			Witness struct {
				Scenario c04Scn `json:"scenario"`
			} `json:"witness"`
		}
		if err := readWitness(c.Replay, &w); err != nil {
			c.Inconclusive("cannot read witness: " + err.Error())
			return
		}
		scn := w.Witness.Scenario
		if scn.Hist < 0 {
			c04Long(c, -1-scn.Hist)
			return
		}
		h, tables := c04History(c, scn.Hist)
		l := h.Build()
		start := hist.Pos{File: h.FirstFile, Off: 4}
		c04Run(c, scn, h, l, tables, hist.Expect(h, l, start), start)
		return
	}
	for i := 0; i < c.N(4, 48); i++ {
		if c.Mine(i) {
			c04Long(c, i)
		}
	}
	n := 0
	for hidx := 0; hidx < nh; hidx++ {
		h, tables := c04History(c, hidx)
		l := h.Build()
		start := hist.Pos{File: h.FirstFile, Off: 4}
		exp := hist.Expect(h, l, start)
		plan := len(planOf(l, start))
		for _, scn := range c04Chains(c, hidx, h, l, exp, start, plan) {
			n++
			if !c.Mine(n) {
				continue
			}
			c04Run(c, scn, h, l, tables, exp, start)
		}
	}
}

// c04Long: one streamer, one long history, many consecutive failed attempts of
// random kinds at random points, then a clean attempt: the ledger must still
// see every transaction accepted exactly once and in order.
func c04Long(c *core.Ctx, idx int) {
	r := c.Rng(core.StrID("c04long"), uint64(idx))
	cb := allCombos()[r.Intn(24)]
	o := cb.hopts(r)
	o.MaxCols, o.MaxRows, o.MaxStmts, o.MaxEvents, o.MaxTables = 4, 2, 2, 1, 3
	o.NoJSON = true
	ntx := c.N(60, 300)
	h, tables := gen.RandomHistory(r, o, ntx, 3+r.Intn(4))
	l := h.Build()
	start := hist.Pos{File: h.FirstFile, Off: 4}
	exp := hist.Expect(h, l, start)
	var chain []faultSpec
	nf := c.N(25, 80)
	kinds := append(append(append([]string{}, packetKinds...), txKinds...), "mapper-err", "mapper-count", "read-error", "connect-refused", "set-rejected", "dump-write-fail")
	for i := 0; i < nf; i++ {
		k := kinds[r.Intn(len(kinds))]
		f := faultSpec{Kind: k, Lock: r.Bool()}
		switch {
		case isPacketKind(k):
			f.At = 2 + r.Intn(60)
		case isTxKind(k):
			f.At = r.Intn(8)
		case isMapperKind(k):
			f.At = r.Intn(3)
		case k == "read-error":
			f.At = r.Intn(20000)
		}
		if k == "err" {
			f.Code, f.Msg, f.State = uint16(1+r.Intn(65535)), randMsg(r), "HY000"
		}
		chain = append(chain, f)
	}
	scn := c04Scn{Hist: -1 - idx, Chain: chain}
	c04Run(c, scn, h, l, tables, exp, start)
	c.Cell("long-chain")
}

func c04Run(c *core.Ctx, scn c04Scn, h *hist.History, l *hist.Layout, tables []*hist.Table, exp []hist.ExpTx, start hist.Pos) {
	first := scn.Chain[0]
	keyPrefix := "c04:" + first.Kind + ":"
	if c.KeyCount(keyPrefix+"ledger-skip") >= 5 || c.KeyCount(keyPrefix+"dump-position") >= 5 || c.KeyCount(keyPrefix+"final-missing") >= 5 {
		c.Skip(1)
		return
	}
	c.Log("C04 %+v", scn)
	t0 := time.Now()
	defer func() { c.Note("ms:"+first.Kind, time.Since(t0).Milliseconds()); c.Note("n:"+first.Kind, 1) }()
	s, err := run.NewSession(l, tables, 909, start, true)
	if err != nil {
		c.Inconclusive("cannot start master: " + err.Error())
		return
	}
	defer s.Close()
	r := c.Rng(core.StrID("c04run"), uint64(scn.Hist), core.Hash64([]byte(fmt.Sprint(scn.Chain))))
	ls := &ledgerState{last: -1}
	reachedAny := false
	blame := first.Kind // the fault kind whose aftermath is being judged
	fail := func(class, msg string, extra map[string]interface{}) {
		c.Violation("c04:"+blame+":"+class, fmt.Sprintf("chain %v: %s", scn.Chain, msg), witnessOf(scn, h, s, extra))
	}
	chain := append(append([]faultSpec{}, scn.Chain...), faultSpec{Kind: "clean-eof"})
	for ai, spec := range chain {
		// the position this attempt must request
		valid := validResume(h, l, exp, start, ls.last)
		ta := time.Now()
		ob := runStop(c, s, l, valid[0], stopScn{Hist: scn.Hist, Spec: spec, Wrapped: true}, attemptOpts{ErrorCalls: 1, ErrorFirst: true}, r)
		if debugTiming {
			fmt.Fprintf(os.Stderr, "C04 timing %v attempt %d %s: %v\n", scn.Chain, ai, spec, time.Since(ta))
		}
		res := ob.Res
		if res.Verdict != run.Returned {
			if res.Verdict == run.Stuck {
				c.Cell("stream-stuck(reported under C05):" + spec.Kind)
				if debugTiming {
					fmt.Fprintf(os.Stderr, "STUCK %v\n%v\n", scn, gdump(res.StuckDump))
				}
			} else {
				c.Inconclusive(fmt.Sprintf("C04 %v attempt %d: Stream did not return; undecided", scn.Chain, ai))
			}
			return
		}
		if ob.reached() && spec.Kind != "clean-eof" {
			reachedAny = true
			c.Cell("fault:" + spec.Kind)
		}
		if res.Panic != "" {
			fail("panic", "Stream panicked: "+res.Panic, nil)
			return
		}
		if ob.Err1 != nil && ob.Err1.Verdict == run.Stuck {
			c.Cell("error-call-blocked(reported under C05)")
		}
		if res.Dump != nil {
			got := hist.Pos{File: res.Dump.File, Off: int64(res.Dump.Pos)}
			if !posIn(got, valid) {
				fail("dump-position", fmt.Sprintf("attempt %d requested %v; the last accepted delivery is %d, valid resume points are %v", ai, got, ls.last, valid), nil)
				return
			}
			if res.Conn != nil && res.Conn.Snapshot().BadResume {
				fail("bad-resume", fmt.Sprintf("attempt %d requested %v which the master rejects", ai, got), nil)
				return
			}
		}
		if class, msg := ls.feed(exp, res.Delivered); class != "" {
			fail(class, fmt.Sprintf("attempt %d (%s): %s", ai, spec, msg), nil)
			return
		}
		if ob.reached() {
			blame = spec.Kind // what the next attempt inherits from
		}
	}
	if ls.last != len(exp)-1 {
		fail("final-missing", fmt.Sprintf("after the clean attempt only deliveries 0..%d of %d were accepted", ls.last, len(exp)), nil)
		return
	}
	c.Case(core.HashAdd(layoutHash(l), []byte(fmt.Sprint(scn.Chain))), reachedAny && len(chain) >= 2)
	c.Note("attempts", int64(len(chain)))
	if c.WantSample() {
		c.Sample(map[string]interface{}{"scenario": scn, "units": unitNames(h), "transactions": len(exp)})
	}
}

var debugTiming = os.Getenv("VERIF_DEBUG_TIMING") != ""
