package checks

import (
	"encoding/binary"
	"encoding/hex"
	"fmt"
	"runtime"
	"strconv"
	"strings"
	"time"

	"github.com/Breeze0806/gobinlog/replication"

	"verifharness/core"
	"verifharness/enc/ev"
	"verifharness/hist"
	"verifharness/run"
	"verifharness/sim"
)

// C17: malformed packets are rejected by the validity gate, without panic.
func init() { core.Register("C17", checkC17) }

// refValid is the reference predicate of the statement.
func refValid(b []byte) bool {
	return len(b) >= 19 && uint64(binary.LittleEndian.Uint32(b[9:13])) == uint64(len(b))
}

type headerIface interface {
	Type() byte
	ServerID() uint32
	Length() uint32
	Flags() uint16
}

// gateCase checks one buffer against both event wrappers. It returns a key
// and message, or "".
func gateCase(b []byte) (string, string) {
	want := refValid(b)
	for wi, mk := range []func([]byte) replication.BinlogEvent{replication.NewMysql56BinlogEvent, replication.NewMariadbBinlogEvent} {
		wname := []string{"mysql56", "mariadb"}[wi]
		var got bool
		buf := append([]byte(nil), b...)
		ev := mk(buf)
		if p := core.Guard(func() { got = ev.IsValid() }); p != "" {
			return "gate-panic:" + wname, "IsValid panicked: " + firstLine(p)
		}
		if got != want {
			if want {
				return "gate-rejects-valid:" + wname, fmt.Sprintf("IsValid=false for a %d-byte buffer whose length field equals its length", len(b))
			}
			cls := "length-mismatch"
			if len(b) < 19 {
				cls = "short-header"
			}
			return "gate-accepts-invalid:" + cls + ":" + wname, fmt.Sprintf("IsValid=true for a %d-byte buffer (length field %s)", len(b), lenField(b))
		}
		if !got {
			continue
		}
		var ts, sid, ln uint32
		var np int64
		var typ byte
		var fl uint16
		if p := core.Guard(func() {
			ts = ev.Timestamp()
			np = ev.NextPosition()
			_ = ev.IsFormatDescription()
			_ = ev.IsQuery()
			_ = ev.IsXID()
			_ = ev.IsGTID()
			_ = ev.IsRotate()
			_ = ev.IsIntVar()
			_ = ev.IsRand()
			_ = ev.IsPreviousGTIDs()
			_ = ev.IsRowsQuery()
			_ = ev.IsTableMap()
			_ = ev.IsWriteRows()
			_ = ev.IsUpdateRows()
			_ = ev.IsDeleteRows()
			_ = ev.IsPseudo()
			if h, ok := ev.(headerIface); ok {
				typ, sid, ln, fl = h.Type(), h.ServerID(), h.Length(), h.Flags()
			} else {
				typ, sid, ln, fl = b[4], binary.LittleEndian.Uint32(b[5:]), binary.LittleEndian.Uint32(b[9:]), binary.LittleEndian.Uint16(b[17:])
			}
		}); p != "" {
			return "gate-accessor-panic:" + wname, "a header accessor panicked on an accepted buffer: " + firstLine(p)
		}
		if ts != binary.LittleEndian.Uint32(b[0:]) || typ != b[4] || sid != binary.LittleEndian.Uint32(b[5:]) ||
			ln != binary.LittleEndian.Uint32(b[9:]) || np != int64(binary.LittleEndian.Uint32(b[13:])) || fl != binary.LittleEndian.Uint16(b[17:]) {
			return "gate-accessor-wrong:" + wname, "a header accessor disagrees with the header bytes"
		}
	}
	return "", ""
}

func lenField(b []byte) string {
	if len(b) < 13 {
		return "absent"
	}
	return fmt.Sprint(binary.LittleEndian.Uint32(b[9:13]))
}

func firstLine(s string) string {
	for i := 0; i < len(s); i++ {
		if s[i] == '\n' {
			return s[:i]
		}
	}
	return s
}

func checkC17(c *core.Ctx) {
	c.SetRule("gate half: all lengths 0..64 x {zeros, 0xFF, length field = len, len-1, len+1, len+2^k, every type byte} (exhaustive), random buffers (mostly < 300 bytes, some up to 70 KB) with the length field right or wrong, every event of generated histories truncated at every length and extended by 1..8 and 4096 bytes, each against IsValid of both event wrappers and the header accessors; streamer half: a gate-rejected packet {empty, 1 byte, 18 bytes, event truncated by 1, event extended by 1, random garbage} injected at every packet index of small histories in both pacings, then a clean attempt on the same streamer; distinct by buffer bytes / (history, index, kind); non-trivial iff len >= 13 (gate) or the injection was reached (streamer)")
	c.Assume("reference predicate: len >= 19 and le32(buf[9:13]) == len")
	if c.Replay != "" {
		c17Replay(c)
		return
	}
	c17Gate(c)
	c17Stream(c)
	c17ZeroWidthRows(c) // last: a decoder that runs away cannot be stopped, the shard ends there
}

// c17ZeroWidthRows: a rows packet that passes the validity test and whose rows
// are zero bytes wide (no column present, or a column count of zero) followed
// by a few more bytes. The decoder may refuse it or make what it likes of it;
// it must come back (in the streamer a decoder that never returns means a
// Stream call that never returns, with memory growing until the process dies).
func c17ZeroWidthRows(c *core.Ctx) {
	if c.Shard != 0 {
		return
	}
	n := 0
	for _, v2 := range []bool{false, true} {
		for _, id4 := range []bool{false, true} {
			for _, kind := range []ev.RowsKind{ev.KWrite, ev.KUpdate, ev.KDelete} {
				for _, ncols := range []int{0, 1, 3, 9} {
					for trail := 1; trail <= 4; trail++ {
						cfg := &ev.Cfg{RowsV2: v2, TableID4: id4, NumTypes: 40, ServerVersion: "5.7.44-log", GTIDPostHeader: 42, ServerID: 1}
						none := make([]bool, ncols)
						body := cfg.RowsBody(kind, 77, 1, nil, ncols, none, none, nil)
						for i := 0; i < trail; i++ {
							body = append(body, byte(0xa0+i))
						}
						evb := cfg.EventNext(1, cfg.RowsType(kind), 0, body, 4000)
						exact := make([]byte, len(evb))
						copy(exact, evb)
						cols := make([]c09Col, ncols)
						for i := range cols {
							cols[i] = c09Col{Type: ev.TLong}
						}
						if !refValid(exact) {
							c.Inconclusive("zero-width rows event does not pass the reference gate")
							return
						}
						pan, runaway, gaveUp := c17Bounded(func() {
							_, _ = replication.NewMysql56BinlogEvent(exact).Rows(c09Format(cfg), c09TableMap(cols))
						}, 192<<20)
						_ = pan // a panic is turned into a decode error by the streamer
						n++
						c.Case(core.Hash64(exact), true)
						if runaway || gaveUp {
							c.Violation("c17:decoder-runs-away:zero-width-rows", fmt.Sprintf("a gate-accepted %s rows event (v2=%v, %d columns, none present, %d trailing bytes, %d bytes in all) makes Rows() allocate without end instead of returning", c09KindNames[kind], v2, ncols, trail, len(exact)),
								map[string]interface{}{"kind": "zero-width-rows", "hex": hex.EncodeToString(exact), "v2": v2, "id4": id4, "ncols": ncols})
							return
						}
					}
				}
			}
		}
	}
	c.CellN("gate:zero-width-rows-events", int64(n))
}

// c17Bounded runs f and reports whether it came back before the heap grew by
// limit bytes (or maxWait passed).
func c17Bounded(f func(), limit uint64) (pan string, runaway, gaveUp bool) {
	var ms runtime.MemStats
	runtime.ReadMemStats(&ms)
	base := ms.HeapAlloc
	done := make(chan struct{})
	go func() {
		defer close(done)
		pan = core.Guard(f)
	}()
	tick := time.NewTicker(2 * time.Millisecond)
	defer tick.Stop()
	for i := 0; ; i++ {
		select {
		case <-done:
			return pan, false, false
		case <-tick.C:
			runtime.ReadMemStats(&ms)
			if ms.HeapAlloc > base+limit {
				return "", true, false
			}
			if time.Duration(i)*2*time.Millisecond > maxWait {
				return "", false, true
			}
		}
	}
}

func c17Report(c *core.Ctx, b []byte, src string) {
	key, msg := gateCase(b)
	if key != "" {
		hx := hex.EncodeToString(b)
		if len(hx) > 4000 {
			hx = hx[:4000]
		}
		c.Violation("c17:"+key, msg+" ("+src+")", map[string]interface{}{"kind": "gate", "hex": hex.EncodeToString(b), "len": len(b), "src": src})
	}
}

func c17Gate(c *core.Ctx) {
	// structured classes, exhaustive
	n := 0
	for l := 0; l <= 64; l++ {
		if !c.Mine(l) {
			continue
		}
		variants := [][]byte{make([]byte, l)}
		ff := make([]byte, l)
		for i := range ff {
			ff[i] = 0xff
		}
		variants = append(variants, ff)
		setLen := func(base []byte, v uint32) []byte {
			b := append([]byte(nil), base...)
			for i := 0; i < 4 && 9+i < len(b); i++ {
				b[9+i] = byte(v >> (8 * uint(i)))
			}
			return b
		}
		for _, base := range [][]byte{make([]byte, l), ff} {
			variants = append(variants, setLen(base, uint32(l)), setLen(base, uint32(l)-1), setLen(base, uint32(l)+1))
			for k := uint(0); k < 32; k++ {
				variants = append(variants, setLen(base, uint32(l)+1<<k), setLen(base, uint32(l)^(1<<k)))
			}
		}
		if l >= 5 {
			for t := 0; t < 256; t++ {
				b := setLen(make([]byte, l), uint32(l))
				b[4] = byte(t)
				variants = append(variants, b)
			}
		}
		for _, b := range variants {
			c17Report(c, b, "structured")
			n++
		}
		c.Bulk(int64(len(variants)), int64(len(variants)))
	}
	c.ExhaustiveDomain("gate: lengths 0..64 x structured classes (zeros, 0xFF, length field = len, len±1, len+2^k, len^2^k, all 256 type bytes)")
	c.CellN("gate:structured", int64(n))
	// buffers around 2^24 bytes (an event larger than one protocol packet
	// reaches the library whole: the driver joins the fragments)
	if c.Shard == 0 {
		for _, l := range []int{1<<24 - 2, 1<<24 - 1, 1 << 24, 1<<24 + 1, 17 << 20} {
			b := make([]byte, l)
			b[4] = 30
			binary.LittleEndian.PutUint32(b[9:], uint32(l))
			c17Report(c, b, "huge")
			binary.LittleEndian.PutUint32(b[9:], uint32(l-1))
			c17Report(c, b, "huge")
			c.Bulk(2, 2)
		}
		c.Cell("gate:buffers-around-2^24")
	}
	// random buffers
	nr := c.N(100000, 20000000)
	r := c.Rng(core.StrID("c17rand"), uint64(c.Shard))
	per := nr / maxInt(1, c.NShards)
	for i := 0; i < per; i++ {
		var l int
		switch r.Intn(20) {
		case 0:
			l = r.Intn(70000)
		case 1:
			l = 4000 + r.Intn(300)
		default:
			l = r.Intn(300)
		}
		b := r.Bytes(l)
		if l >= 13 {
			switch r.Intn(4) {
			case 0:
				binary.LittleEndian.PutUint32(b[9:], uint32(l))
			case 1:
				binary.LittleEndian.PutUint32(b[9:], uint32(l+1-2*r.Intn(2)))
			case 2:
				binary.LittleEndian.PutUint32(b[9:], uint32(l)|1<<uint(16+r.Intn(16)))
			}
		}
		c17Report(c, b, "random")
		if refValid(b) {
			c.Cell("gate:random-valid")
		} else {
			c.Cell("gate:random-invalid")
		}
		c.Case(core.Hash64(b), l >= 13)
	}
	// truncations / extensions of well-formed events
	nh := c.N(10, 300)
	for hidx := 0; hidx < nh; hidx++ {
		if !c.Mine(hidx) {
			continue
		}
		h, _ := stopHistory(c, 1000+hidx)
		l := h.Build()
		cnt := int64(0)
		for _, pk := range sim.Plan(l, hist.Pos{File: h.FirstFile, Off: 4}) {
			b := pk.Bytes
			for cut := 0; cut <= len(b); cut++ {
				c17Report(c, b[:cut], "truncated:"+pk.Kind)
				cnt++
			}
			for _, ext := range []int{1, 2, 3, 4, 5, 6, 7, 8, 4096} {
				c17Report(c, append(append([]byte(nil), b...), make([]byte, ext)...), "extended:"+pk.Kind)
				cnt++
			}
		}
		c.Bulk(cnt, cnt)
		c.CellN("gate:truncated-or-extended-events", cnt)
	}
}

func maxInt(a, b int) int {
	if a > b {
		return a
	}
	return b
}

type c17Scn struct {
	Hist int    `json:"hist"`
	At   int    `json:"at"`
	Kind string `json:"kind"`
	Lock bool   `json:"lock"`
}

var c17Kinds = []string{"empty", "one-byte", "18-bytes", "truncated-by-1", "extended-by-1", "random",
	"first-4", "first-5", "first-9", "first-12", "first-13", "first-14", "first-15", "first-16", "first-17", "first-19", "first-20",
	"gv-header-only", "gv-random-body", "gv-ff-body",
	"prefixed-ef00", "prefixed-ef01", "prefixed-1", "prefixed-2", "prefixed-4"}

// c17GateValid: kinds whose packet PASSES the validity test (full header,
// length field right) although its body is garbage. What is demanded of them:
// no panic; and if the stream ends with an error, nothing partial was delivered
// and the next attempt resumes at the last accepted commit boundary. (Garbage
// that happens to decode is an event like any other.)
func c17GateValid(kind string) bool { return strings.HasPrefix(kind, "gv-") }

func c17Payload(kind string, plan []sim.PlanPkt, at int, r *core.Rng) []byte {
	var evb []byte
	if at < len(plan) {
		evb = plan[at].Bytes
	} else if len(plan) > 0 {
		evb = plan[len(plan)-1].Bytes
	}
	switch kind {
	case "empty":
		return []byte{}
	case "one-byte":
		return []byte{byte(r.Intn(256))}
	case "18-bytes":
		b := r.Bytes(18)
		binary.LittleEndian.PutUint32(b[9:], 18)
		return b
	case "prefixed-ef00", "prefixed-ef01", "prefixed-1", "prefixed-2", "prefixed-4":
		// a well-formed event behind a few stray bytes (0xef 0x00/0x01 is what a
		// semi-synchronous master would put there): malformed at the front
		var pre []byte
		switch kind {
		case "prefixed-ef00":
			pre = []byte{0xef, 0x00}
		case "prefixed-ef01":
			pre = []byte{0xef, 0x01}
		case "prefixed-1":
			pre = r.Bytes(1)
		case "prefixed-2":
			pre = r.Bytes(2)
		default:
			pre = r.Bytes(4)
		}
		b := append(pre, evb...)
		for refValid(b) {
			// (the bytes that now sit in the length field, e.g. the server id,
			// happen to equal the new length: one more stray byte)
			b = append([]byte{0x5a}, b...)
		}
		return b
	case "truncated-by-1":
		return append([]byte(nil), evb[:len(evb)-1]...)
	case "first-4", "first-5", "first-9", "first-12", "first-13", "first-14", "first-15", "first-16", "first-17", "first-19", "first-20":
		// only the first n bytes of a real event, in a buffer of exactly that
		// capacity (every header field boundary, and just past the header)
		n, _ := strconv.Atoi(kind[len("first-"):])
		if n > len(evb)-1 {
			n = len(evb) - 1
		}
		b := make([]byte, n)
		copy(b, evb)
		return b
	case "extended-by-1":
		return append(append([]byte(nil), evb...), byte(r.Intn(256)))
	}
	if c17GateValid(kind) {
		types := []byte{2, 4, 15, 19, 23, 24, 25, 30, 31, 32, 33, 35, 16, 5, 13}
		n := 19
		switch kind {
		case "gv-random-body":
			n = 20 + r.Intn(80)
		case "gv-ff-body":
			n = 64
		}
		b := r.Bytes(n)
		if kind == "gv-ff-body" {
			for i := 19; i < n; i++ {
				b[i] = 0xff
			}
		}
		b[4] = types[r.Intn(len(types))]
		binary.LittleEndian.PutUint32(b[9:], uint32(n))
		binary.LittleEndian.PutUint32(b[13:], hostileNext)
		return b
	}
	for {
		b := r.Bytes(19 + r.Intn(80))
		b[4] = []byte{2, 4, 16, 19, 30, 31, 15, 33, 27, 27, 3, 34, 35, 0}[r.Intn(14)]
		if !refValid(b) {
			// hostile next_position
			binary.LittleEndian.PutUint32(b[13:], hostileNext)
			return b
		}
	}
}

func c17Stream(c *core.Ctx) {
	nh := c.N(20, 600)
	n := 0
	for hidx := 0; hidx < nh; hidx++ {
		h, tables := stopHistory(c, 2000+hidx)
		l := h.Build()
		start := hist.Pos{File: h.FirstFile, Off: 4}
		plan := sim.Plan(l, start)
		for at := 0; at <= len(plan); at++ {
			for _, kind := range c17Kinds {
				for _, lock := range []bool{false, true} {
					n++
					if !c.Mine(n) {
						continue
					}
					c17StreamRun(c, c17Scn{Hist: 2000 + hidx, At: at, Kind: kind, Lock: lock}, h, l, tables)
				}
			}
		}
	}
}

func c17StreamRun(c *core.Ctx, scn c17Scn, h *hist.History, l *hist.Layout, tables []*hist.Table) {
	c.Log("C17 %+v", scn)
	start := hist.Pos{File: h.FirstFile, Off: 4}
	exp := hist.Expect(h, l, start)
	plan := sim.Plan(l, start)
	r := c.Rng(core.StrID("c17stream"), uint64(scn.Hist), uint64(scn.At), core.StrID(scn.Kind))
	payload := c17Payload(scn.Kind, plan, scn.At, r)
	if refValid(payload) != c17GateValid(scn.Kind) {
		c.Inconclusive(fmt.Sprintf("generated payload is on the wrong side of the gate; skipped (%+v, %d bytes)", scn, len(payload)))
		return
	}
	s, err := run.NewSession(l, tables, 1717, start, true)
	if err != nil {
		c.Inconclusive("cannot start master: " + err.Error())
		return
	}
	defer s.Close()
	for _, g := range run.LibGoroutines(nil) {
		s.Abandon(g.ID)
	}
	reached := false
	scr := &sim.Script{End: sim.EndEOF, LockStep: scn.Lock, Faults: map[int]sim.Fault{scn.At: {Kind: sim.FInject, Payload: payload}}}
	s.M.SetScripts(scr)
	res := s.Attempt(run.NoFaults(), nil, maxWait)
	if res.Conn != nil {
		reached = len(res.Conn.Snapshot().FaultDone) > 0
	}
	c.Case(core.HashAdd(layoutHash(l), []byte(fmt.Sprint(scn))), reached)
	wit := func(extra map[string]interface{}) map[string]interface{} {
		if extra == nil {
			extra = map[string]interface{}{}
		}
		extra["kind"] = "stream"
		extra["payload_hex"] = hex.EncodeToString(payload)
		extra["stream_err"] = errStr(res.Err)
		return witnessOf(scn, h, s, extra)
	}
	if res.Verdict != run.Returned {
		c.Cell("stream-not-returned(reported under C05)")
		return
	}
	if !reached {
		c.Cell("stream:not-reached")
		return
	}
	c.Cell("stream:inject:" + scn.Kind)
	if res.Panic != "" {
		c.Violation("c17:stream-panic:"+scn.Kind, fmt.Sprintf("%+v: Stream panicked on a garbage packet: %s", scn, res.Panic), wit(nil))
		return
	}
	if res.Err == nil && c17GateValid(scn.Kind) {
		c.Cell("stream:gate-valid-garbage-decoded-as-an-event")
		return
	}
	if res.Err == nil {
		c.Violation("c17:stream-no-error:"+scn.Kind, fmt.Sprintf("%+v: a gate-rejected packet did not end the stream with an error", scn), wit(nil))
		return
	}
	// deliveries so far must be a prefix of the model (no partial transaction)
	if len(res.Delivered) > len(exp) {
		c.Violation("c17:extra-delivery", fmt.Sprintf("%+v: more deliveries than transactions", scn), wit(nil))
		return
	}
	if d := run.CompareAll(exp[:len(res.Delivered)], res.Delivered, true); d != nil {
		c.Violation("c17:partial-or-wrong-delivery:"+d.Kind, fmt.Sprintf("%+v: %s", scn, d), wit(nil))
		return
	}
	// how many transactions were completely sent before the injected packet
	before := 0
	for i := 0; i < scn.At && i < len(plan); i++ {
		if plan[i].CommitOf >= 0 {
			before++
		}
	}
	if len(res.Delivered) != before {
		c.Violation("c17:delivery-count", fmt.Sprintf("%+v: %d transactions were delivered, %d were complete before the rejected packet", scn, len(res.Delivered), before), wit(nil))
		return
	}
	s.CallError(maxWait)
	// second attempt: must resume at the last accepted commit boundary
	last := len(res.Delivered) - 1
	valid := validResume(h, l, exp, start, last)
	s.M.SetScripts(&sim.Script{End: sim.EndEOF})
	res2 := s.Attempt(run.NoFaults(), nil, maxWait)
	if res2.Verdict != run.Returned {
		c.Cell("stream-not-returned(reported under C05)")
		return
	}
	if res2.Dump == nil {
		c.Violation("c17:no-second-dump", fmt.Sprintf("%+v: the following attempt sent no dump request", scn), wit(nil))
		return
	}
	got := hist.Pos{File: res2.Dump.File, Off: int64(res2.Dump.Pos)}
	if !posIn(got, valid) {
		c.Violation("c17:resume-position:"+scn.Kind, fmt.Sprintf("%+v: next attempt requested %v, valid resume points after delivery %d are %v", scn, got, last, valid), wit(nil))
		return
	}
	if d := run.CompareAll(exp[len(res.Delivered):], res2.Delivered, true); d != nil {
		c.Violation("c17:resume-deliveries:"+d.Kind, fmt.Sprintf("%+v: after the rejected packet the resumed stream differs: %s", scn, d), wit(nil))
		return
	}
	if c.WantSample() {
		c.Sample(map[string]interface{}{"scenario": scn, "payload_len": len(payload), "stream_err": errStr(res.Err), "delivered_before": before, "resumed_at": got})
	}
}

func c17Replay(c *core.Ctx) {
	var w struct {
		Witness struct {
			Kind     string `json:"kind"`
			Hex      string `json:"hex"`
			Scenario c17Scn `json:"scenario"`
		} `json:"witness"`
	}
	if err := readWitness(c.Replay, &w); err != nil {
		c.Inconclusive("cannot read witness: " + err.Error())
		return
	}
	if w.Witness.Kind == "gate" {
		b, _ := hex.DecodeString(w.Witness.Hex)
		c17Report(c, b, "replay")
		c.Case(core.Hash64(b), true)
		return
	}
	scn := w.Witness.Scenario
	h, tables := stopHistory(c, scn.Hist)
	c17StreamRun(c, scn, h, h.Build(), tables)
}
