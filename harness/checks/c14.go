package checks

import (
	"bytes"
	"encoding/hex"
	"encoding/json"
	"fmt"
	"os"
	"sort"
	"strings"

	"github.com/Breeze0806/gobinlog/replication"

	"verifharness/core"
	"verifharness/enc/bjson"
)

// C14 "JSON columns decode to the document the master stored".
//
// Documents come from a fixed list of special documents followed by a recursive
// random generator; each is serialised by the independent writer enc/bjson in
// the default (small unless it does not fit) and in the all-large layout, fed
// through replication.CellBytes(TypeJSON, metadata 1..4) inside a buffer with
// random bytes around it, and the printed text is parsed back into a tree that
// must equal the document.

func init() { core.Register("C14", c14) }

type c14Special struct {
	name  string
	build func(r *core.Rng) *bjson.Node
}

func c14Str(n int, fill byte) *bjson.Node {
	return &bjson.Node{Kind: bjson.KString, S: bytes.Repeat([]byte{fill}, n)}
}
func c14Arr(v ...*bjson.Node) *bjson.Node { return &bjson.Node{Kind: bjson.KArray, Vals: v} }
func c14Obj(kv ...interface{}) *bjson.Node {
	n := &bjson.Node{Kind: bjson.KObject}
	for i := 0; i+1 < len(kv); i += 2 {
		n.Keys = append(n.Keys, []byte(kv[i].(string)))
		n.Vals = append(n.Vals, kv[i+1].(*bjson.Node))
	}
	return n
}

// c14KeyedObj makes an object over vals with same-length numbered keys (so the
// stored order is the numeric order).
func c14KeyedObj(prefix string, vals []*bjson.Node) *bjson.Node {
	n := &bjson.Node{Kind: bjson.KObject, Vals: vals}
	for i := range vals {
		n.Keys = append(n.Keys, []byte(fmt.Sprintf("%s%06d", prefix, i)))
	}
	return n
}

func c14Times() []*bjson.Node {
	type t struct{ h, m, s, us int }
	base := []t{{0, 0, 0, 500000}, {0, 0, 0, 1}, {0, 0, 1, 0}, {0, 1, 0, 0}, {1, 0, 0, 0}, {23, 59, 59, 999999}, {23, 24, 25, 120000},
		{24, 0, 0, 0}, {100, 0, 0, 0}, {511, 59, 59, 0}, {512, 0, 0, 0}, {838, 59, 59, 0}, {838, 0, 0, 0}, {837, 59, 59, 999999}, {0, 0, 0, 999999}, {12, 34, 56, 0}}
	out := []*bjson.Node{{Kind: bjson.KTime}}
	for _, b := range base {
		for _, neg := range []bool{false, true} {
			out = append(out, &bjson.Node{Kind: bjson.KTime, H: b.h, Mi: b.m, Sec: b.s, Micro: b.us, Neg: neg})
		}
	}
	return out
}

func c14Dates() []*bjson.Node {
	var out []*bjson.Node
	for _, d := range [][3]int{{0, 0, 0}, {9999, 12, 31}, {2015, 1, 15}, {1000, 1, 1}, {1, 1, 1}, {0, 1, 1}, {2024, 2, 29}, {2000, 0, 0}, {2000, 12, 0}, {1969, 12, 31}, {1970, 1, 1}, {2038, 1, 19}} {
		out = append(out, &bjson.Node{Kind: bjson.KDate, Y: d[0], Mo: d[1], D: d[2]})
		for _, t := range [][4]int{{0, 0, 0, 0}, {23, 59, 59, 999999}, {23, 24, 25, 0}, {0, 0, 0, 1}, {12, 0, 0, 500000}, {16, 31, 32, 0}} {
			out = append(out, &bjson.Node{Kind: bjson.KDateTime, Y: d[0], Mo: d[1], D: d[2], H: t[0], Mi: t[1], Sec: t[2], Micro: t[3]})
		}
	}
	return out
}

func c14Nest(depth int, object bool, alternate bool, extra bool) *bjson.Node {
	var cur *bjson.Node = &bjson.Node{Kind: bjson.KInt, I: 7}
	for i := 0; i < depth; i++ {
		isObj := object
		if alternate {
			isObj = i%2 == 0
		}
		var vals []*bjson.Node
		if extra {
			vals = append(vals, &bjson.Node{Kind: bjson.KInt, I: int64(100000 + i)})
		}
		vals = append(vals, cur)
		if extra {
			vals = append(vals, &bjson.Node{Kind: bjson.KString, S: []byte(fmt.Sprintf("level %d", i))})
		}
		if isObj {
			cur = c14KeyedObj("k", vals)
		} else {
			cur = c14Arr(vals...)
		}
	}
	return cur
}

func c14Specials() []c14Special {
	var sp []c14Special
	add := func(name string, f func(r *core.Rng) *bjson.Node) { sp = append(sp, c14Special{name, f}) }
	fixed := func(name string, n *bjson.Node) { add(name, func(*core.Rng) *bjson.Node { return n }) }

	// ---- integers at every width boundary
	for _, n := range bjson.BoundaryInts() {
		fixed("int-top", n)
	}
	fixed("int-array", c14Arr(bjson.BoundaryInts()...))
	fixed("int-object", c14KeyedObj("i", bjson.BoundaryInts()))
	fixed("int-nested", c14Arr(c14KeyedObj("i", bjson.BoundaryInts()), c14Arr(bjson.BoundaryInts()...), c14Obj("a", c14Arr(bjson.BoundaryInts()...))))
	// ---- doubles
	for _, n := range bjson.BoundaryDoubles() {
		fixed("double-top", n)
	}
	fixed("double-array", c14Arr(bjson.BoundaryDoubles()...))
	fixed("double-object", c14KeyedObj("d", bjson.BoundaryDoubles()))
	// ---- literals
	lits := []*bjson.Node{{Kind: bjson.KNull}, {Kind: bjson.KTrue}, {Kind: bjson.KFalse}}
	for _, n := range lits {
		fixed("literal-top", n)
	}
	fixed("literal-array", c14Arr(lits...))
	fixed("literal-object", c14KeyedObj("l", lits))
	// ---- strings with 1-, 2-, 3- and 4-byte length prefixes
	for _, l := range []int{0, 1, 2, 126, 127, 128, 129, 255, 256, 16383, 16384, 65535, 65536} {
		l := l
		fixed(fmt.Sprintf("string-top-%d", l), c14Str(l, 's'))
		fixed(fmt.Sprintf("string-array-%d", l), c14Arr(c14Str(l, 'a'), c14Str(3, 'z')))
		fixed(fmt.Sprintf("string-object-%d", l), c14Obj("k", c14Str(l, 'o'), "zz", c14Str(3, 'z')))
	}
	for _, l := range []int{2097151, 2097152} {
		fixed(fmt.Sprintf("string-top-%d", l), c14Str(l, 'S'))
	}
	fixed("string-array-2097152", c14Arr(&bjson.Node{Kind: bjson.KInt, I: 1}, c14Str(2097152, 'A'), c14Str(1, 'z')))
	fixed("string-specials", c14Arr(
		&bjson.Node{Kind: bjson.KString, S: []byte(`back\slash \\ \n A`)},
		&bjson.Node{Kind: bjson.KString, S: []byte("),JSON_ARRAY(1,CAST(")},
		&bjson.Node{Kind: bjson.KString, S: []byte("null")},
		&bjson.Node{Kind: bjson.KString, S: []byte("12")},
		&bjson.Node{Kind: bjson.KString, S: []byte(" AS JSON)")},
		&bjson.Node{Kind: bjson.KString, S: []byte("nul\x00byte \x01\x1f\x7f")},
		&bjson.Node{Kind: bjson.KString, S: []byte("héllo 中文 \U0001F600 `tick`")},
		&bjson.Node{Kind: bjson.KString, S: []byte(",")},
		&bjson.Node{Kind: bjson.KString, S: []byte(")")}))
	fixed("key-specials", func() *bjson.Node {
		keys := []string{"", ",", ")", "a,b", "k)", "null", "中文", `b\s`, "JSON_OBJECT(", " ", "a b", "\x00", strings.Repeat("K", 255), strings.Repeat("L", 256), strings.Repeat("M", 65535)}
		kb := make([][]byte, len(keys))
		for i, k := range keys {
			kb[i] = []byte(k)
		}
		bjson.SortKeys(kb)
		n := &bjson.Node{Kind: bjson.KObject, Keys: kb}
		for i := range kb {
			n.Vals = append(n.Vals, &bjson.Node{Kind: bjson.KInt, I: int64(i)})
		}
		return n
	}())
	// ---- empties
	fixed("empty-object", c14Obj())
	fixed("empty-array", c14Arr())
	fixed("empty-nested", c14Arr(c14Arr(), c14Obj(), c14Str(0, 0), &bjson.Node{Kind: bjson.KNull}, c14Obj("", c14Obj()), c14Obj("a", c14Arr(), "b", c14Str(0, 0))))
	fixed("empty-key", c14Obj("", c14Obj("", c14Arr(c14Obj("", &bjson.Node{Kind: bjson.KTrue})))))
	// ---- the large storage format
	add("big-array-70000-mixed", func(r *core.Rng) *bjson.Node {
		n := &bjson.Node{Kind: bjson.KArray, Vals: make([]*bjson.Node, 70000)}
		for i := range n.Vals {
			switch i % 7 {
			case 0:
				n.Vals[i] = &bjson.Node{Kind: bjson.KInt, I: int64(i%60000) - 30000}
			case 1:
				n.Vals[i] = &bjson.Node{Kind: bjson.KInt, I: int64(i) * 30000}
			case 2:
				n.Vals[i] = &bjson.Node{Kind: bjson.KString, S: []byte(fmt.Sprintf("s%d", i))}
			case 3:
				n.Vals[i] = &bjson.Node{Kind: bjson.Kind(r.Intn(3))}
			case 4:
				n.Vals[i] = &bjson.Node{Kind: bjson.KUint, U: uint64(i) * 61000}
			case 5:
				n.Vals[i] = c14Arr(&bjson.Node{Kind: bjson.KInt, I: int64(i)}, &bjson.Node{Kind: bjson.KInt, I: int64(i) + 70000})
			default:
				n.Vals[i] = bjson.GenDouble(r)
			}
		}
		return n
	})
	add("big-array-70000-int32", func(r *core.Rng) *bjson.Node {
		n := &bjson.Node{Kind: bjson.KArray, Vals: make([]*bjson.Node, 70000)}
		for i := range n.Vals {
			n.Vals[i] = &bjson.Node{Kind: bjson.KInt, I: int64(int32(r.U32()))}
		}
		return n
	})
	add("big-object-64k-of-keys", func(r *core.Rng) *bjson.Node {
		vals := make([]*bjson.Node, 3000)
		for i := range vals {
			vals[i] = bjson.GenInt(r)
		}
		return c14KeyedObj("a-key-of-thirty-bytes-in-all-", vals)
	})
	add("big-object-70000-keys", func(r *core.Rng) *bjson.Node {
		vals := make([]*bjson.Node, 70000)
		for i := range vals {
			switch i % 4 {
			case 0:
				vals[i] = &bjson.Node{Kind: bjson.KInt, I: int64(i)}
			case 1:
				vals[i] = &bjson.Node{Kind: bjson.KString, S: []byte(fmt.Sprintf("v%d", i))}
			case 2:
				vals[i] = bjson.GenTemporal(r)
			default:
				vals[i] = &bjson.Node{Kind: bjson.KUint, U: uint64(i) * 65536}
			}
		}
		return c14KeyedObj("", vals)
	})
	add("large-parent-small-children", func(r *core.Rng) *bjson.Node {
		vals := make([]*bjson.Node, 200)
		for i := range vals {
			a := &bjson.Node{Kind: bjson.KArray}
			for j := 0; j < 100; j++ {
				a.Vals = append(a.Vals, &bjson.Node{Kind: bjson.KString, S: []byte(fmt.Sprintf("%02d%03d", j, i))}, bjson.GenInt(r))
			}
			vals[i] = a
		}
		return c14KeyedObj("child", vals)
	})
	// exactly at the 64 KB threshold: [string] has small size 4+3+3+L
	fixed("threshold-array-65535", c14Arr(c14Str(65525, 't')))
	fixed("threshold-array-65536", c14Arr(c14Str(65526, 'T')))
	fixed("threshold-object-65535", c14Obj("k", c14Str(65535-4-4-3-1-3, 't')))
	fixed("threshold-object-65536", c14Obj("k", c14Str(65536-4-4-3-1-3, 'T')))
	add("small-array-offsets-near-64k", func(r *core.Rng) *bjson.Node {
		n := &bjson.Node{Kind: bjson.KArray}
		for i := 0; i < 63; i++ {
			n.Vals = append(n.Vals, c14Str(1000, byte('a'+i%26)))
		}
		n.Vals = append(n.Vals, &bjson.Node{Kind: bjson.KInt, I: 123456}, bjson.GenTemporal(r), c14Str(5, 'e'))
		return n
	})
	fixed("large-child-in-large-parent", c14Obj("n", &bjson.Node{Kind: bjson.KInt, I: 100000}, "big", c14Arr(c14Str(70000, 'b'), &bjson.Node{Kind: bjson.KInt, I: 100000})))
	// ---- deep nesting (MySQL allows 100 levels)
	fixed("deep-array-100", c14Nest(100, false, false, false))
	fixed("deep-object-100", c14Nest(100, true, false, false))
	fixed("deep-alternating-100", c14Nest(100, false, true, true))
	fixed("deep-array-60-siblings", c14Nest(60, false, false, true))
	// ---- opaque temporals
	for _, n := range c14Times() {
		fixed("time-top", n)
	}
	fixed("time-array", c14Arr(c14Times()...))
	fixed("time-object", c14KeyedObj("t", c14Times()))
	for _, n := range c14Dates() {
		fixed("date-top", n)
	}
	fixed("date-array", c14Arr(c14Dates()...))
	fixed("date-object", c14KeyedObj("d", c14Dates()))
	// ---- opaque decimals: every (p,s), every digit class
	for p := 1; p <= 65; p++ {
		p := p
		add(fmt.Sprintf("decimal-p%d", p), func(r *core.Rng) *bjson.Node {
			n := &bjson.Node{Kind: bjson.KArray}
			for s := 0; s <= p && s <= 30; s++ {
				for cl := 0; cl < bjson.DecimalClasses; cl++ {
					n.Vals = append(n.Vals, bjson.MakeDecimal(r, p, s, cl, (cl+s)%2 == 1))
				}
			}
			return n
		})
	}
	dec := func(p, s int, id, fd string, neg bool) *bjson.Node {
		return &bjson.Node{Kind: bjson.KDecimal, P: p, Sc: s, IntDigits: id, FracDigits: fd, Neg: neg}
	}
	for _, n := range []*bjson.Node{
		dec(1, 0, "0", "", false), dec(1, 0, "5", "", false), dec(1, 1, "", "0", false), dec(1, 1, "", "5", true),
		dec(9, 0, "000000005", "", false), dec(9, 0, "123456789", "", true), dec(10, 0, "0000000005", "", false),
		dec(10, 0, "0000000000", "", false), dec(18, 0, "000000000000000000", "", false), dec(18, 0, "000000000000000042", "", true),
		dec(13, 4, "123456789", "1234", false), dec(13, 4, "000000001", "0000", false), dec(20, 2, "000000000000000001", "00", false),
		dec(20, 2, "100000000000000000", "00", true), dec(30, 30, "", "000000000000000000000000000001", false),
		dec(65, 30, strings.Repeat("9", 35), strings.Repeat("9", 30), true), dec(65, 0, strings.Repeat("0", 64)+"1", "", false),
		dec(65, 0, strings.Repeat("0", 65), "", false), dec(12, 2, "0000000010", "50", false), dec(11, 2, "000000000", "05", true),
	} {
		fixed("decimal-top", n)
	}
	return sp
}

// c14NonTrivial: at least one container with two or more members, or an opaque scalar.
func c14NonTrivial(n *bjson.Node) bool {
	switch n.Kind {
	case bjson.KDate, bjson.KTime, bjson.KDateTime, bjson.KDecimal:
		return true
	case bjson.KObject, bjson.KArray:
		if len(n.Vals) >= 2 {
			return true
		}
		for _, v := range n.Vals {
			if c14NonTrivial(v) {
				return true
			}
		}
	}
	return false
}

func c14Depth(n *bjson.Node) int {
	if n.Kind != bjson.KObject && n.Kind != bjson.KArray {
		return 0
	}
	d := 0
	for _, v := range n.Vals {
		if x := c14Depth(v); x > d {
			d = x
		}
	}
	return d + 1
}

type c14Witness struct {
	Scenario   int         `json:"scenario"`
	Name       string      `json:"name"`
	ForceLarge bool        `json:"force_large"`
	Metadata   int         `json:"metadata"`
	PreHex     string      `json:"pre_hex"`
	SufHex     string      `json:"suf_hex"`
	DocHex     string      `json:"doc_hex"`
	Node       *bjson.Node `json:"node"`
	Got        string      `json:"got"`
	Err        string      `json:"err,omitempty"`
	Mismatches []string    `json:"mismatches,omitempty"`
}

type c14Finding struct {
	key, msg string
	detail   []string
}

type c14Runner struct {
	c     *core.Ctx
	st    bjson.Stats
	cells map[string]int64
	calls int64
}

func (x *c14Runner) cell(name string) { x.cells[name]++ }

func c14ErrClass(err error) string {
	s := err.Error()
	switch {
	case strings.Contains(s, "not enough data"):
		return "not-enough-data"
	case strings.Contains(s, "unknown object type"):
		return "unknown-type"
	case strings.Contains(s, "opaque type"):
		return "opaque-unsupported"
	case strings.Contains(s, "unknown literal"):
		return "unknown-literal"
	case strings.Contains(s, "unsupported blob"):
		return "metadata"
	}
	return "other"
}

func c14Format(p bjson.Placement) string {
	switch {
	case p.Top:
		return "top"
	case p.ParentLarge:
		return "large"
	}
	return "small"
}

func c14DecimalClass(m *bjson.Mismatch) string {
	g := m.Got
	if g == nil || g.Kind != bjson.KDecimal {
		return "kind"
	}
	if m.What == "precision-scale" {
		return "precision-scale"
	}
	raw := g.Raw
	switch {
	case raw == "":
		return "empty-text"
	case strings.ContainsAny(raw, " \t"):
		return "space-padded"
	}
	if strings.HasPrefix(raw, "-") != m.Want.Neg {
		return "sign"
	}
	body := strings.TrimPrefix(raw, "-")
	ip, fp := body, ""
	if k := strings.IndexByte(body, '.'); k >= 0 {
		ip, fp = body[:k], body[k+1:]
	}
	switch {
	case len(fp) != m.Want.Sc || (m.Want.Sc > 0) != strings.Contains(body, "."):
		return "fraction-width"
	case ip == "":
		return "integer-part-missing"
	case len(ip) > 1 && ip[0] == '0':
		return "leading-zeros"
	}
	return "digits"
}

// c14Key derives the stable violation key of one mismatch.
func c14Key(doc *bjson.Node, forceLarge bool, m *bjson.Mismatch) string {
	w := m.Want
	suffix := ""
	if m.What == "kind" {
		suffix = ":kind"
	}
	if m.What == "key" {
		pl, err := bjson.Place(doc, forceLarge, m.Idx[:len(m.Idx)-1])
		if err != nil {
			return "json-object-key"
		}
		return "json-" + bjson.TypeName(pl.Type) + "-key"
	}
	switch w.Kind {
	case bjson.KTime:
		if w.Neg {
			return "json-opaque-time-negative" + suffix
		}
		return "json-opaque-time" + suffix
	case bjson.KDate:
		return "json-opaque-date" + suffix
	case bjson.KDateTime:
		return "json-opaque-datetime" + suffix
	case bjson.KDecimal:
		return "json-opaque-decimal:" + c14DecimalClass(m)
	case bjson.KDouble:
		return "json-double" + suffix
	}
	pl, err := bjson.Place(doc, forceLarge, m.Idx)
	if err != nil {
		return "json-" + w.Kind.String() + suffix
	}
	switch w.Kind {
	case bjson.KString:
		return fmt.Sprintf("json-string-varlen%d%s", pl.VarlenWidth, suffix)
	case bjson.KObject, bjson.KArray:
		return "json-" + bjson.TypeName(pl.Type) + "-" + m.What
	case bjson.KNull, bjson.KTrue, bjson.KFalse:
		return "json-literal-" + c14Format(pl) + suffix
	}
	// integers
	if pl.Top {
		return "json-" + bjson.TypeName(pl.Type) + "-top" + suffix
	}
	where := "offset"
	if pl.Inlined {
		where = "inline"
	}
	return "json-" + bjson.TypeName(pl.Type) + "-" + where + "-" + c14Format(pl) + suffix
}

func c14Clip(b []byte, n int) string {
	if len(b) > n {
		return fmt.Sprintf("%s…(%d bytes)", b[:n], len(b))
	}
	return string(b)
}

// one runs one (document encoding, metadata, surrounding bytes) through the
// library and returns the findings (one per distinct key) and the printed text.
func (x *c14Runner) one(doc *bjson.Node, enc []byte, forceLarge bool, meta int, pre, suf []byte) ([]c14Finding, []byte, string) {
	buf := make([]byte, 0, len(pre)+meta+len(enc)+len(suf))
	buf = append(buf, pre...)
	l := len(enc)
	for i := 0; i < meta; i++ {
		buf = append(buf, byte(l>>(8*uint(i))))
	}
	buf = append(buf, enc...)
	buf = append(buf, suf...)
	pos := len(pre)

	var out []byte
	var n int
	var err error
	x.calls++
	perr := core.Guard(func() {
		out, n, err = replication.CellBytes(buf, pos, replication.TypeJSON, uint16(meta), false)
	})
	if perr == "" && err == nil {
		heldPush(replication.TypeJSON, uint16(meta), out)
	}
	mode := "default"
	if forceLarge {
		mode = "all-large"
	}
	ctx := fmt.Sprintf("doc type byte %d, %d bytes, layout %s, metadata %d", enc[0], len(enc), mode, meta)
	if perr != "" {
		first := perr
		if k := strings.IndexByte(first, '\n'); k > 0 {
			first = first[:k]
		}
		return []c14Finding{{key: "json-panic", msg: "CellBytes panicked on a valid document (" + ctx + "): " + first, detail: []string{perr}}}, nil, perr
	}
	if err != nil {
		es := err.Error()
		// the library's message embeds the whole input; keep its tail
		if len(es) > 300 {
			es = "…" + es[len(es)-300:]
		}
		return []c14Finding{{key: "json-error-" + c14ErrClass(err), msg: "CellBytes rejected a valid document (" + ctx + "): " + es}}, nil, es
	}
	var fs []c14Finding
	if n != meta+len(enc) {
		fs = append(fs, c14Finding{key: "json-consumed-length", msg: fmt.Sprintf("consumed %d bytes, want %d (%s)", n, meta+len(enc), ctx)})
	}
	if out == nil {
		fs = append(fs, c14Finding{key: "json-nil-result", msg: "nil text without error (" + ctx + ")"})
		return fs, out, ""
	}
	got, perr2 := bjson.ParseLibText(out)
	if perr2 != nil {
		fs = append(fs, c14Finding{key: "json-parse-lib-text", msg: fmt.Sprintf("printed text is not in the output grammar: %v; text %q (%s)", perr2, c14Clip(out, 200), ctx)})
		return fs, out, ""
	}
	ms := bjson.Diff(doc, got, 64)
	seen := map[string]int{}
	for i := range ms {
		k := c14Key(doc, forceLarge, &ms[i])
		line := ms[i].Path + ": " + ms[i].Reason
		if j, ok := seen[k]; ok {
			if len(fs[j].detail) < 8 {
				fs[j].detail = append(fs[j].detail, line)
			}
			continue
		}
		seen[k] = len(fs)
		fs = append(fs, c14Finding{key: k, msg: fmt.Sprintf("at %s (%s)", line, ctx), detail: []string{line}})
	}
	return fs, out, ""
}

func (x *c14Runner) report(i int, name string, doc *bjson.Node, enc []byte, forceLarge bool, meta int, pre, suf []byte, fs []c14Finding, out []byte, errs string) {
	for _, f := range fs {
		var w interface{}
		if x.c.KeyCount(f.key) == 0 {
			w = &c14Witness{Scenario: i, Name: name, ForceLarge: forceLarge, Metadata: meta, PreHex: hex.EncodeToString(pre), SufHex: hex.EncodeToString(suf),
				DocHex: hex.EncodeToString(enc), Node: doc, Got: c14Clip(out, 4000), Err: errs, Mismatches: f.detail}
		}
		x.c.Violation(f.key, f.msg, w)
	}
}

// doc evaluates one document in both layouts and every legal prefix width.
func (x *c14Runner) doc(i int, name string, doc *bjson.Node, r *core.Rng) {
	c := x.c
	encS, err := bjson.EncodeStats(doc, false, &x.st)
	if err != nil {
		c.Inconclusive(fmt.Sprintf("scenario %d (%s): writer refused the document: %v", i, name, err))
		return
	}
	encL, err := bjson.EncodeStats(doc, true, &x.st)
	if err != nil {
		c.Inconclusive(fmt.Sprintf("scenario %d (%s): writer refused the document (large): %v", i, name, err))
		return
	}
	c.Case(core.Hash64(encS), c14NonTrivial(doc))
	d := c14Depth(doc)
	switch {
	case d == 0:
		x.cell("doc:top-level-scalar")
	case d <= 6:
		x.cell(fmt.Sprintf("doc:depth-%d", d))
	default:
		x.cell("doc:depth-over-6")
	}
	if encS[0] < 4 && encS[0]&1 == 1 {
		x.cell("doc:default-layout-needs-large-top")
	}
	var sampleOut []byte
	for mi, enc := range [][]byte{encS, encL} {
		forceLarge := mi == 1
		if forceLarge && bytes.Equal(encS, encL) {
			x.cell("mode:all-large-identical-skipped")
			continue
		}
		if forceLarge {
			x.cell("mode:all-large")
		} else {
			x.cell("mode:default")
		}
		for meta := 1; meta <= 4; meta++ {
			if meta < 4 && len(enc) >= 1<<(8*uint(meta)) {
				continue
			}
			x.cell(fmt.Sprintf("prefix-width:%d", meta))
			pre := r.Bytes(r.Intn(17))
			suf := r.Bytes(r.Intn(17))
			fs, out, errs := x.one(doc, enc, forceLarge, meta, pre, suf)
			if sampleOut == nil {
				sampleOut = out
			}
			if len(fs) > 0 {
				x.report(i, name, doc, enc, forceLarge, meta, pre, suf, fs, out, errs)
			}
		}
	}
	if i%97 == 3 && len(encS) < 400 && c.WantSample() {
		c.Sample(map[string]interface{}{"scenario": i, "name": name, "doc_hex": hex.EncodeToString(encS), "printed": string(sampleOut),
			"expected_grammar_form": string(bjson.Render(doc))})
	}
}

func (x *c14Runner) flush() {
	for i, n := range x.st.N {
		if n > 0 {
			x.c.CellN("enc:"+bjson.StatNames[i], n)
		}
	}
	names := make([]string, 0, len(x.cells))
	for k := range x.cells {
		names = append(names, k)
	}
	sort.Strings(names)
	for _, k := range names {
		x.c.CellN(k, x.cells[k])
	}
	x.c.Note("cellbytes_calls", x.calls)
}

func c14Replay(c *core.Ctx, x *c14Runner) {
	b, err := os.ReadFile(c.Replay)
	if err != nil {
		c.Inconclusive("replay: " + err.Error())
		return
	}
	var f struct {
		Key     string     `json:"key"`
		Witness c14Witness `json:"witness"`
	}
	if err := json.Unmarshal(b, &f); err != nil {
		c.Inconclusive("replay: bad witness file: " + err.Error())
		return
	}
	w := f.Witness
	enc, e1 := hex.DecodeString(w.DocHex)
	pre, e2 := hex.DecodeString(w.PreHex)
	suf, e3 := hex.DecodeString(w.SufHex)
	if e1 != nil || e2 != nil || e3 != nil || w.Node == nil || len(enc) == 0 || w.Metadata < 1 || w.Metadata > 4 {
		c.Inconclusive("replay: witness lacks the document, its bytes or the metadata")
		return
	}
	re, err := bjson.Encode(w.Node, w.ForceLarge)
	if err != nil || !bytes.Equal(re, enc) {
		c.Inconclusive(fmt.Sprintf("replay: the logical document no longer serialises to the recorded bytes (err %v)", err))
		return
	}
	c.Case(core.Hash64(enc), c14NonTrivial(w.Node))
	fs, out, errs := x.one(w.Node, enc, w.ForceLarge, w.Metadata, pre, suf)
	x.report(w.Scenario, w.Name, w.Node, enc, w.ForceLarge, w.Metadata, pre, suf, fs, out, errs)
	c.Note("replay_findings", int64(len(fs)))
}

func c14(c *core.Ctx) {
	c.SetRule("Scenario list = fixed special documents (integers at every width boundary in both DOM signednesses, doubles, literals, strings with 1-4 byte " +
		"length prefixes, empty containers/keys/strings, a 70 000-element array, objects with > 64 KB of keys and with 70 000 keys, documents exactly at the " +
		"64 KB small/large threshold, 100-level nesting, opaque TIME of both signs up to 838 hours, DATE/DATETIME incl. the zero date, opaque DECIMAL over all " +
		"1 580 (p,s) pairs x 9 digit classes) followed by documents of a recursive generator (container depth <= 6, fan-out <= 40, keys and strings valid UTF-8 " +
		"without quote characters). Each document is serialised by the independent writer in the default layout (small unless it does not fit) and with every " +
		"container large, and each serialisation is decoded by CellBytes(TypeJSON) once per legal length-prefix width 1..4 at a random offset between random " +
		"bytes. One case = one document; distinct by the hash of its default serialisation; non-trivial iff it has a container with >= 2 members or an opaque scalar.")
	c.Assume("binary JSON layout as in sql/json_binary.cc (writer enc/bjson, cross-checked against the server-captured byte strings quoted in the repository's TestJSON)")
	c.Assume("packed temporal formats of my_time.c and decimal2bin of decimal.c as re-implemented in enc/bjson")
	c.Assume("strconv.ParseFloat/FormatFloat round-trip doubles exactly; keys and strings contain no quote characters (the property's own restriction)")
	c.Assume("a signed DOM integer is stored as int16/int32/int64 and an unsigned one as uint16/uint32/uint64 (json_binary.cc), so every type holds values of every smaller range too")

	x := &c14Runner{c: c, cells: map[string]int64{}}
	defer x.flush()
	if c.Replay != "" {
		c14Replay(c, x)
		return
	}
	specials := c14Specials()
	total := c.N(20000, 1500000)
	if total < len(specials) {
		total = len(specials)
	}
	for i := 0; i < total; i++ {
		if !c.Mine(i) {
			continue
		}
		r := c.Rng(uint64(i))
		if i%23 == 5 {
			// a document the library does not support (an opaque BIT value inside
			// an object, which a real master stores for JSON_OBJECT('a', b'1')) is
			// decoded first and its outcome ignored: the documents that follow
			// must decode as if it had never been there
			obj := []byte{0x00, 0x01, 0x00, 0x0f, 0x00, 0x0b, 0x00, 0x01, 0x00, 0x0f, 0x0c, 0x00, 'a', 0x10, 0x01, 0x01}
			buf := append([]byte{byte(len(obj)), 0, 0, 0}, obj...)
			core.Guard(func() { _, _, _ = replication.CellBytes(buf, 0, replication.TypeJSON, 4, false) })
			x.cell("unsupported-document-decoded-before")
		}
		if i < len(specials) {
			c.Log("scenario %d special %s", i, specials[i].name)
			x.cell("special:" + strings.TrimRight(specials[i].name, "0123456789-"))
			x.doc(i, specials[i].name, specials[i].build(r), r)
			continue
		}
		doc := bjson.Gen(r, r.Range(1, 6), 40)
		x.doc(i, "generated", doc, r)
	}
}
