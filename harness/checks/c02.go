package checks

import (
	"encoding/json"
	"fmt"
	"regexp"
	"sort"
	"strconv"

	"github.com/Breeze0806/gobinlog"

	"verifharness/core"
	"verifharness/enc/ev"
	"verifharness/gen"
	"verifharness/hist"
	"verifharness/run"
	"verifharness/sim"
)

// C02: transaction boundaries — delivery only at commit, atomically, never twice.
func init() { core.Register("C02", checkC02) }

type c02Scn struct {
	Mode  string `json:"mode"` // seq | random | casing | metamorphic
	Kinds []int  `json:"kinds,omitempty"`
	Index int    `json:"index"`
	Lock  bool   `json:"lock"`
}

func c02Opts(r *core.Rng) gen.HOpts {
	cb := allCombos()[r.Intn(24)]
	o := cb.hopts(r)
	o.MaxCols, o.MaxRows, o.MaxStmts, o.MaxEvents, o.MaxTables = 3, 2, 2, 2, 2
	o.NoJSON = true
	// every second file flips the checksum setting while keeping the event layout
	// (SET GLOBAL binlog_checksum=... followed by a rotation)
	a := o.Cfgs[0]
	flipped := *a
	flipped.Checksum = !a.Checksum
	flipped.ChecksumAlg = 0
	o.Cfgs = []*ev.Cfg{a, &flipped, a, &flipped, a, &flipped, a, &flipped}
	return o
}

func c02Build(c *core.Ctx, scn c02Scn) (*hist.History, []*hist.Table) {
	r := c.Rng(core.StrID("c02"), core.StrID(scn.Mode), uint64(scn.Index), core.Hash64([]byte(fmt.Sprint(scn.Kinds))))
	b := gen.NewBuilder(r, c02Opts(r))
	switch scn.Mode {
	case "casing":
		// Index addresses one casing of begin (0..31), commit (32..95) or rollback (96..351)
		word, mask := "begin", scn.Index
		kind := hist.TxXID
		if scn.Index >= 96 {
			word, mask, kind = "rollback", scn.Index-96, hist.TxRollback
		} else if scn.Index >= 32 {
			word, mask, kind = "commit", scn.Index-32, hist.TxCommit
		}
		cased := applyCase(word, mask)
		b.Add(hist.TxXID)
		u := b.Unit(kind)
		if word == "begin" {
			u.BeginSQL = cased
		} else {
			u.EndSQL = cased
		}
		b.H.Units = append(b.H.Units, u)
		b.Add(hist.TxCommit)
	default:
		for _, k := range scn.Kinds {
			b.Add(hist.UnitKind(k))
		}
	}
	return b.H, b.Tables
}

func applyCase(word string, mask int) string {
	bs := []byte(word)
	for i := range bs {
		if mask>>uint(i)&1 == 1 {
			bs[i] -= 32
		}
	}
	return string(bs)
}

var idRe = regexp.MustCompile(`/\* id=(\d+) \*/`)

// deliveredIDs extracts the change ids carried by a delivery.
func deliveredIDs(d *run.Delivered) []uint64 {
	var out []uint64
	for _, e := range d.Events {
		if e.SQL != "" {
			if m := idRe.FindStringSubmatch(e.SQL); m != nil {
				v, _ := strconv.ParseUint(m[1], 10, 64)
				out = append(out, v)
			}
			continue
		}
		rows := e.Values
		if len(rows) == 0 {
			rows = e.Idents
		}
		for _, row := range rows {
			if len(row) > 0 && row[0].Data != nil {
				v, _ := strconv.ParseUint(string(row[0].Data), 10, 64)
				out = append(out, v)
			}
		}
	}
	return out
}

// unitIDs lists the change ids a unit commits (computed from the logical unit,
// independently of the model).
func unitIDs(u *hist.Unit) []uint64 {
	var out []uint64
	switch u.Kind {
	case hist.TxRollback:
		return nil
	case hist.DDL, hist.StmtDML:
		return []uint64{u.ID}
	case hist.TxXID, hist.TxCommit, hist.AutoRows:
		for si := range u.Stmts {
			s := &u.Stmts[si]
			if s.Kind == hist.StmtQuery {
				out = append(out, s.ID)
			}
			for ri := range s.Rows {
				re := &s.Rows[ri]
				for _, row := range re.Rows {
					img := row.After
					if re.Kind == ev.KDelete {
						img = row.Before
					}
					v, _ := strconv.ParseUint(string(img[0].Text), 10, 64)
					out = append(out, v)
				}
			}
		}
	}
	return out
}

func checkC02(c *core.Ctx) {
	c.SetRule("all sequences of length <= N (quick 3, thorough 5; length N+1 sampled) over the 13 unit kinds {tx closed by XID, by COMMIT, rolled back, DDL, autocommitted row change, statement-format DML, rotation, GTID, anonymous GTID, previous-GTIDs, heartbeat, unknown event, unknown statement}, each streamed once through the real Streamer (alternating far-ahead / lock-step); random sequences of up to 40 units; all 352 casings of begin/commit/rollback through GetStatementCategory and through a stream; metamorphic runs with ignorable units inserted at every gap. Oracles: delivery list equals the model's grouping, id conservation (every committed change id exactly once, rolled-back ids never), handler entry after the commit event was sent. distinct by unit-kind sequence / index; non-trivial iff the sequence has >= 1 delivering unit")
	c.Assume("unknown statements are never strings whose first word is one of the twelve recognised keywords; DDL is never placed inside BEGIN..COMMIT; an autocommitted row change is one table map plus one rows event")
	if c.Replay != "" {
		var w struct {
			Witness struct {
				Scenario c02Scn `json:"scenario"`
			} `json:"witness"`
		}
		if err := readWitness(c.Replay, &w); err != nil {
			c.Inconclusive("cannot read witness: " + err.Error())
			return
		}
		c02Run(c, w.Witness.Scenario)
		return
	}
	n := 0
	maxLen := c.N(3, 5)
	nk := int(hist.NumUnitKinds)
	var rec func(prefix []int)
	rec = func(prefix []int) {
		if len(prefix) > 0 {
			n++
			if c.Mine(n) {
				c02Run(c, c02Scn{Mode: "seq", Kinds: append([]int(nil), prefix...), Index: n, Lock: n%2 == 0})
			}
		}
		if len(prefix) == maxLen {
			return
		}
		for k := 0; k < nk; k++ {
			rec(append(prefix, k))
		}
	}
	rec(nil)
	c.ExhaustiveDomain(fmt.Sprintf("all unit-kind sequences of length 1..%d over 13 kinds", maxLen))
	// sampled longer sequences
	r := c.Rng(core.StrID("c02long"))
	for i := 0; i < c.N(1200, 50000); i++ {
		l := maxLen + 1
		kinds := make([]int, l)
		for j := range kinds {
			kinds[j] = r.Intn(nk)
		}
		n++
		if c.Mine(n) {
			c02Run(c, c02Scn{Mode: "seq", Kinds: kinds, Index: n, Lock: r.Bool()})
		}
	}
	for i := 0; i < c.N(800, 20000); i++ {
		l := 6 + r.Intn(35)
		kinds := make([]int, l)
		for j := range kinds {
			kinds[j] = r.Intn(nk)
		}
		n++
		if c.Mine(n) {
			c02Run(c, c02Scn{Mode: "random", Kinds: kinds, Index: n, Lock: r.Bool()})
		}
	}
	// casings
	for i := 0; i < 352; i++ {
		n++
		if c.Mine(n) {
			c02Casing(c, i)
			c02Run(c, c02Scn{Mode: "casing", Index: i, Lock: i%2 == 0})
		}
	}
	c.ExhaustiveDomain("all 2^5+2^6+2^8 casings of begin/commit/rollback")
	// metamorphic
	for i := 0; i < c.N(300, 2000); i++ {
		n++
		if c.Mine(n) {
			c02Metamorphic(c, i)
		}
	}
}

func c02Casing(c *core.Ctx, idx int) {
	word, mask, want := "begin", idx, gobinlog.StatementBegin
	if idx >= 96 {
		word, mask, want = "rollback", idx-96, gobinlog.StatementRollback
	} else if idx >= 32 {
		word, mask, want = "commit", idx-32, gobinlog.StatementCommit
	}
	cased := applyCase(word, mask)
	for _, sql := range []string{cased, cased + " /* x */", cased + " work"} {
		var got gobinlog.StatementType
		if p := core.Guard(func() { got = gobinlog.GetStatementCategory(sql) }); p != "" {
			c.Violation("c02:category-panic", "GetStatementCategory panicked on "+sql, map[string]interface{}{"scenario": c02Scn{Mode: "casing", Index: idx}})
			return
		}
		if got != want {
			c.Violation("c02:casing-not-recognised:"+word, fmt.Sprintf("GetStatementCategory(%q) = %v want %v", sql, got, want), map[string]interface{}{"scenario": c02Scn{Mode: "casing", Index: idx}})
			return
		}
	}
	c.Bulk(3, 0)
}

func c02Stream(c *core.Ctx, scn c02Scn, h *hist.History, tables []*hist.Table) (*run.Session, *run.AttemptResult, []hist.ExpTx, *hist.Layout) {
	l := h.Build()
	start := hist.Pos{File: h.FirstFile, Off: 4}
	exp := hist.Expect(h, l, start)
	s, err := run.NewSession(l, tables, 202, start, scn.Index%3 != 0)
	if err != nil {
		c.Inconclusive("cannot start master: " + err.Error())
		return nil, nil, nil, nil
	}
	for _, g := range run.LibGoroutines(nil) {
		s.Abandon(g.ID)
	}
	s.M.SetDefault(&sim.Script{End: sim.EndEOF, LockStep: scn.Lock})
	res := s.Attempt(run.NoFaults(), nil, maxWait)
	return s, res, exp, l
}

func c02Run(c *core.Ctx, scn c02Scn) {
	c.Log("C02 %+v", scn)
	h, tables := c02Build(c, scn)
	s, res, exp, l := c02Stream(c, scn, h, tables)
	if s == nil {
		return
	}
	defer s.Close()
	delivering := 0
	for i := range h.Units {
		if h.Units[i].Kind.Delivers() {
			delivering++
		}
		c.Cell("unit:" + h.Units[i].Kind.String())
	}
	c.Case(core.HashAdd(core.StrID(scn.Mode), []byte(fmt.Sprint(unitNames(h), scn.Index*boolInt(scn.Mode == "casing")))), delivering >= 1)
	wit := func() map[string]interface{} {
		return witnessOf(scn, h, s, map[string]interface{}{"stream_err": errStr(res.Err)})
	}
	if res.Verdict != run.Returned {
		c.Cell("stream-not-returned(reported under C05)")
		return
	}
	if res.Panic != "" {
		c.Violation("c02:panic", "Stream panicked: "+res.Panic, wit())
		return
	}
	seq := fmt.Sprint(unitNames(h))
	if d := run.CompareAll(exp, res.Delivered, false); d != nil {
		c.Violation("c02:grouping:"+d.Kind, fmt.Sprintf("units %s: %s", seq, d), wit())
		return
	}
	// a change must not turn up in another delivery later: what the handler was
	// given is re-read after the stream ended
	if why := retainedChanged(res.Delivered); why != "" {
		c.Violation("c02:delivered-transaction-changed-later", fmt.Sprintf("units %s: %s", seq, why), wit())
		return
	}
	// rollback: one delivery with zero events whose labels advance
	for i := range exp {
		d := res.Delivered[i]
		if h.Units[exp[i].Unit].Kind == hist.TxRollback {
			if len(d.Events) != 0 {
				c.Violation("c02:rollback-delivers-changes", fmt.Sprintf("units %s: a rolled-back transaction delivered %d events", seq, len(d.Events)), wit())
				return
			}
			if d.Next == d.Now {
				c.Violation("c02:rollback-position-not-advanced", fmt.Sprintf("units %s: the empty transaction of a rollback does not advance the position (%v)", seq, d.Now), wit())
				return
			}
			c.Cell("rollback-empty-delivery")
		}
	}
	// conservation of change ids, computed from the logical units
	want := map[uint64]int{}
	for i := range h.Units {
		for _, id := range unitIDs(&h.Units[i]) {
			want[id]++
		}
	}
	got := map[uint64]int{}
	for _, d := range res.Delivered {
		for _, id := range deliveredIDs(d) {
			got[id]++
		}
	}
	for id, n := range got {
		if want[id] == 0 {
			c.Violation("c02:uncommitted-change-delivered", fmt.Sprintf("units %s: change id %d was delivered but never committed", seq, id), wit())
			return
		}
		if n > want[id] {
			c.Violation("c02:change-delivered-twice", fmt.Sprintf("units %s: change id %d delivered %d times", seq, id, n), wit())
			return
		}
	}
	for id, n := range want {
		if got[id] < n {
			c.Violation("c02:committed-change-lost", fmt.Sprintf("units %s: change id %d was committed but not delivered", seq, id), wit())
			return
		}
	}
	c.Note("change_ids_conserved", int64(len(want)))
	// not before commit: the handler is entered after the commit event was sent
	sent := map[int64]int64{}
	for _, rec := range s.Tr.Snapshot() {
		if rec.Kind == "commit-sent" {
			if _, ok := sent[rec.B]; !ok {
				sent[rec.B] = rec.Seq
			}
		}
	}
	for i, d := range res.Delivered {
		cs, ok := sent[int64(exp[i].Index)]
		if !ok || d.EntrySeq < cs {
			c.Violation("c02:delivered-before-commit", fmt.Sprintf("units %s: delivery %d entered the handler (seq %d) before its commit event was sent (seq %d, known=%v)", seq, i, d.EntrySeq, cs, ok), wit())
			return
		}
	}
	_ = l
	if c.WantSample() && delivering >= 2 {
		c.Sample(map[string]interface{}{"scenario": scn, "units": unitNames(h), "deliveries": len(res.Delivered)})
	}
}

func boolInt(b bool) int {
	if b {
		return 1
	}
	return 0
}

// stripLabels renders deliveries without positions and sequence numbers.
func stripLabels(ds []*run.Delivered) string {
	type lite struct {
		TS     int64
		Events []run.DEvent
	}
	var out []lite
	for _, d := range ds {
		out = append(out, lite{d.TS, d.Events})
	}
	b, _ := json.Marshal(out)
	return string(b)
}

func c02Metamorphic(c *core.Ctx, idx int) {
	scn := c02Scn{Mode: "metamorphic", Index: idx, Lock: idx%2 == 0}
	c.Log("C02 %+v", scn)
	r := c.Rng(core.StrID("c02meta"), uint64(idx))
	b := gen.NewBuilder(r, c02Opts(r))
	nd := 2 + r.Intn(5)
	var base []hist.Unit
	for i := 0; i < nd; i++ {
		base = append(base, b.Unit(hist.UnitKind(r.Intn(6))))
	}
	ign := []hist.UnitKind{hist.GTID, hist.AnonGTID, hist.PrevGTIDs, hist.Heartbeat, hist.UnknownEvent, hist.UnknownStmt}
	var with []hist.Unit
	for i := 0; i <= nd; i++ {
		for k := 0; k < 1+r.Intn(2); k++ {
			with = append(with, b.Unit(ign[r.Intn(len(ign))]))
		}
		if i < nd {
			with = append(with, base[i])
		}
	}
	h0 := *b.H
	h0.Units = base
	h1 := *b.H
	h1.Units = with
	s0, r0, _, _ := c02Stream(c, scn, &h0, b.Tables)
	if s0 == nil {
		return
	}
	defer s0.Close()
	s1, r1, _, _ := c02Stream(c, scn, &h1, b.Tables)
	if s1 == nil {
		return
	}
	defer s1.Close()
	c.Case(core.HashAdd(core.StrID("meta"), []byte(fmt.Sprint(unitNames(&h1), idx))), true)
	if r0.Verdict != run.Returned || r1.Verdict != run.Returned {
		c.Cell("stream-not-returned(reported under C05)")
		return
	}
	a, bb := stripLabels(r0.Delivered), stripLabels(r1.Delivered)
	if a != bb {
		kinds := map[string]bool{}
		for _, u := range with {
			if !u.Kind.Delivers() {
				kinds[u.Kind.String()] = true
			}
		}
		var ks []string
		for k := range kinds {
			ks = append(ks, k)
		}
		sort.Strings(ks)
		c.Violation("c02:ignorable-units-alter-grouping", fmt.Sprintf("inserting ignorable units %v changed the deliveries: %d vs %d deliveries (units %v)", ks, len(r0.Delivered), len(r1.Delivered), unitNames(&h1)),
			witnessOf(scn, &h1, s1, map[string]interface{}{"without": unitNames(&h0)}))
		return
	}
	c.Cell("metamorphic-equal")
}
