package checks

import (
	"fmt"

	"verifharness/core"
	"verifharness/enc/ev"
	"verifharness/gen"
	"verifharness/hist"
	"verifharness/run"
	"verifharness/sim"
)

// C01: end-to-end fidelity. Every history is served by the simulated master
// from a start position; the handler's snapshots must equal the model's list.
func init() { core.Register("C01", checkC01) }

type c01Scn struct {
	Index int      `json:"index"`
	Combo string   `json:"combo"`
	Start hist.Pos `json:"start"`
}

func c01History(c *core.Ctx, idx int) (*hist.History, []*hist.Table, combo) {
	combos := allCombos()
	cb := combos[idx%len(combos)]
	r := c.Rng(core.StrID("hist"), uint64(idx))
	o := cb.hopts(r)
	switch idx % 7 {
	case 3:
		o.MaxCols = 40
	case 5:
		o.MaxCols = 300
		o.MaxRows = 2
		o.MaxStmts = 2
	}
	ntx := 1 + r.Intn(8)
	h, tables := gen.RandomHistory(r, o, ntx, r.Intn(2))
	return h, tables, cb
}

func checkC01(c *core.Ctx) {
	c.SetRule("histories from the seeded RBR generator (T<=8 tx x S<=3 stmts x K<=3 tables x R<=4 rows/event, 1..40 (some 300) columns over every supported column type with metadata from the type's domain, NULL/absent pattern classes, ignorable events sprinkled in, 0..1 rotations; one stream with 540 (thorough 2600) table ids) x 24 configuration combos {crc}x{v1/6,v1/4,v2/6}x{gtid}x{full,partial}, each streamed through the real Streamer from offset 4 and from transaction boundaries; distinct by hash of (event bytes,start); non-trivial iff the history has >=2 transactions, a NULL, an absent column or >=2 tables")
	c.Assume("simulated master follows mysql_binlog_send (fake rotate, format description, events from the requested boundary, EOF at the end)")
	c.Assume("expected values come from enc/val, enc/bjson and strconv, not from the repository")
	nh := c.N(400, 12000)
	if c.Race {
		nh = c.N(36, 400)
	}
	if c.Replay != "" {
		replayC01(c)
		return
	}
	if c.Mine(0) && !c.Race {
		h, tables, cb := c01Huge(c)
		l := h.Build()
		c01Run(c, -1, h, l, tables, cb, hist.Pos{File: h.FirstFile, Off: 4})
		c.Cell("event-larger-than-16MB(split over protocol packets)")
	}
	if !c.Race && c.Pass == "plain" {
		// K large: hundreds of table ids in one stream, one table used throughout
		manyIDs(c, "c01", []int{c.N(540, 2600)})
	}
	for idx := 0; idx < nh; idx++ {
		if !c.Mine(idx) {
			continue
		}
		h, tables, cb := c01History(c, idx)
		l := h.Build()
		starts := l.Boundaries()
		r := c.Rng(core.StrID("starts"), uint64(idx))
		var chosen []hist.Pos
		chosen = append(chosen, starts[0])
		if c.Quick() {
			for k := 0; k < 2 && len(starts) > 1; k++ {
				chosen = append(chosen, starts[1+r.Intn(len(starts)-1)])
			}
		} else {
			chosen = append(chosen, starts[1:]...)
		}
		for _, st := range chosen {
			c01Run(c, idx, h, l, tables, cb, st)
		}
	}
}

// c01Huge is a history with one event larger than 2^24-1 bytes: the master must
// split it over several protocol packets and the driver reassembles it.
func c01Huge(c *core.Ctx) (*hist.History, []*hist.Table, combo) {
	cb := combo{Checksum: true, RowsV2: true}
	r := c.Rng(core.StrID("huge"))
	o := cb.hopts(r)
	b := gen.NewBuilder(r, o)
	t := &hist.Table{ID: 77, DB: "dbh", Name: "huge", Cols: []hist.Column{
		{Name: "id", Type: ev.TLongLong, Unsigned: true}, {Name: "b", Type: ev.TLongBlob, Meta: 4, Nullable: true}, {Name: "n", Type: ev.TLong}}}
	b.Tables = []*hist.Table{t}
	b.Add(hist.TxXID)
	n := 1<<24 + 4096 + r.Intn(100000)
	data := r.Bytes(n)
	id := b.ID()
	idEnc := make([]byte, 8)
	for i := range idEnc {
		idEnc[i] = byte(id >> (8 * uint(i)))
	}
	row := hist.Row{After: []hist.Value{{Enc: idEnc, Text: []byte(fmt.Sprint(id))},
		{Enc: append([]byte{byte(n), byte(n >> 8), byte(n >> 16), byte(n >> 24)}, data...), Text: data},
		{Enc: []byte{1, 0, 0, 0}, Text: []byte("1")}}}
	u := b.Unit(hist.TxXID)
	u.Stmts = []hist.Stmt{{Kind: hist.StmtRows, MapTS: b.TS(), TableMaps: []*hist.Table{t},
		Rows: []hist.RowsEvent{{Kind: ev.KWrite, Table: t, PresentAfter: []bool{true, true, true}, Rows: []hist.Row{row}, TS: b.TS()}}}}
	u.EndTS = b.TS()
	b.H.Units = append(b.H.Units, u)
	b.Add(hist.TxCommit)
	return b.H, b.Tables, cb
}

func c01Run(c *core.Ctx, idx int, h *hist.History, l *hist.Layout, tables []*hist.Table, cb combo, st hist.Pos) {
	scn := c01Scn{Index: idx, Combo: cb.String(), Start: st}
	c.Log("C01 %+v", scn)
	exp := hist.Expect(h, l, st)
	s, err := run.NewSession(l, tables, 4242, st, idx%5 != 4)
	if err != nil {
		c.Inconclusive("cannot start master: " + err.Error())
		return
	}
	defer s.Close()
	s.M.SetDefault(&sim.Script{End: sim.EndEOF})
	res := s.Attempt(run.NoFaults(), nil, maxWait)
	nt, _ := histNontrivial(h)
	c.Case(core.HashU64(core.HashAdd(layoutHash(l), []byte(st.File)), uint64(st.Off)), nt)
	c.Cell("combo:" + cb.String())
	c.Note("transactions_compared", int64(len(exp)))
	if st.Off != 4 {
		c.Cell("start:mid-file")
	} else {
		c.Cell("start:4")
	}
	if res.Verdict != run.Returned {
		if res.Verdict == run.Stuck {
			c.Violation("c01:stream-stuck", "Stream did not return on a clean history ending with EOF", witnessOf(scn, h, s, map[string]interface{}{"goroutines": gdump(res.StuckDump)}))
		} else {
			c.Inconclusive(fmt.Sprintf("C01 scenario %d: Stream did not return and the stuck rule could not decide", idx))
		}
		return
	}
	if res.Panic != "" {
		c.Violation("c01:panic", "Stream panicked: "+res.Panic, witnessOf(scn, h, s, nil))
		return
	}
	if res.Conn != nil && res.Conn.Snapshot().BadResume {
		c.Violation("c01:bad-start", "master rejected the requested start position", witnessOf(scn, h, s, nil))
		return
	}
	if d := run.CompareAll(exp, res.Delivered, true); d != nil {
		c.Violation("c01:"+d.Kind, d.String(), witnessOf(scn, h, s, map[string]interface{}{"stream_err": errStr(res.Err)}))
		return
	}
	if why := retainedChanged(res.Delivered); why != "" {
		c.Violation("c01:delivered-transaction-changed-later", why, witnessOf(scn, h, s, nil))
		return
	}
	if c.WantSample() {
		c.Sample(map[string]interface{}{"scenario": scn, "units": unitNames(h), "deliveries": len(res.Delivered), "stream_err": errStr(res.Err)})
	}
}

func replayC01(c *core.Ctx) {
	var w struct {
		Witness struct {
			Scenario c01Scn `json:"scenario"`
		} `json:"witness"`
	}
	if err := readWitness(c.Replay, &w); err != nil {
		c.Inconclusive("cannot read witness: " + err.Error())
		return
	}
	scn := w.Witness.Scenario
	if scn.Index < 0 {
		h, tables, cb := c01Huge(c)
		c01Run(c, -1, h, h.Build(), tables, cb, scn.Start)
		return
	}
	h, tables, cb := c01History(c, scn.Index)
	l := h.Build()
	c01Run(c, scn.Index, h, l, tables, cb, scn.Start)
}
