package checks

import (
	"fmt"
	"time"

	"verifharness/core"
	"verifharness/enc/ev"
	"verifharness/gen"
	"verifharness/hist"
	"verifharness/run"
	"verifharness/sim"
)

// maxWait bounds every wait of a stream scenario; reaching it is inconclusive.
const maxWait = 60 * time.Second

// combo is one cell of C01's configuration cross product.
type combo struct {
	Checksum bool
	RowsV2   bool
	ID4      bool
	GTID     bool
	Partial  bool
}

func (c combo) String() string {
	return fmt.Sprintf("crc=%v v2=%v id4=%v gtid=%v partial=%v", c.Checksum, c.RowsV2, c.ID4, c.GTID, c.Partial)
}

// allCombos is {checksum} x {(v1,6),(v1,4),(v2,6)} x {GTID} x {full, partial} = 24.
func allCombos() []combo {
	var out []combo
	for _, crc := range []bool{false, true} {
		for _, rv := range [][2]bool{{false, false}, {false, true}, {true, false}} {
			for _, g := range []bool{false, true} {
				for _, p := range []bool{false, true} {
					out = append(out, combo{crc, rv[0], rv[1], g, p})
				}
			}
		}
	}
	return out
}

func (c combo) cfg(r *core.Rng) *ev.Cfg {
	cfg := &ev.Cfg{Checksum: c.Checksum, RowsV2: c.RowsV2, TableID4: c.ID4, ServerID: 1 + uint32(r.Intn(1000)), PadOnes: r.Bool()}
	switch r.Intn(4) {
	case 3:
		// a MariaDB master announces itself with a 5.5.5- prefix (and writes checksums)
		cfg.ServerVersion, cfg.NumTypes, cfg.GTIDPostHeader = []string{"5.5.5-10.4.12-MariaDB-log", "5.5.68-MariaDB", "5.6.0-m4"}[r.Intn(3)], 38, 42
	case 0:
		cfg.ServerVersion, cfg.NumTypes, cfg.GTIDPostHeader = "5.6.51-log", 35, 25
	case 1:
		cfg.ServerVersion, cfg.NumTypes, cfg.GTIDPostHeader = "5.7.44-log", 38, 42
	default:
		cfg.ServerVersion, cfg.NumTypes, cfg.GTIDPostHeader = "8.0.36", 41, 42
	}
	if !c.Checksum && r.Chance(1, 4) {
		cfg.ChecksumAlg = 255
	}
	return cfg
}

func (c combo) hopts(r *core.Rng) gen.HOpts {
	o := gen.DefaultHOpts()
	o.Cfgs = []*ev.Cfg{c.cfg(r)}
	o.GTID = c.GTID
	o.Partial = c.Partial
	return o
}

func histNontrivial(h *hist.History) (bool, string) {
	deliver, nulls, absent := 0, false, false
	tables := map[string]bool{}
	for ui := range h.Units {
		u := &h.Units[ui]
		if u.Kind.Delivers() {
			deliver++
		}
		for si := range u.Stmts {
			for ri := range u.Stmts[si].Rows {
				re := &u.Stmts[si].Rows[ri]
				tables[re.Table.DB+"."+re.Table.Name] = true
				for _, p := range re.PresentAfter {
					if !p {
						absent = true
					}
				}
				for _, p := range re.PresentBefore {
					if !p {
						absent = true
					}
				}
				for _, row := range re.Rows {
					for _, v := range row.After {
						if v.Null {
							nulls = true
						}
					}
					for _, v := range row.Before {
						if v.Null {
							nulls = true
						}
					}
				}
			}
		}
	}
	return deliver >= 2 || nulls || absent || len(tables) >= 2, ""
}

func layoutHash(l *hist.Layout) uint64 {
	h := uint64(0)
	for _, f := range l.Files {
		h = core.HashAdd(h, []byte(f.Name))
		for _, e := range f.Events {
			h = core.HashAdd(h, e.Bytes)
		}
	}
	return h
}

// unitNames lists the unit kinds of a history (for samples and witnesses).
func unitNames(h *hist.History) []string {
	out := make([]string, len(h.Units))
	for i := range h.Units {
		out[i] = h.Units[i].Kind.String()
	}
	return out
}

// witnessOf builds a compact witness of a stream scenario.
func witnessOf(scn interface{}, h *hist.History, s *run.Session, extra map[string]interface{}) map[string]interface{} {
	w := map[string]interface{}{"scenario": scn}
	if h != nil {
		w["units"] = unitNames(h)
	}
	if s != nil {
		w["trace_tail"] = s.Tr.Tail(60)
		var dl []*run.Delivered
		all := s.Deliveries()
		if len(all) > 12 {
			all = all[len(all)-12:]
		}
		for _, d := range all {
			c := *d
			if len(c.Events) > 3 {
				c.Events = c.Events[:3]
			}
			dl = append(dl, &c)
		}
		w["deliveries_tail"] = dl
		var cl []sim.ConnSnap
		for _, c := range s.M.Conns() {
			cl = append(cl, c.Snapshot())
		}
		if len(cl) > 6 {
			cl = cl[len(cl)-6:]
		}
		w["master_conns"] = cl
	}
	for k, v := range extra {
		w[k] = v
	}
	return w
}

func gdump(gs []run.G) []string {
	var out []string
	for _, g := range gs {
		out = append(out, g.Text)
	}
	return out
}

func errStr(err error) string {
	if err == nil {
		return "<nil>"
	}
	return err.Error()
}

func planOf(l *hist.Layout, p hist.Pos) []sim.PlanPkt { return sim.Plan(l, p) }

// retainedChanged re-reads every transaction the handler was given against the
// snapshot taken at delivery time; it returns a description of the first one
// that changed, or "".
func retainedChanged(ds []*run.Delivered) string {
	for i, d := range ds {
		if d.Ptr == nil {
			continue
		}
		if why := verify(d.Ptr, d); why != "" {
			return fmt.Sprintf("delivery %d (handed to the handler earlier) now reads differently: %s", i, why)
		}
	}
	return ""
}
