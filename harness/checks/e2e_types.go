package checks

import (
	"fmt"

	"verifharness/core"
	"verifharness/enc/ev"
	"verifharness/gen"
	"verifharness/hist"
	"verifharness/run"
	"verifharness/sim"
)

// End-to-end halves of the value properties (C10, C11, C12, C14): histories whose
// columns are restricted to the property's types are streamed through the real
// Streamer — full and partial row images, NULLs, a table mapper that marks
// columns unsigned or not by ordinal position — and every delivered value is
// compared with the expected text ("ColumnData.Data end to end").
func init() {
	wrap := func(prop string, types []byte) {
		direct := core.Lookup(prop)
		core.Register(prop, func(c *core.Ctx) {
			direct(c)
			heldReport(c)
			if c.Replay == "" {
				e2eTypes(c, prop, types)
			}
		})
	}
	wrap("C10", []byte{ev.TTiny, ev.TShort, ev.TInt24, ev.TLong, ev.TLongLong, ev.TFloat, ev.TDouble, ev.TYear, ev.TBit, ev.TEnum, ev.TSet, ev.TString})
	wrap("C11", []byte{ev.TNewDecimal, ev.TNewDecimal, ev.TNewDecimal, ev.TLong})
	wrap("C12", []byte{ev.TDate, ev.TNewDate, ev.TTime, ev.TDateTime, ev.TTimestamp, ev.TTime2, ev.TDateTime2, ev.TTimestamp2})
	wrap("C14", []byte{ev.TJSON, ev.TJSON, ev.TLong})
}

func e2eTypes(c *core.Ctx, prop string, types []byte) {
	nh := c.N(160, 600)
	for idx := 0; idx < nh; idx++ {
		if !c.Mine(idx) {
			continue
		}
		r := c.Rng(core.StrID("e2e"+prop), uint64(idx))
		cb := allCombos()[idx%24]
		o := cb.hopts(r)
		o.Partial = idx%2 == 0
		o.Types = types
		o.MaxCols, o.MaxRows, o.MaxStmts, o.MaxTables = 14, 3, 2, 2
		if prop == "C10" {
			// TypeString only as ENUM / SET carrier
			o.Types = append([]byte{}, types...)
		}
		b := gen.NewBuilder(r, o)
		if prop == "C10" {
			for _, t := range b.Tables {
				for i := range t.Cols {
					if t.Cols[i].Type == ev.TString {
						t.Cols[i].Meta = uint16([]byte{ev.TEnum, ev.TSet}[r.Intn(2)])<<8 | uint16(1+r.Intn(2))
						if t.Cols[i].Meta>>8 == ev.TSet {
							t.Cols[i].Meta = uint16(ev.TSet)<<8 | uint16(1+r.Intn(8))
						}
					}
				}
			}
		}
		for i := 0; i < 4+r.Intn(4); i++ {
			b.Add([]hist.UnitKind{hist.TxXID, hist.TxCommit, hist.AutoRows, hist.TxXID}[r.Intn(4)])
		}
		h, tables := b.H, b.Tables
		l := h.Build()
		start := hist.Pos{File: h.FirstFile, Off: 4}
		exp := hist.Expect(h, l, start)
		s, err := run.NewSession(l, tables, 1000, start, idx%3 != 0)
		if err != nil {
			c.Inconclusive("cannot start master: " + err.Error())
			return
		}
		for _, g := range run.LibGoroutines(nil) {
			s.Abandon(g.ID)
		}
		s.M.SetDefault(&sim.Script{End: sim.EndEOF})
		res := s.Attempt(run.NoFaults(), nil, maxWait)
		c.Case(core.HashU64(layoutHash(l), 1000), len(exp) > 0)
		c.Cell("e2e:streamed-history")
		if o.Partial {
			c.Cell("e2e:partial-images")
		}
		scn := map[string]interface{}{"mode": "end-to-end", "prop": prop, "hist": idx, "combo": cb.String()}
		switch {
		case res.Verdict != run.Returned:
			c.Cell("stream-not-returned(reported under C05)")
		case res.Panic != "":
			c.Violation("e2e:panic", fmt.Sprintf("history %d: Stream panicked: %s", idx, res.Panic), witnessOf(scn, h, s, nil))
		default:
			if d := run.CompareAll(exp, res.Delivered, false); d != nil {
				c.Violation("e2e:"+d.Kind, fmt.Sprintf("history %d (%s): %s", idx, cb, d), witnessOf(scn, h, s, map[string]interface{}{"stream_err": errStr(res.Err)}))
			} else {
				n := 0
				for _, d := range res.Delivered {
					for _, e := range d.Events {
						for _, row := range append(e.Values, e.Idents...) {
							n += len(row)
						}
					}
				}
				c.CellN("e2e:values-compared", int64(n))
			}
		}
		s.Close()
	}
}
