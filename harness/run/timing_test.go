package run_test

import (
	"io"
	"testing"
	"time"

	"github.com/Breeze0806/go/log"
	"github.com/Breeze0806/gobinlog"

	"verifharness/core"
	"verifharness/gen"
	"verifharness/hist"
	"verifharness/run"
	"verifharness/sim"
)

func TestTiming(t *testing.T) {
	gobinlog.SetLogger(log.NewDefaultLogger(io.Discard, log.ErrorLevel, "x"))
	r := core.NewRng(5)
	o := gen.DefaultHOpts()
	o.NoJSON = true
	h, tables := gen.RandomHistory(r, o, 5, 0)
	l := h.Build()
	st := hist.Pos{File: h.FirstFile, Off: 4}
	for i := 0; i < 5; i++ {
		t0 := time.Now()
		s, _ := run.NewSession(l, tables, 77, st, true)
		t1 := time.Now()
		s.M.SetDefault(&sim.Script{End: sim.EndEOF})
		res := s.Attempt(run.NoFaults(), nil, 10*time.Second)
		t2 := time.Now()
		s.CallError(10 * time.Second)
		t3 := time.Now()
		s.Close()
		t4 := time.Now()
		t.Logf("new %v attempt %v (%d deliveries, %v) error %v close %v", t1.Sub(t0), t2.Sub(t1), len(res.Delivered), res.Verdict, t3.Sub(t2), t4.Sub(t3))
	}
}
