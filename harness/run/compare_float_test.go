package run

import "testing"

func TestSameFloat(t *testing.T) {
	for _, c := range []struct {
		got, want string
		single    bool
		ok        bool
	}{
		{"1.50", "1.5", true, true},
		{"1.5", "1.5", false, true},
		{"2", "2.0", false, true},
		{"-0", "0", false, false},
		{"-0.0", "-0", true, true},
		{"1.5e0", "1.5", false, false},
		{"15E-1", "1.5", true, false},
		{"", "0", false, false},
		{".", "0", false, false},
		{"1.5.0", "1.5", false, false},
		{"0.1", "0.10000000000000002", false, false},
		{"0.100000001490116", "0.1", true, true}, // same float32
		{"0.100000001490116", "0.1", false, false},
		{"NaN", "0", false, false},
		{"+1", "1", false, false},
		{"340282350000000000000000000000000000000", "340282346638528860000000000000000000000", true, true},
	} {
		if r := SameFloat([]byte(c.got), []byte(c.want), c.single); r != c.ok {
			t.Errorf("SameFloat(%q, %q, single=%v) = %v, want %v", c.got, c.want, c.single, r, c.ok)
		}
	}
}
