package run_test

import (
	"io"
	"testing"
	"time"

	"github.com/Breeze0806/go/log"
	"github.com/Breeze0806/gobinlog"

	"verifharness/core"
	"verifharness/enc/ev"
	"verifharness/gen"
	"verifharness/hist"
	"verifharness/run"
	"verifharness/sim"
)

func TestSmoke(t *testing.T) {
	gobinlog.SetLogger(log.NewDefaultLogger(io.Discard, log.ErrorLevel, "x"))
	total := 0
	defer func() { t.Logf("deliveries compared: %d", total) }()
	for seed := uint64(1); seed <= 40; seed++ {
		r := core.NewRng(seed)
		o := gen.DefaultHOpts()
		o.Types = []byte{ev.TTiny, ev.TShort, ev.TInt24, ev.TLong, ev.TLongLong, ev.TVarchar, ev.TBlob, ev.TString, ev.TFloat, ev.TDouble, ev.TYear, ev.TBit, ev.TEnum, ev.TSet}
		cfg := ev.DefaultCfg()
		cfg.Checksum = seed%2 == 0
		cfg.RowsV2 = seed%3 != 0
		cfg.TableID4 = seed%3 == 0 && seed%2 == 1
		o.Cfgs = []*ev.Cfg{cfg}
		o.GTID = seed%4 == 0
		o.Partial = seed%5 < 2
		h, tables := gen.RandomHistory(r, o, 5, int(seed%3))
		l := h.Build()
		for _, st := range l.Boundaries() {
			exp := hist.Expect(h, l, st)
			s, err := run.NewSession(l, tables, 77, st, seed%2 == 0)
			if err != nil {
				t.Fatal(err)
			}
			s.M.SetDefault(&sim.Script{End: sim.EndEOF})
			res := s.Attempt(run.NoFaults(), nil, 10*time.Second)
			if res.Verdict != run.Returned {
				t.Fatalf("seed %d start %v: verdict %v", seed, st, res.Verdict)
			}
			if d := run.CompareAll(exp, res.Delivered, true); d != nil {
				t.Fatalf("seed %d start %v: %s (err=%v) units=%v", seed, st, d, res.Err, h.Units[0].Kind)
			}
			total += len(res.Delivered)
			er := s.CallError(10 * time.Second)
			if er.Verdict != run.Returned || er.Err != nil {
				t.Fatalf("seed %d: Error() verdict %v err %v", seed, er.Verdict, er.Err)
			}
			v, gs := s.Leftovers(10 * time.Second)
			if v != run.Returned {
				t.Fatalf("seed %d: leftovers %v %v", seed, v, gs)
			}
			s.Close()
		}
	}
}
