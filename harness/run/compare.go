package run

import (
	"bytes"
	"fmt"
	"math"
	"strconv"

	"verifharness/enc/bjson"
	"verifharness/hist"
)

// Diff is the first difference between an expected and a delivered transaction.
type Diff struct {
	Path string // e.g. tx3.ev1.row0.after[7].Data
	Kind string // stable class: label-now, label-next, timestamp, event-count, event-type, table, sql, row-count, col-name, col-type, absent-flag, null, data:<type>
	Msg  string
}

func (d *Diff) String() string { return d.Path + ": " + d.Msg }

// CompareTx compares one delivery with the model. checkLabels selects whether
// positions are compared.
func CompareTx(exp *hist.ExpTx, got *Delivered, checkLabels bool) *Diff {
	p := fmt.Sprintf("tx%d", exp.Index)
	if checkLabels {
		if got.Now != exp.Now {
			return &Diff{p + ".NowPosition", "label-now", fmt.Sprintf("got %v want %v", got.Now, exp.Now)}
		}
		if got.Next != exp.Next {
			return &Diff{p + ".NextPosition", "label-next", fmt.Sprintf("got %v want %v", got.Next, exp.Next)}
		}
	}
	if got.TS != exp.TS {
		return &Diff{p + ".Timestamp", "timestamp", fmt.Sprintf("got %d want %d", got.TS, exp.TS)}
	}
	if len(got.Events) != len(exp.Events) {
		return &Diff{p + ".Events", "event-count", fmt.Sprintf("got %d events want %d", len(got.Events), len(exp.Events))}
	}
	for i := range exp.Events {
		e, g := &exp.Events[i], &got.Events[i]
		ep := fmt.Sprintf("%s.ev%d", p, i)
		if g.NilRow {
			return &Diff{ep, "event-nil", "nil event"}
		}
		if g.Type != e.Type {
			return &Diff{ep + ".Type", "event-type", fmt.Sprintf("got %d want %d", g.Type, e.Type)}
		}
		if g.TS != e.TS {
			return &Diff{ep + ".Timestamp", "event-timestamp", fmt.Sprintf("got %d want %d", g.TS, e.TS)}
		}
		if e.SQL != "" || e.Table == "" {
			if g.SQL != e.SQL {
				return &Diff{ep + ".Query.SQL", "sql", fmt.Sprintf("got %q want %q", g.SQL, e.SQL)}
			}
			if g.QueryDB != e.QueryDB {
				return &Diff{ep + ".Query.Database", "query-db", fmt.Sprintf("got %q want %q", g.QueryDB, e.QueryDB)}
			}
			if e.Charset != nil {
				if g.Charset == nil || g.Charset[0] != int32(e.Charset[0]) || g.Charset[1] != int32(e.Charset[1]) || g.Charset[2] != int32(e.Charset[2]) {
					return &Diff{ep + ".Query.Charset", "charset", fmt.Sprintf("got %v want %v", g.Charset, *e.Charset)}
				}
			}
			continue
		}
		if g.DB != e.DB || g.Table != e.Table {
			return &Diff{ep + ".Table", "table", fmt.Sprintf("got %s.%s want %s.%s", g.DB, g.Table, e.DB, e.Table)}
		}
		// (whether a row change also carries a statement text — a library that
		// understands ROWS_QUERY events may keep it there — is not something the
		// properties speak about: kind, table, timestamp and rows are compared)
		if d := compareRows(ep, "after", e.Values, g.Values); d != nil {
			return d
		}
		if d := compareRows(ep, "before", e.Idents, g.Idents); d != nil {
			return d
		}
	}
	return nil
}

func compareRows(ep, side string, exp [][]hist.ExpCol, got [][]DCol) *Diff {
	if len(exp) != len(got) {
		return &Diff{fmt.Sprintf("%s.%s", ep, side), "row-count", fmt.Sprintf("got %d rows want %d", len(got), len(exp))}
	}
	for ri := range exp {
		rp := fmt.Sprintf("%s.row%d.%s", ep, ri, side)
		if got[ri] == nil {
			return &Diff{rp, "row-nil", "nil row"}
		}
		if len(exp[ri]) != len(got[ri]) {
			return &Diff{rp, "col-count", fmt.Sprintf("got %d columns want %d", len(got[ri]), len(exp[ri]))}
		}
		for ci := range exp[ri] {
			e, g := &exp[ri][ci], &got[ri][ci]
			cp := fmt.Sprintf("%s[%d]", rp, ci)
			if g.Name != e.Name {
				return &Diff{cp + ".Filed", "col-name", fmt.Sprintf("got %q want %q", g.Name, e.Name)}
			}
			if g.Type != int(e.Type) {
				return &Diff{cp + ".Type", "col-type", fmt.Sprintf("got %d want %d", g.Type, e.Type)}
			}
			if g.IsEmpty != e.Absent {
				return &Diff{cp + ".IsEmpty", "absent-flag", fmt.Sprintf("got %v want %v", g.IsEmpty, e.Absent)}
			}
			if e.Absent {
				if g.Data != nil {
					return &Diff{cp + ".Data", "absent-has-data", fmt.Sprintf("absent column carries data %q", g.Data)}
				}
				continue
			}
			if d := CompareValue(cp, e.Type, &e.Val, g.Data); d != nil {
				return d
			}
		}
	}
	return nil
}

// CompareValue compares one delivered value with the expected logical value.
func CompareValue(cp string, typ byte, e *hist.Value, data []byte) *Diff {
	if e.Null {
		if data != nil {
			return &Diff{cp + ".Data", "null", fmt.Sprintf("NULL delivered with data %q", trunc(data))}
		}
		return nil
	}
	if data == nil {
		return &Diff{cp + ".Data", fmt.Sprintf("nil-for-value:%d", typ), fmt.Sprintf("value delivered as nil (looks like NULL); want %q", trunc(e.Text))}
	}
	if e.JSON != nil {
		n, err := bjson.ParseLibText(data)
		if err != nil {
			return &Diff{cp + ".Data", "json-parse", fmt.Sprintf("cannot parse %q: %v", trunc(data), err)}
		}
		if ok, why := bjson.Equal(e.JSON, n); !ok {
			return &Diff{cp + ".Data", "data:245", fmt.Sprintf("JSON differs at %s; got %q", why, trunc(data))}
		}
		return nil
	}
	if !bytes.Equal(data, e.Text) {
		if (typ == 4 || typ == 5) && SameFloat(data, e.Text, typ == 4) {
			return nil
		}
		return &Diff{cp + ".Data", fmt.Sprintf("data:%d", typ), fmt.Sprintf("got %q want %q", trunc(data), trunc(e.Text))}
	}
	return nil
}

// SameFloat: FLOAT (type 4) and DOUBLE (type 5) values are specified as "plain
// exponent-free decimal text that parses back to the identical IEEE value", not
// as one particular text: 1.5 and 1.50 are the same delivery.
func SameFloat(got, want []byte, single bool) bool {
	if len(got) == 0 || len(got) > 400 {
		return false
	}
	digits := 0
	for i, c := range got {
		switch {
		case c >= '0' && c <= '9':
			digits++
		case c == '-' && i == 0, c == '.':
		default:
			return false
		}
	}
	if digits == 0 || bytes.Count(got, []byte(".")) > 1 {
		return false
	}
	bits := 64
	if single {
		bits = 32
	}
	g, err1 := strconv.ParseFloat(string(got), bits)
	w, err2 := strconv.ParseFloat(string(want), bits)
	if err1 != nil || err2 != nil {
		return false
	}
	if single {
		return math.Float32bits(float32(g)) == math.Float32bits(float32(w))
	}
	return math.Float64bits(g) == math.Float64bits(w)
}

func trunc(b []byte) []byte {
	if len(b) > 120 {
		return append(append([]byte{}, b[:120]...), "…"...)
	}
	return b
}

// CompareAll compares a delivery list with the model list.
func CompareAll(exp []hist.ExpTx, got []*Delivered, checkLabels bool) *Diff {
	n := len(exp)
	if len(got) < n {
		n = len(got)
	}
	for i := 0; i < n; i++ {
		if d := CompareTx(&exp[i], got[i], checkLabels); d != nil {
			return d
		}
	}
	if len(got) != len(exp) {
		kind := "missing-delivery"
		if len(got) > len(exp) {
			kind = "extra-delivery"
		}
		return &Diff{"deliveries", kind, fmt.Sprintf("got %d deliveries want %d", len(got), len(exp))}
	}
	return nil
}
