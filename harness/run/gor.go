package run

import (
	"runtime"
	"sort"
	"strconv"
	"strings"
	"sync"
	"sync/atomic"
	"time"
)

// G is one goroutine of a dump that has library or driver frames.
type G struct {
	ID     int64
	State  string   // e.g. "chan receive", "select", "IO wait", "runnable"
	Frames []string // function names, innermost first
	Text   string
}

// Parked reports whether the goroutine can only be woken by another goroutine
// (channel operation), as opposed to the network, the scheduler or a syscall.
func (g G) Parked() bool {
	s := g.State
	return strings.HasPrefix(s, "chan receive") || strings.HasPrefix(s, "chan send") || strings.HasPrefix(s, "select") ||
		strings.HasPrefix(s, "sync.Mutex") || strings.HasPrefix(s, "semacquire") || strings.HasPrefix(s, "sync.Cond") ||
		strings.HasPrefix(s, "sync.WaitGroup")
}

// IOWait reports whether the goroutine is blocked on the network.
func (g G) IOWait() bool { return strings.HasPrefix(g.State, "IO wait") }

// Top is the innermost library/driver frame.
func (g G) Top() string {
	for _, f := range g.Frames {
		if isLibFrame(f) {
			return f
		}
	}
	if len(g.Frames) > 0 {
		return g.Frames[0]
	}
	return ""
}

func isLibFrame(f string) bool {
	return strings.HasPrefix(f, "github.com/Breeze0806/gobinlog") || strings.HasPrefix(f, "github.com/Breeze0806/mysql")
}

var dumpBuf = struct {
	sync.Mutex
	b []byte
}{b: make([]byte, 1<<20)}

// LibGoroutines returns the goroutines that have a frame in the library or the
// driver, except those whose id is in skip.
func LibGoroutines(skip map[int64]bool) []G {
	dumpBuf.Lock()
	var text string
	for {
		n := runtime.Stack(dumpBuf.b, true)
		if n < len(dumpBuf.b) {
			text = string(dumpBuf.b[:n])
			break
		}
		dumpBuf.b = make([]byte, 2*len(dumpBuf.b))
	}
	dumpBuf.Unlock()
	var out []G
	for _, blk := range strings.Split(text, "\n\n") {
		if !strings.Contains(blk, "github.com/Breeze0806/") {
			continue
		}
		lines := strings.Split(blk, "\n")
		if len(lines) == 0 || !strings.HasPrefix(lines[0], "goroutine ") {
			continue
		}
		hdr := lines[0]
		rest := strings.TrimPrefix(hdr, "goroutine ")
		sp := strings.IndexByte(rest, ' ')
		if sp < 0 {
			continue
		}
		id, _ := strconv.ParseInt(rest[:sp], 10, 64)
		if skip[id] {
			continue
		}
		state := ""
		if a := strings.IndexByte(rest, '['); a >= 0 {
			if b := strings.IndexByte(rest[a:], ']'); b > 0 {
				state = rest[a+1 : a+b]
			}
		}
		if c := strings.IndexByte(state, ','); c >= 0 {
			state = state[:c]
		}
		g := G{ID: id, State: state, Text: blk}
		lib := false
		for _, ln := range lines[1:] {
			if strings.HasPrefix(ln, "\t") || ln == "" {
				continue
			}
			fn := ln
			if p := strings.LastIndexByte(fn, '('); p > 0 {
				fn = fn[:p]
			}
			fn = strings.TrimPrefix(fn, "created by ")
			if i := strings.Index(fn, " in goroutine"); i > 0 {
				fn = fn[:i]
			}
			g.Frames = append(g.Frames, fn)
		}
		// "created by" lines do not count as being inside the library
		for _, ln := range lines[1:] {
			if strings.HasPrefix(ln, "created by ") || strings.HasPrefix(ln, "\t") {
				continue
			}
			if isLibFrame(ln) {
				lib = true
			}
		}
		if lib {
			out = append(out, g)
		}
	}
	sort.Slice(out, func(i, j int) bool { return out[i].ID < out[j].ID })
	return out
}

// Sig summarises a goroutine set for stability comparison.
func Sig(gs []G) string {
	var sb strings.Builder
	for _, g := range gs {
		sb.WriteString(strconv.FormatInt(g.ID, 10))
		sb.WriteByte(':')
		sb.WriteString(g.State)
		sb.WriteByte(':')
		sb.WriteString(g.Top())
		sb.WriteByte(';')
	}
	return sb.String()
}

// CurGoID is the id of the calling goroutine.
func CurGoID() int64 {
	var b [64]byte
	n := runtime.Stack(b[:], false)
	s := strings.TrimPrefix(string(b[:n]), "goroutine ")
	if i := strings.IndexByte(s, ' '); i > 0 {
		id, _ := strconv.ParseInt(s[:i], 10, 64)
		return id
	}
	return 0
}

// ---------------------------------------------------------------- canary

// canary measures scheduler latency so that a stalled host is not mistaken
// for a stuck library.
var canary struct {
	once   sync.Once
	maxGap int64 // nanoseconds, since last reset
}

func startCanary() {
	canary.once.Do(func() {
		go func() {
			last := time.Now()
			for {
				time.Sleep(5 * time.Millisecond)
				now := time.Now()
				gap := now.Sub(last).Nanoseconds()
				for {
					old := atomic.LoadInt64(&canary.maxGap)
					if gap <= old || atomic.CompareAndSwapInt64(&canary.maxGap, old, gap) {
						break
					}
				}
				last = now
			}
		}()
	})
}

func canaryReset() { atomic.StoreInt64(&canary.maxGap, 0) }
func canaryGap() time.Duration {
	return time.Duration(atomic.LoadInt64(&canary.maxGap))
}

// Verdict of a wait.
type Verdict int

const (
	Returned Verdict = iota
	Stuck
	Undecided
)

// StuckGap is the distance between the two samples of the quiescent-stuck rule.
var StuckGap = 600 * time.Millisecond

// WaitQuiescent waits for done. If it does not arrive, it applies the
// quiescent-stuck rule: two samples StuckGap apart that show the same
// goroutines of interest (those returned by sample) all parked on channel
// operations (or, when ioDead is true, blocked on a socket nobody will ever
// write to or close), mean nothing can wake them: Stuck. Anything runnable,
// running or in a syscall keeps it Undecided until maxWait.
func WaitQuiescent(done <-chan struct{}, sample func() []G, ioDead func() bool, maxWait time.Duration) (Verdict, []G) {
	startCanary()
	// fast path
	d := 200 * time.Microsecond
	waited := time.Duration(0)
	for waited < 150*time.Millisecond {
		select {
		case <-done:
			return Returned, nil
		case <-time.After(d):
		}
		waited += d
		if d < 20*time.Millisecond {
			d *= 2
		}
	}
	begin := time.Now()
	var prevSig string
	var prevAt time.Time
	for {
		select {
		case <-done:
			return Returned, nil
		default:
		}
		gs := sample()
		allParked := len(gs) > 0
		for _, g := range gs {
			if g.Parked() {
				continue
			}
			if g.IOWait() && ioDead != nil && ioDead() {
				continue
			}
			allParked = false
		}
		sig := Sig(gs)
		now := time.Now()
		if allParked {
			if sig == prevSig && now.Sub(prevAt) >= StuckGap {
				if canaryGap() < StuckGap/3 {
					select {
					case <-done:
						return Returned, nil
					default:
					}
					return Stuck, gs
				}
				// host stalled: start over
				prevSig = ""
			}
			if sig != prevSig {
				prevSig = sig
				prevAt = now
				canaryReset()
			}
		} else {
			prevSig = ""
		}
		if time.Since(begin) > maxWait {
			return Undecided, gs
		}
		select {
		case <-done:
			return Returned, nil
		case <-time.After(100 * time.Millisecond):
		}
	}
}
