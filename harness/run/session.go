// Package run drives the real Streamer against the simulated master and
// records what happens at the boundaries: handler calls (with deep snapshots),
// Stream / Error() returns, mapper calls, socket state, goroutine dumps.
package run

import (
	"context"
	"errors"
	"fmt"
	"strings"
	"sync"
	"time"

	"github.com/Breeze0806/gobinlog"

	"verifharness/hist"
	"verifharness/sim"
	"verifharness/xport"
)

// DCol is a snapshot of one delivered column.
type DCol struct {
	Name    string `json:"name"`
	Type    int    `json:"type"`
	IsEmpty bool   `json:"is_empty"`
	Data    []byte `json:"data"` // nil preserved
}

// DEvent is a snapshot of one delivered event.
type DEvent struct {
	Type    int       `json:"type"`
	DB      string    `json:"db"`
	Table   string    `json:"table"`
	QueryDB string    `json:"query_db"`
	SQL     string    `json:"sql"`
	Charset *[3]int32 `json:"charset"`
	TS      int64     `json:"ts"`
	Values  [][]DCol  `json:"values"`
	Idents  [][]DCol  `json:"idents"`
	NilRow  bool      `json:"nil_row,omitempty"`
}

// Delivered is one handler call.
type Delivered struct {
	Attempt  int                   `json:"attempt"`
	N        int                   `json:"n"` // ordinal within the attempt
	Now      hist.Pos              `json:"now"`
	Next     hist.Pos              `json:"next"`
	TS       int64                 `json:"ts"`
	Events   []DEvent              `json:"events"`
	EntrySeq int64                 `json:"entry_seq"`
	ExitSeq  int64                 `json:"exit_seq"`
	Accepted bool                  `json:"accepted"`
	Ptr      *gobinlog.Transaction `json:"-"`
}

// Snapshot deep-copies a transaction.
func Snapshot(tx *gobinlog.Transaction) *Delivered {
	// strings are cloned: a snapshot must not share memory with the delivery
	d := &Delivered{Now: hist.Pos{File: strings.Clone(tx.NowPosition.Filename), Off: tx.NowPosition.Offset},
		Next: hist.Pos{File: strings.Clone(tx.NextPosition.Filename), Off: tx.NextPosition.Offset}, TS: tx.Timestamp, Ptr: tx}
	for _, e := range tx.Events {
		if e == nil {
			d.Events = append(d.Events, DEvent{NilRow: true})
			continue
		}
		de := DEvent{Type: int(e.Type), DB: strings.Clone(e.Table.DbName), Table: strings.Clone(e.Table.TableName),
			QueryDB: strings.Clone(e.Query.Database), SQL: strings.Clone(e.Query.SQL), TS: e.Timestamp}
		if e.Query.Charset != nil {
			de.Charset = &[3]int32{e.Query.Charset.Client, e.Query.Charset.Conn, e.Query.Charset.Server}
		}
		de.Values = snapRows(e.RowValues)
		de.Idents = snapRows(e.RowIdentifies)
		d.Events = append(d.Events, de)
	}
	return d
}

func snapRows(rows []*gobinlog.RowData) [][]DCol {
	var out [][]DCol
	for _, r := range rows {
		if r == nil {
			out = append(out, nil)
			continue
		}
		cols := make([]DCol, len(r.Columns))
		for i, c := range r.Columns {
			if c == nil {
				continue
			}
			cols[i] = DCol{Name: strings.Clone(c.Filed), Type: int(c.Type), IsEmpty: c.IsEmpty}
			if c.Data != nil {
				cols[i].Data = append([]byte{}, c.Data...)
			}
		}
		out = append(out, cols)
	}
	return out
}

// ---------------------------------------------------------------- mapper

type mCol struct {
	name     string
	unsigned bool
}

func (c mCol) Field() string       { return c.name }
func (c mCol) IsUnSignedInt() bool { return c.unsigned }

type mTable struct {
	name gobinlog.MysqlTableName
	cols []gobinlog.MysqlColumn
}

func (t *mTable) Name() gobinlog.MysqlTableName   { return t.name }
func (t *mTable) Columns() []gobinlog.MysqlColumn { return t.cols }

// MapperCall is one lookup received by the mapper.
type MapperCall struct {
	DB, Table string
	Seq       int64
	Result    string // "ok", "error", "wrong-count", "unknown"
}

// Mapper is the scripted table mapper.
type Mapper struct {
	mu        sync.Mutex
	tables    map[[2]string]*hist.Table
	Calls     []MapperCall
	ErrOnCall int    // 1-based ordinal of the call that fails (0 = never); counted over the session
	BadOnCall int    // 1-based ordinal of the call that returns a wrong column count
	BadDelta  int    // +1 or -1
	OnFail    func() // called (inside the lookup) just before a scripted failure is returned
	// Versions: for a table name, what the mapper answers on its 1st, 2nd, ...
	// lookup of that name (a schema that changes over time); nil = always the
	// first version of the history
	Versions   map[[2]string][]*hist.Table
	lookups    map[[2]string]int
	tr         *sim.Trace
	totalCalls int
}

// NewMapper builds a mapper over the tables of a history (by db and name; the
// first version of a name defines column names and signedness).
// BadTable is known to every mapper and announced by no history: fault
// injection uses it for rows events whose cells cannot be decoded.
var BadTable = &hist.Table{ID: 0xBAD0BAD, DB: "verif_bad", Name: "j", Flags: 1,
	Cols: []hist.Column{{Name: "id", Type: 3}, {Name: "doc", Type: 245, Meta: 4, Nullable: true}}}

func NewMapper(tables []*hist.Table, tr *sim.Trace) *Mapper {
	m := &Mapper{tables: map[[2]string]*hist.Table{}, tr: tr}
	m.tables[[2]string{BadTable.DB, BadTable.Name}] = BadTable
	for _, t := range tables {
		k := [2]string{t.DB, t.Name}
		if _, ok := m.tables[k]; !ok {
			m.tables[k] = t
		}
	}
	return m
}

// ErrMapper is the error the scripted mapper returns.
var ErrMapper = errors.New("verif: scripted mapper failure")

// MysqlTable implements gobinlog.MysqlTableMapper.
func (m *Mapper) MysqlTable(name gobinlog.MysqlTableName) (gobinlog.MysqlTable, error) {
	m.mu.Lock()
	defer m.mu.Unlock()
	m.totalCalls++
	call := MapperCall{DB: name.DbName, Table: name.TableName}
	if m.tr != nil {
		call.Seq = m.tr.Add("mapper", int64(m.totalCalls), 0, name.DbName+"."+name.TableName)
	}
	t, ok := m.tables[[2]string{name.DbName, name.TableName}]
	if !ok {
		call.Result = "unknown"
		m.Calls = append(m.Calls, call)
		return nil, fmt.Errorf("verif: unknown table %s.%s", name.DbName, name.TableName)
	}
	if m.ErrOnCall != 0 && m.totalCalls == m.ErrOnCall {
		call.Result = "error"
		m.Calls = append(m.Calls, call)
		if m.OnFail != nil {
			m.OnFail()
		}
		return nil, ErrMapper
	}
	if vs := m.Versions[[2]string{name.DbName, name.TableName}]; len(vs) > 0 {
		if m.lookups == nil {
			m.lookups = map[[2]string]int{}
		}
		k := m.lookups[[2]string{name.DbName, name.TableName}]
		m.lookups[[2]string{name.DbName, name.TableName}] = k + 1
		if k >= len(vs) {
			k = len(vs) - 1
		}
		t = vs[k]
	}
	mt := &mTable{name: name}
	for _, c := range t.Cols {
		mt.cols = append(mt.cols, mCol{c.Name, c.Unsigned})
	}
	call.Result = "ok"
	if m.BadOnCall != 0 && m.totalCalls == m.BadOnCall {
		call.Result = "wrong-count"
		if m.OnFail != nil {
			m.OnFail()
		}
		if m.BadDelta < 0 && len(mt.cols) > 0 {
			mt.cols = mt.cols[:len(mt.cols)-1]
		} else {
			mt.cols = append(mt.cols, mCol{"extra", false})
		}
	}
	m.Calls = append(m.Calls, call)
	return mt, nil
}

// CallList copies the calls received so far.
func (m *Mapper) CallList() []MapperCall {
	m.mu.Lock()
	defer m.mu.Unlock()
	return append([]MapperCall(nil), m.Calls...)
}

// TotalCalls is the number of lookups so far.
func (m *Mapper) TotalCalls() int { m.mu.Lock(); defer m.mu.Unlock(); return m.totalCalls }

// ---------------------------------------------------------------- session

// HandlerScript says how the handler behaves during one attempt. Ordinals are
// 0-based within the attempt; -1 disables.
type HandlerScript struct {
	ErrAt    int
	CancelAt int
	BlockAt  int
	SlowUS   int
	// InlineError makes the goroutine that called Stream call Error() right
	// after Stream returned, with no delay in between (the way a caller would)
	InlineError bool
	// WithDeadline runs the attempt under a context that also carries a (far) deadline
	WithDeadline bool
	// ErrValue, when set, is what the handler returns at ErrAt (default ErrHandler)
	ErrValue error
	// DeadlineIn > 0 runs the attempt under a context whose deadline is that near
	DeadlineIn time.Duration
	OnCall     func(n int, tx *gobinlog.Transaction, d *Delivered) // extra monitor (C08)
}

// NoFaults is a handler that accepts everything.
func NoFaults() HandlerScript { return HandlerScript{ErrAt: -1, CancelAt: -1, BlockAt: -1} }

// ErrHandler is what the scripted handler returns on failure.
var ErrHandler = errors.New("verif: scripted handler failure")

// Session is one Streamer under test with its master.
type Session struct {
	Layout  *hist.Layout
	M       *sim.Master
	Tr      *sim.Trace
	S       *gobinlog.Streamer
	Addr    string
	Wrapped bool
	Mapper  *Mapper

	mu           sync.Mutex
	streamActive bool
	inFlight     int
	deliveries   []*Delivered
	guard        []string
	abandoned    map[int64]bool
	attempts     int
	cancel       context.CancelFunc
	gate         chan struct{}
	blocked      chan struct{}
	streamGID    int64
	ctx          context.Context
}

// Ctx is the context of the most recent attempt.
func (s *Session) Ctx() context.Context { s.mu.Lock(); defer s.mu.Unlock(); return s.ctx }

// NewSession starts a master for the layout and creates the streamer.
func NewSession(l *hist.Layout, tables []*hist.Table, serverID uint32, start hist.Pos, wrapped bool) (*Session, error) {
	xport.Register()
	tr := &sim.Trace{}
	m, err := sim.NewMaster(l, tr)
	if err != nil {
		return nil, err
	}
	s := &Session{Layout: l, M: m, Tr: tr, Addr: m.Addr(), Wrapped: wrapped, abandoned: map[int64]bool{}}
	s.Mapper = NewMapper(tables, tr)
	st, err := gobinlog.NewStreamer(xport.DSN(s.Addr, wrapped), serverID, s.Mapper)
	if err != nil {
		m.Close()
		return nil, err
	}
	st.SetBinlogPosition(gobinlog.Position{Filename: start.File, Offset: start.Off})
	s.S = st
	return s, nil
}

// Close stops the master and forgets transport bookkeeping.
func (s *Session) Close() {
	s.M.Close()
	xport.Forget(s.Addr)
}

// Cancel cancels the context of the running attempt.
func (s *Session) Cancel() {
	s.mu.Lock()
	c := s.cancel
	s.mu.Unlock()
	if c != nil {
		s.Tr.Add("cancel", 0, 0, "")
		c()
	}
}

// ReleaseHandler lets a handler parked at BlockAt continue.
func (s *Session) ReleaseHandler() {
	s.mu.Lock()
	g := s.gate
	s.mu.Unlock()
	if g != nil {
		select {
		case g <- struct{}{}:
		default:
		}
	}
}

// Blocked is signalled when the handler parks at BlockAt.
func (s *Session) Blocked() <-chan struct{} {
	s.mu.Lock()
	defer s.mu.Unlock()
	return s.blocked
}

// Deliveries returns all handler calls so far.
func (s *Session) Deliveries() []*Delivered {
	s.mu.Lock()
	defer s.mu.Unlock()
	return append([]*Delivered(nil), s.deliveries...)
}

// GuardBreaches returns handler-guard violations (overlap, outside Stream).
func (s *Session) GuardBreaches() []string {
	s.mu.Lock()
	defer s.mu.Unlock()
	return append([]string(nil), s.guard...)
}

// Abandon marks a goroutine (a blocked Error() call) as given up.
func (s *Session) Abandon(id int64) { s.mu.Lock(); s.abandoned[id] = true; s.mu.Unlock() }

func (s *Session) skipSet(extra ...int64) map[int64]bool {
	s.mu.Lock()
	defer s.mu.Unlock()
	m := make(map[int64]bool, len(s.abandoned)+len(extra))
	for k := range s.abandoned {
		m[k] = true
	}
	for _, e := range extra {
		m[e] = true
	}
	return m
}

// AttemptResult is what one Stream call produced.
type AttemptResult struct {
	Attempt       int
	Err           error
	Panic         string
	Verdict       Verdict // Returned / Stuck / Undecided
	StuckDump     []G
	Delivered     []*Delivered
	Conn          *sim.ConnLog  // master-side log of the connection of this attempt (nil if none was accepted)
	XConn         *xport.Conn   // client-side transport (nil if not wrapped / not dialled)
	XConns        []*xport.Conn // every client-side transport the attempt dialled
	Dump          *sim.DumpReq  // the dump request of this attempt (nil if none arrived)
	ConnsMade     int           // connections the master accepted during this attempt
	DumpsMade     int
	DumpConn      *sim.ConnLog // the connection that carried the first dump request (nil if none)
	InlineErrDone bool         // Error() was called inline right after Stream returned
	InlineErr     error
	Done          chan struct{}
	StreamGID     int64
}

// Start launches one Stream call and returns immediately; Wait collects it.
type Running struct {
	s       *Session
	res     *AttemptResult
	done    chan struct{}
	connsAt int
	xAt     int
	from    int
}

// Start begins an attempt.
func (s *Session) Start(hs HandlerScript, xo *xport.Options) *Running {
	ctx, cancel := context.WithCancel(context.Background())
	if hs.WithDeadline {
		dctx, dcancel := context.WithDeadline(ctx, time.Now().Add(24*time.Hour))
		ctx = dctx
		oc := cancel
		cancel = func() { dcancel(); oc() }
	}
	if hs.DeadlineIn > 0 {
		dctx, dcancel := context.WithDeadline(ctx, time.Now().Add(hs.DeadlineIn))
		ctx = dctx
		oc := cancel
		cancel = func() { dcancel(); oc() }
	}
	s.mu.Lock()
	att := s.attempts
	s.attempts++
	s.cancel = cancel
	s.ctx = ctx
	s.gate = make(chan struct{}, 1)
	s.blocked = make(chan struct{}, 1)
	from := len(s.deliveries)
	s.mu.Unlock()
	if xo != nil && s.Wrapped {
		xport.Push(s.Addr, *xo)
	}
	r := &Running{s: s, res: &AttemptResult{Attempt: att}, done: make(chan struct{}), connsAt: len(s.M.Conns()),
		xAt: len(xport.Conns(s.Addr)), from: from}
	r.res.Done = r.done
	count := 0
	handler := func(tx *gobinlog.Transaction) error {
		entry := s.Tr.Add("handler-enter", int64(att), 0, "")
		s.mu.Lock()
		if !s.streamActive {
			s.guard = append(s.guard, "handler called while no Stream call is in progress")
		}
		if s.inFlight != 0 {
			s.guard = append(s.guard, "handler entered while another handler call is in flight")
		}
		s.inFlight++
		n := count
		count++
		s.mu.Unlock()
		d := Snapshot(tx)
		d.Attempt, d.N, d.EntrySeq = att, n, entry
		var err error
		if hs.OnCall != nil {
			hs.OnCall(n, tx, d)
		}
		if hs.SlowUS > 0 {
			time.Sleep(time.Duration(hs.SlowUS) * time.Microsecond)
		}
		if n == hs.BlockAt {
			select {
			case s.blocked <- struct{}{}:
			default:
			}
			s.Tr.Add("handler-blocked", int64(att), int64(n), "")
			<-s.gate
		}
		if n == hs.CancelAt {
			s.Tr.Add("cancel", int64(att), int64(n), "handler")
			cancel()
		}
		if n == hs.ErrAt {
			err = ErrHandler
			if hs.ErrValue != nil {
				err = hs.ErrValue
			}
		}
		d.Accepted = err == nil
		d.ExitSeq = s.Tr.Add("handler-exit", int64(att), int64(n), "")
		s.mu.Lock()
		s.inFlight--
		s.deliveries = append(s.deliveries, d)
		s.mu.Unlock()
		s.M.Ack()
		return err
	}
	s.mu.Lock()
	s.streamActive = true
	s.mu.Unlock()
	s.Tr.Add("stream-call", int64(att), 0, "")
	go func() {
		r.res.StreamGID = CurGoID()
		s.mu.Lock()
		s.streamGID = r.res.StreamGID
		s.mu.Unlock()
		defer close(r.done)
		defer func() {
			if p := recover(); p != nil {
				r.res.Panic = fmt.Sprintf("%v", p)
			}
			s.mu.Lock()
			s.streamActive = false
			if s.inFlight != 0 {
				s.guard = append(s.guard, "a handler call was still in flight when Stream returned")
			}
			s.mu.Unlock()
			s.Tr.Add("stream-return", int64(att), 0, "")
		}()
		r.res.Err = s.S.Stream(ctx, handler)
		if hs.InlineError {
			s.mu.Lock()
			s.streamActive = false
			s.mu.Unlock()
			r.res.InlineErr = s.S.Error()
			r.res.InlineErrDone = true
		}
	}()
	return r
}

// Wait waits for the Stream call with the quiescent-stuck rule.
func (r *Running) Wait(maxWait time.Duration) *AttemptResult {
	s := r.s
	v, gs := WaitQuiescent(r.done, func() []G { return LibGoroutines(s.skipSet()) }, func() bool { return s.masterQuiet() }, maxWait)
	r.res.Verdict = v
	r.res.StuckDump = gs
	all := s.Deliveries()
	if r.from < len(all) {
		r.res.Delivered = all[r.from:]
	}
	conns := s.M.Conns()
	r.res.ConnsMade = len(conns) - r.connsAt
	if r.connsAt < len(conns) {
		r.res.Conn = conns[r.connsAt]
		for _, c := range conns[r.connsAt:] {
			ds := c.Dumps()
			r.res.DumpsMade += len(ds)
			if r.res.Dump == nil && len(ds) > 0 {
				d := ds[0]
				r.res.Dump = &d
				r.res.DumpConn = c
				r.res.Conn = c // the attempt's connection is the one that asked for the dump
			}
		}
	}
	xs := xport.Conns(s.Addr)
	if r.xAt < len(xs) {
		r.res.XConn = xs[r.xAt]
		r.res.XConns = append([]*xport.Conn(nil), xs[r.xAt:]...)
	}
	return r.res
}

// masterQuiet: every connection of the master has finished its script or is
// held, so nothing more will be written to any client socket.
func (s *Session) masterQuiet() bool {
	for _, c := range s.M.Conns() {
		sn := c.Snapshot()
		if !(sn.Finished || sn.PeerClosed || sn.QuitSeen || sn.HoldReached) {
			return false
		}
	}
	return true
}

// Attempt runs one Stream call to completion.
func (s *Session) Attempt(hs HandlerScript, xo *xport.Options, maxWait time.Duration) *AttemptResult {
	return s.Start(hs, xo).Wait(maxWait)
}

// ErrorResult is the outcome of one Error() call.
type ErrorResult struct {
	Err     error
	Panic   string
	Verdict Verdict
	Dump    []G
}

// CallError calls Streamer.Error() under the quiescent-stuck rule. A call that
// is stuck is abandoned (its goroutine is excluded from later scans).
func (s *Session) CallError(maxWait time.Duration) *ErrorResult {
	res := &ErrorResult{}
	done := make(chan struct{})
	gid := make(chan int64, 1)
	s.Tr.Add("error-call", 0, 0, "")
	go func() {
		gid <- CurGoID()
		defer close(done)
		defer func() {
			if p := recover(); p != nil {
				res.Panic = fmt.Sprintf("%v", p)
			}
		}()
		res.Err = s.S.Error()
	}()
	id := <-gid
	v, gs := WaitQuiescent(done, func() []G { return LibGoroutines(s.skipSet()) }, func() bool { return s.masterQuiet() }, maxWait)
	res.Verdict = v
	res.Dump = gs
	if v != Returned {
		s.Abandon(id)
	}
	s.Tr.Add("error-return", int64(v), 0, "")
	return res
}

// Leftovers waits for the library's goroutines to disappear after a Stream
// call returned. It returns Returned when none is left, Stuck with the
// survivors when they can never end, Undecided otherwise.
func (s *Session) Leftovers(maxWait time.Duration) (Verdict, []G) {
	done := make(chan struct{})
	stop := make(chan struct{})
	go func() {
		d := 100 * time.Microsecond
		for {
			if len(LibGoroutines(s.skipSet())) == 0 {
				close(done)
				return
			}
			select {
			case <-stop:
				return
			case <-time.After(d):
			}
			if d < 50*time.Millisecond {
				d *= 2
			}
		}
	}()
	v, gs := WaitQuiescent(done, func() []G { return LibGoroutines(s.skipSet()) }, func() bool { return s.masterQuiet() }, maxWait)
	close(stop)
	return v, gs
}

// Done is closed when the Stream call has returned.
func (r *Running) Done() <-chan struct{} { return r.done }

// libOwned returns the goroutines the library itself started for this
// session: library frames, no harness frame, not the Stream caller, not given
// up earlier. They are recognised by structure, not by function name, so that
// renaming or re-arranging the library's internals does not blind the monitor.
func (s *Session) libOwned() (owned []G, caller *G) {
	s.mu.Lock()
	sg := s.streamGID
	s.mu.Unlock()
	for _, g := range LibGoroutines(s.skipSet()) {
		g := g
		if g.ID == sg {
			caller = &g
			continue
		}
		harness, lib := false, false
		for _, f := range g.Frames {
			if strings.HasPrefix(f, "verifharness/") && !strings.HasPrefix(f, "verifharness/xport.") { // the transport wrapper is a pass-through
				harness = true
			}
			if strings.HasPrefix(f, "github.com/Breeze0806/gobinlog") {
				lib = true
			}
		}
		if lib && !harness {
			owned = append(owned, g)
		}
	}
	return owned, caller
}

// ReaderState classifies what the library's own goroutine(s) are doing:
// "network" (blocked reading the connection), "holding" (blocked handing an
// event over), "running", or "none".
func (s *Session) ReaderState() string {
	owned, caller := s.libOwned()
	if caller != nil && caller.IOWait() {
		return "network" // a library without a reader goroutine: Stream's caller reads itself
	}
	st := "none"
	for _, g := range owned {
		switch {
		case g.IOWait():
			return "network"
		case strings.HasPrefix(g.State, "select") || strings.HasPrefix(g.State, "chan send"):
			st = "holding"
		default:
			if st == "none" {
				st = "running"
			}
		}
	}
	return st
}

// CallerIdle reports whether the goroutine inside Stream is parked waiting for
// another goroutine or for the network (nothing left for it to consume).
func (s *Session) CallerIdle() bool {
	_, c := s.libOwned()
	return c != nil && (c.Parked() || c.IOWait())
}

// WaitBlocked waits until the scripted handler call blocks. It gives up when
// the Stream call returns, when maxWait passes, or as soon as nothing can
// happen any more: the master has sent all it is going to send, the library's
// reader waits for the network and the Stream caller is parked (the
// transaction the script waits for was never delivered).
func (s *Session) WaitBlocked(rn *Running, maxWait time.Duration) bool {
	deadline := time.After(maxWait)
	tick := time.NewTicker(25 * time.Millisecond)
	defer tick.Stop()
	idle := 0
	for {
		select {
		case <-s.Blocked():
			return true
		case <-rn.Done():
			return false
		case <-deadline:
			return false
		case <-tick.C:
			if len(s.M.Conns()) > 0 && s.masterQuiet() && s.ReaderState() == "network" && s.CallerIdle() {
				idle++
				if idle >= 8 {
					select {
					case <-s.Blocked():
						return true
					default:
					}
					return false
				}
			} else {
				idle = 0
			}
		}
	}
}
