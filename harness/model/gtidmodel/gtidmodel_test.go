package gtidmodel

import (
	"math"
	"testing"
)

// The two MySQL 5.6 models must agree on every subset of a window of 8 and
// every single add; text and SID block must round-trip through the model's own
// readers.
func TestModelsAgree(t *testing.T) {
	sid := SID{0xde, 0xad, 0xbe, 0xef, 1, 2, 3, 4, 5, 6, 7, 8, 9, 10, 11, 12}
	mk := func(mask int) (Set56, IvSet56) {
		p, iv := Set56{}, IvSet56{}
		for b := 0; b < 8; b++ {
			if mask>>b&1 == 1 {
				p = p.Add(sid, int64(b+1))
				iv = iv.Add(sid, int64(b+1))
			}
		}
		return p, iv
	}
	for a := 0; a < 256; a++ {
		pa, ia := mk(a)
		if !pa.Intervals().Equal(ia) || pa.String() != ia.String() {
			t.Fatalf("mask %d: %q vs %q", a, pa.String(), ia.String())
		}
		es, err := ParseText56(ia.String())
		if err != nil || !IsCanonical(es) || !FromEntries(es).Equal(ia) {
			t.Fatalf("text round trip %q: %v", ia.String(), err)
		}
		bs, err := DecodeSIDBlock(ia.SIDBlock())
		if err != nil || !IsCanonical(bs) || !FromEntries(bs).Equal(ia) {
			t.Fatalf("block round trip %q: %v", ia.String(), err)
		}
		for b := 0; b < 256; b++ {
			pb, ib := mk(b)
			if pa.Contains(pb) != (a&b == b) || ia.Contains(ib) != (a&b == b) {
				t.Fatalf("contains %d %d", a, b)
			}
			if pa.Equal(pb) != (a == b) || ia.Equal(ib) != (a == b) {
				t.Fatalf("equal %d %d", a, b)
			}
		}
		for n := int64(1); n <= 10; n++ {
			if pa.Has(sid, n) != ia.Has(sid, n) {
				t.Fatalf("has %d %d", a, n)
			}
		}
	}
	if got := (IvSet56{}).AddInterval(sid, 1, 5).Add(sid, 7).AddInterval(sid, 9, 10).String(); got != "deadbeef-0102-0304-0506-0708090a0b0c:1-5:7:9-10" {
		t.Fatalf("rendering: %q", got)
	}
	top := (IvSet56{}).Add(sid, math.MaxInt64).Add(sid, math.MaxInt64-1)
	if top.String() != "deadbeef-0102-0304-0506-0708090a0b0c:9223372036854775806-9223372036854775807" {
		t.Fatalf("top: %q", top.String())
	}
	bs, err := DecodeSIDBlock(top.SIDBlock())
	if err != nil || !FromEntries(bs).Equal(top) {
		t.Fatalf("top block: %v %v", bs, err)
	}
	if IsCanonical([]SIDEntry{{sid, []Interval{{1, 2}, {3, 4}}}}) || IsCanonical([]SIDEntry{{sid, []Interval{{5, 6}, {1, 2}}}}) {
		t.Fatal("IsCanonical accepts adjacent/unsorted")
	}
}

func TestMaria(t *testing.T) {
	s, ok := MariaFromList([]MariaGTID{{1, 2, 3}, {0, 9, 9}})
	if !ok || s.String() != "1-2-3,0-9-9" {
		t.Fatal(s.String())
	}
	s2 := s.Add(MariaGTID{1, 7, 4}).Add(MariaGTID{0, 1, 1}).Add(MariaGTID{5, 5, 5})
	if s2.String() != "1-7-4,0-9-9,5-5-5" || s.String() != "1-2-3,0-9-9" {
		t.Fatal(s2.String(), s.String())
	}
	if !s2.Contains(s) || s.Contains(s2) || !s2.ContainsGTID(MariaGTID{1, 0, 4}) || s2.ContainsGTID(MariaGTID{1, 0, 5}) || s2.ContainsGTID(MariaGTID{2, 0, 1}) {
		t.Fatal("contains")
	}
	if _, ok := MariaFromList([]MariaGTID{{1, 2, 3}, {1, 9, 9}}); ok {
		t.Fatal("dup domain accepted")
	}
}
