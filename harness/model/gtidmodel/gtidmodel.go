// Package gtidmodel holds the executable sequential models the GTID checks
// (C18, C19) compare the library with. Nothing here is derived from the
// repository's code: the formats are the ones MySQL documents
// (rpl_gtid_set.cc: textual `uuid:1-5:7`, binary "SID block") and the MariaDB
// knowledge base (`domain-server-sequence`, one position per domain).
//
// MySQL 5.6 has two models on purpose:
//
//   - Set56, the literal statement of the property: a set of (SID, number)
//     pairs kept as map[SID]map[int64]bool. Only usable for small windows.
//   - IvSet56, sorted disjoint non-adjacent inclusive intervals per SID, for
//     numbers up to 2^63-1.
//
// The exhaustive part of C18 runs both and compares them with each other, so a
// mistake in the interval arithmetic of IvSet56 shows up as a model
// disagreement and not as a verdict about the library.
//
// All operations are persistent: they return new values and never modify
// their receiver.
package gtidmodel

import (
	"encoding/binary"
	"errors"
	"fmt"
	"math"
	"sort"
	"strconv"
	"strings"
)

// ---------------------------------------------------------------- SID

// SID is a 16-byte server UUID.
type SID [16]byte

const hexDigits = "0123456789abcdef"

// String renders 8-4-4-4-12 lowercase hex.
func (s SID) String() string {
	out := make([]byte, 0, 36)
	for i, b := range s {
		if i == 4 || i == 6 || i == 8 || i == 10 {
			out = append(out, '-')
		}
		out = append(out, hexDigits[b>>4], hexDigits[b&15])
	}
	return string(out)
}

func unhex(c byte) (byte, bool) {
	switch {
	case c >= '0' && c <= '9':
		return c - '0', true
	case c >= 'a' && c <= 'f':
		return c - 'a' + 10, true
	case c >= 'A' && c <= 'F':
		return c - 'A' + 10, true
	}
	return 0, false
}

// ParseSID reads the 36-character form.
func ParseSID(s string) (SID, error) {
	var sid SID
	if len(s) != 36 {
		return sid, fmt.Errorf("sid %q: length %d", s, len(s))
	}
	j := 0
	for i := 0; i < 36; {
		if i == 8 || i == 13 || i == 18 || i == 23 {
			if s[i] != '-' {
				return sid, fmt.Errorf("sid %q: no dash at %d", s, i)
			}
			i++
			continue
		}
		hi, ok1 := unhex(s[i])
		lo, ok2 := unhex(s[i+1])
		if !ok1 || !ok2 {
			return sid, fmt.Errorf("sid %q: bad hex at %d", s, i)
		}
		sid[j] = hi<<4 | lo
		j++
		i += 2
	}
	return sid, nil
}

// CompareSID orders SIDs bytewise (the order MySQL prints and sends them in).
func CompareSID(a, b SID) int {
	for i := 0; i < 16; i++ {
		if a[i] != b[i] {
			if a[i] < b[i] {
				return -1
			}
			return 1
		}
	}
	return 0
}

func sortSIDs(s []SID) {
	sort.Slice(s, func(i, j int) bool { return CompareSID(s[i], s[j]) < 0 })
}

// ---------------------------------------------------------------- point model

// Set56 is a set of (SID, number) pairs. A SID with no numbers is never stored.
type Set56 map[SID]map[int64]bool

// Clone copies the set.
func (p Set56) Clone() Set56 {
	out := make(Set56, len(p))
	for sid, m := range p {
		mm := make(map[int64]bool, len(m))
		for n := range m {
			mm[n] = true
		}
		out[sid] = mm
	}
	return out
}

// Add returns the union with {(sid, n)}.
func (p Set56) Add(sid SID, n int64) Set56 {
	out := p.Clone()
	if out[sid] == nil {
		out[sid] = map[int64]bool{}
	}
	out[sid][n] = true
	return out
}

// Has reports membership.
func (p Set56) Has(sid SID, n int64) bool { return p[sid][n] }

// Contains reports p ⊇ o.
func (p Set56) Contains(o Set56) bool {
	for sid, m := range o {
		for n := range m {
			if !p[sid][n] {
				return false
			}
		}
	}
	return true
}

// Equal reports p = o.
func (p Set56) Equal(o Set56) bool { return p.Contains(o) && o.Contains(p) }

// Size is the number of pairs.
func (p Set56) Size() int {
	n := 0
	for _, m := range p {
		n += len(m)
	}
	return n
}

// Intervals groups the points into maximal runs.
func (p Set56) Intervals() IvSet56 {
	out := IvSet56{}
	for sid, m := range p {
		if len(m) == 0 {
			continue
		}
		ns := make([]int64, 0, len(m))
		for n := range m {
			ns = append(ns, n)
		}
		sort.Slice(ns, func(i, j int) bool { return ns[i] < ns[j] })
		var ivs []Interval
		for _, n := range ns {
			if k := len(ivs); k > 0 && ivs[k-1].End != math.MaxInt64 && ivs[k-1].End+1 == n {
				ivs[k-1].End = n
			} else {
				ivs = append(ivs, Interval{n, n})
			}
		}
		out[sid] = ivs
	}
	return out
}

// String is the canonical text.
func (p Set56) String() string { return p.Intervals().String() }

// ---------------------------------------------------------------- interval model

// Interval is start..end, both inclusive, 1 <= Start <= End.
type Interval struct {
	Start int64 `json:"start"`
	End   int64 `json:"end"`
}

// IvSet56 maps a SID to its sorted, disjoint, non-adjacent intervals. A SID
// with no interval is never stored.
type IvSet56 map[SID][]Interval

// NormalizeIntervals sorts and merges overlapping or adjacent intervals and
// drops empty ones (End < Start).
func NormalizeIntervals(in []Interval) []Interval {
	tmp := make([]Interval, 0, len(in))
	for _, iv := range in {
		if iv.End >= iv.Start {
			tmp = append(tmp, iv)
		}
	}
	sort.Slice(tmp, func(i, j int) bool {
		if tmp[i].Start != tmp[j].Start {
			return tmp[i].Start < tmp[j].Start
		}
		return tmp[i].End < tmp[j].End
	})
	var out []Interval
	for _, iv := range tmp {
		k := len(out)
		if k > 0 && (out[k-1].End == math.MaxInt64 || iv.Start <= out[k-1].End+1) {
			if iv.End > out[k-1].End {
				out[k-1].End = iv.End
			}
			continue
		}
		out = append(out, iv)
	}
	return out
}

// Clone copies the set.
func (s IvSet56) Clone() IvSet56 {
	out := make(IvSet56, len(s))
	for sid, ivs := range s {
		out[sid] = append([]Interval(nil), ivs...)
	}
	return out
}

// Add returns the union with {(sid, n)}.
func (s IvSet56) Add(sid SID, n int64) IvSet56 {
	out := s.Clone()
	out[sid] = NormalizeIntervals(append(out[sid], Interval{n, n}))
	return out
}

// AddInterval returns the union with sid:start-end.
func (s IvSet56) AddInterval(sid SID, start, end int64) IvSet56 {
	out := s.Clone()
	ivs := NormalizeIntervals(append(out[sid], Interval{start, end}))
	if len(ivs) == 0 {
		delete(out, sid)
	} else {
		out[sid] = ivs
	}
	return out
}

// Has reports membership of (sid, n).
func (s IvSet56) Has(sid SID, n int64) bool {
	for _, iv := range s[sid] {
		if iv.Start <= n && n <= iv.End {
			return true
		}
	}
	return false
}

// Contains reports s ⊇ o. Both sides are normalised, so between two intervals
// of s at least one number is missing and an interval of o is covered iff a
// single interval of s covers it.
func (s IvSet56) Contains(o IvSet56) bool {
	for sid, ivs := range o {
		for _, iv := range ivs {
			ok := false
			for _, mine := range s[sid] {
				if mine.Start <= iv.Start && iv.End <= mine.End {
					ok = true
					break
				}
			}
			if !ok {
				return false
			}
		}
	}
	return true
}

// Equal reports s = o (normal forms are unique).
func (s IvSet56) Equal(o IvSet56) bool {
	if len(s) != len(o) {
		return false
	}
	for sid, a := range s {
		b, ok := o[sid]
		if !ok || len(a) != len(b) {
			return false
		}
		for i := range a {
			if a[i] != b[i] {
				return false
			}
		}
	}
	return true
}

// SIDs lists the SIDs bytewise ascending.
func (s IvSet56) SIDs() []SID {
	out := make([]SID, 0, len(s))
	for sid := range s {
		out = append(out, sid)
	}
	sortSIDs(out)
	return out
}

// NumIntervals counts intervals over all SIDs.
func (s IvSet56) NumIntervals() int {
	n := 0
	for _, ivs := range s {
		n += len(ivs)
	}
	return n
}

// Count is the number of pairs, saturating at limit+1.
func (s IvSet56) Count(limit uint64) uint64 {
	var n uint64
	for _, ivs := range s {
		for _, iv := range ivs {
			n += uint64(iv.End-iv.Start) + 1
			if n > limit {
				return limit + 1
			}
		}
	}
	return n
}

// Points lists all pairs of a small set in (SID, number) order.
func (s IvSet56) Points() []Point {
	var out []Point
	for _, sid := range s.SIDs() {
		for _, iv := range s[sid] {
			for n := iv.Start; ; n++ {
				out = append(out, Point{sid, n})
				if n == iv.End {
					break
				}
			}
		}
	}
	return out
}

// Point is one transaction id.
type Point struct {
	SID SID
	N   int64
}

// String is the canonical text MySQL emits: SIDs bytewise ascending joined by
// ',', each `uuid:a-b:c` with intervals ascending; a single number for a==b.
func (s IvSet56) String() string {
	var b strings.Builder
	for i, sid := range s.SIDs() {
		if i > 0 {
			b.WriteByte(',')
		}
		b.WriteString(sid.String())
		for _, iv := range s[sid] {
			b.WriteByte(':')
			b.WriteString(strconv.FormatInt(iv.Start, 10))
			if iv.End != iv.Start {
				b.WriteByte('-')
				b.WriteString(strconv.FormatInt(iv.End, 10))
			}
		}
	}
	return b.String()
}

// SIDBlock is the binary form: n_sids[8] { sid[16] n_intervals[8]
// { start[8] end_exclusive[8] } }, little-endian, SIDs ascending.
func (s IvSet56) SIDBlock() []byte {
	var u [8]byte
	put := func(out []byte, v uint64) []byte {
		binary.LittleEndian.PutUint64(u[:], v)
		return append(out, u[:]...)
	}
	out := put(nil, uint64(len(s)))
	for _, sid := range s.SIDs() {
		out = append(out, sid[:]...)
		out = put(out, uint64(len(s[sid])))
		for _, iv := range s[sid] {
			out = put(out, uint64(iv.Start))
			out = put(out, uint64(iv.End)+1)
		}
	}
	return out
}

// SIDEntry is one SID with the intervals exactly as listed in some encoding
// (order kept, nothing merged): the raw observation of what a library printed.
type SIDEntry struct {
	SID       SID
	Intervals []Interval
}

// DecodeSIDBlock reads a SID block into the raw listing.
func DecodeSIDBlock(b []byte) ([]SIDEntry, error) {
	pos := 0
	u64 := func() (uint64, error) {
		if pos+8 > len(b) {
			return 0, errors.New("sid block truncated")
		}
		v := binary.LittleEndian.Uint64(b[pos:])
		pos += 8
		return v, nil
	}
	n, err := u64()
	if err != nil {
		return nil, err
	}
	if n > uint64(len(b)) {
		return nil, fmt.Errorf("sid block: n_sids %d too large", n)
	}
	var out []SIDEntry
	for i := uint64(0); i < n; i++ {
		if pos+16 > len(b) {
			return nil, errors.New("sid block truncated in sid")
		}
		var e SIDEntry
		copy(e.SID[:], b[pos:pos+16])
		pos += 16
		k, err := u64()
		if err != nil {
			return nil, err
		}
		if k > uint64(len(b)) {
			return nil, fmt.Errorf("sid block: n_intervals %d too large", k)
		}
		for j := uint64(0); j < k; j++ {
			st, err := u64()
			if err != nil {
				return nil, err
			}
			en, err := u64()
			if err != nil {
				return nil, err
			}
			e.Intervals = append(e.Intervals, Interval{int64(st), int64(en - 1)})
		}
		out = append(out, e)
	}
	if pos != len(b) {
		return nil, fmt.Errorf("sid block: %d trailing bytes", len(b)-pos)
	}
	return out, nil
}

// ParseText56 reads `uuid:a-b:c,uuid:…` into the raw listing (order kept,
// nothing merged). The empty string is the empty listing.
func ParseText56(text string) ([]SIDEntry, error) {
	if text == "" {
		return nil, nil
	}
	var out []SIDEntry
	for _, part := range strings.Split(text, ",") {
		f := strings.Split(part, ":")
		if len(f) < 2 {
			return nil, fmt.Errorf("uuid set %q: no interval", part)
		}
		sid, err := ParseSID(f[0])
		if err != nil {
			return nil, err
		}
		e := SIDEntry{SID: sid}
		for _, x := range f[1:] {
			var iv Interval
			if i := strings.IndexByte(x, '-'); i >= 0 {
				a, err1 := strconv.ParseInt(x[:i], 10, 64)
				b, err2 := strconv.ParseInt(x[i+1:], 10, 64)
				if err1 != nil || err2 != nil {
					return nil, fmt.Errorf("interval %q", x)
				}
				iv = Interval{a, b}
			} else {
				a, err := strconv.ParseInt(x, 10, 64)
				if err != nil {
					return nil, fmt.Errorf("interval %q", x)
				}
				iv = Interval{a, a}
			}
			e.Intervals = append(e.Intervals, iv)
		}
		out = append(out, e)
	}
	return out, nil
}

// FromEntries builds the set a raw listing denotes.
func FromEntries(es []SIDEntry) IvSet56 {
	out := IvSet56{}
	for _, e := range es {
		out[e.SID] = append(out[e.SID], e.Intervals...)
	}
	for sid, ivs := range out {
		n := NormalizeIntervals(ivs)
		if len(n) == 0 {
			delete(out, sid)
		} else {
			out[sid] = n
		}
	}
	return out
}

// IsCanonical reports whether a raw listing is in canonical form: SIDs strictly
// ascending, each with at least one interval, intervals valid, strictly
// ascending and separated by at least one missing number.
func IsCanonical(es []SIDEntry) bool {
	for i, e := range es {
		if i > 0 && CompareSID(es[i-1].SID, e.SID) >= 0 {
			return false
		}
		if len(e.Intervals) == 0 {
			return false
		}
		for j, iv := range e.Intervals {
			if iv.Start < 1 || iv.End < iv.Start {
				return false
			}
			if j > 0 {
				p := e.Intervals[j-1]
				if p.End == math.MaxInt64 || iv.Start <= p.End+1 {
					return false
				}
			}
		}
	}
	return true
}

// ---------------------------------------------------------------- MariaDB

// MariaGTID is domain-server-sequence.
type MariaGTID struct {
	Domain uint32 `json:"domain"`
	Server uint32 `json:"server"`
	Seq    uint64 `json:"seq"`
}

// String renders `domain-server-sequence`.
func (g MariaGTID) String() string {
	return strconv.FormatUint(uint64(g.Domain), 10) + "-" +
		strconv.FormatUint(uint64(g.Server), 10) + "-" +
		strconv.FormatUint(g.Seq, 10)
}

// MariaPos is the position held for one domain.
type MariaPos struct {
	Server uint32
	Seq    uint64
}

// MariaSet is a replication position: one (server, sequence) per domain. The
// order in which domains first appeared is remembered because the textual
// form lists members in that order.
type MariaSet struct {
	order []uint32
	pos   map[uint32]MariaPos
}

// MariaFromList builds a set from members; ok is false when two members
// share a domain (not a position).
func MariaFromList(l []MariaGTID) (MariaSet, bool) {
	s := MariaSet{pos: map[uint32]MariaPos{}}
	for _, g := range l {
		if _, dup := s.pos[g.Domain]; dup {
			return MariaSet{}, false
		}
		s.order = append(s.order, g.Domain)
		s.pos[g.Domain] = MariaPos{g.Server, g.Seq}
	}
	return s, true
}

// Len is the number of domains.
func (s MariaSet) Len() int { return len(s.order) }

// List returns the members in first-appearance order.
func (s MariaSet) List() []MariaGTID {
	out := make([]MariaGTID, 0, len(s.order))
	for _, d := range s.order {
		p := s.pos[d]
		out = append(out, MariaGTID{d, p.Server, p.Seq})
	}
	return out
}

// Get returns the member of a domain.
func (s MariaSet) Get(domain uint32) (MariaGTID, bool) {
	p, ok := s.pos[domain]
	return MariaGTID{domain, p.Server, p.Seq}, ok
}

// Add returns the position after g: the member of g's domain becomes g when
// g's sequence number is larger than the one held (or the domain is new); the
// receiver is not touched.
func (s MariaSet) Add(g MariaGTID) MariaSet {
	out := MariaSet{order: append([]uint32(nil), s.order...), pos: make(map[uint32]MariaPos, len(s.pos)+1)}
	for d, p := range s.pos {
		out.pos[d] = p
	}
	cur, ok := out.pos[g.Domain]
	if !ok {
		out.order = append(out.order, g.Domain)
		out.pos[g.Domain] = MariaPos{g.Server, g.Seq}
	} else if g.Seq > cur.Seq {
		out.pos[g.Domain] = MariaPos{g.Server, g.Seq}
	}
	return out
}

// ContainsGTID: the domain is present with a sequence number >= g's.
func (s MariaSet) ContainsGTID(g MariaGTID) bool {
	p, ok := s.pos[g.Domain]
	return ok && p.Seq >= g.Seq
}

// Contains: every member of o is contained.
func (s MariaSet) Contains(o MariaSet) bool {
	for _, g := range o.List() {
		if !s.ContainsGTID(g) {
			return false
		}
	}
	return true
}

// String joins the members with ','.
func (s MariaSet) String() string {
	l := s.List()
	parts := make([]string, len(l))
	for i, g := range l {
		parts[i] = g.String()
	}
	return strings.Join(parts, ",")
}
