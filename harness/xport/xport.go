// Package xport is the observing client transport: a net.Conn wrapper
// registered with the driver as dial network "verif". It records Read
// enter/exit, Close calls and byte counts, can split reads at scripted sizes,
// fail a read after N bytes and fail the n-th write. It never alters payloads.
package xport

import (
	"context"
	"errors"
	"net"
	"sync"
	"sync/atomic"
	"time"

	"github.com/Breeze0806/mysql"
)

// Options configures the next connection dialled to an address.
type Options struct {
	Chunks      []int // sizes for successive Reads (cyclic); nil = unlimited
	FailReadAt  int64 // fail the read once this many bytes were delivered (0 = never)
	FailWriteN  int   // fail the n-th Write (1-based, 0 = never)
	LateFailN   int   // the n-th Write reaches the peer completely and is then reported as failed (a timeout that fires after the bytes went out)
	FailDial    bool  // refuse to dial
	ReadDelayUS int   // sleep before each Read (schedule diversity only)
	AfterDial   func() // called when the TCP connection exists, before the dial function returns it
}

// Conn is the wrapper.
type Conn struct {
	net.Conn
	opt       Options
	inRead    int32
	reads     int64
	bytesRead int64
	writes    int64
	closed    int32
	closeCnt  int32
	chunkIdx  int
	mu        sync.Mutex
}

// InRead reports whether a Read call is in progress (the reader is waiting for the network).
func (c *Conn) InRead() bool { return atomic.LoadInt32(&c.inRead) > 0 }

// Closed reports whether Close was called.
func (c *Conn) Closed() bool { return atomic.LoadInt32(&c.closed) == 1 }

// CloseCalls is how often Close was called.
func (c *Conn) CloseCalls() int { return int(atomic.LoadInt32(&c.closeCnt)) }

// BytesRead is the number of bytes delivered to the driver.
func (c *Conn) BytesRead() int64 { return atomic.LoadInt64(&c.bytesRead) }

// Reads is the number of completed Read calls.
func (c *Conn) Reads() int64 { return atomic.LoadInt64(&c.reads) }

var errInjectedRead = errors.New("verif: injected read error")
var errInjectedWrite = errors.New("verif: injected write error")

func (c *Conn) Read(p []byte) (int, error) {
	atomic.AddInt32(&c.inRead, 1)
	defer atomic.AddInt32(&c.inRead, -1)
	if c.opt.ReadDelayUS > 0 {
		time.Sleep(time.Duration(c.opt.ReadDelayUS) * time.Microsecond)
	}
	if c.opt.FailReadAt > 0 && atomic.LoadInt64(&c.bytesRead) >= c.opt.FailReadAt {
		return 0, errInjectedRead
	}
	lim := len(p)
	if len(c.opt.Chunks) > 0 {
		c.mu.Lock()
		k := c.opt.Chunks[c.chunkIdx%len(c.opt.Chunks)]
		c.chunkIdx++
		c.mu.Unlock()
		if k > 0 && k < lim {
			lim = k
		}
	}
	if c.opt.FailReadAt > 0 {
		if rest := c.opt.FailReadAt - atomic.LoadInt64(&c.bytesRead); rest < int64(lim) {
			lim = int(rest)
		}
	}
	n, err := c.Conn.Read(p[:lim])
	atomic.AddInt64(&c.bytesRead, int64(n))
	atomic.AddInt64(&c.reads, 1)
	return n, err
}

func (c *Conn) Write(p []byte) (int, error) {
	w := atomic.AddInt64(&c.writes, 1)
	if c.opt.FailWriteN > 0 && int(w) == c.opt.FailWriteN {
		return 0, errInjectedWrite
	}
	if c.opt.LateFailN > 0 && int(w) == c.opt.LateFailN {
		if n, err := c.Conn.Write(p); err != nil {
			return n, err
		}
		return 0, errInjectedWrite
	}
	return c.Conn.Write(p)
}

func (c *Conn) Close() error {
	atomic.StoreInt32(&c.closed, 1)
	atomic.AddInt32(&c.closeCnt, 1)
	return c.Conn.Close()
}

var (
	regOnce sync.Once
	mu      sync.Mutex
	pending = map[string][]Options{} // addr -> options for the next dials
	dialled = map[string][]*Conn{}   // addr -> connections made
)

// Register installs the dial network "verif" (idempotent).
func Register() {
	regOnce.Do(func() {
		mysql.RegisterDialContext("verif", func(ctx context.Context, addr string) (net.Conn, error) {
			mu.Lock()
			var opt Options
			if q := pending[addr]; len(q) > 0 {
				opt = q[0]
				pending[addr] = q[1:]
			}
			mu.Unlock()
			if opt.FailDial {
				return nil, errors.New("verif: injected dial failure")
			}
			var d net.Dialer
			nc, err := d.DialContext(ctx, "tcp", addr)
			if err != nil {
				return nil, err
			}
			c := &Conn{Conn: nc, opt: opt}
			mu.Lock()
			dialled[addr] = append(dialled[addr], c)
			mu.Unlock()
			if opt.AfterDial != nil {
				opt.AfterDial()
			}
			return c, nil
		})
	})
}

// Push queues options for the next dial to addr.
func Push(addr string, o Options) {
	mu.Lock()
	pending[addr] = append(pending[addr], o)
	mu.Unlock()
}

// Conns returns the connections dialled to addr so far.
func Conns(addr string) []*Conn {
	mu.Lock()
	defer mu.Unlock()
	return append([]*Conn(nil), dialled[addr]...)
}

// Forget drops bookkeeping for addr.
func Forget(addr string) {
	mu.Lock()
	delete(pending, addr)
	delete(dialled, addr)
	mu.Unlock()
}

// DSN builds the data source name for a master address. wrapped selects the
// observing transport; otherwise plain tcp is used.
func DSN(addr string, wrapped bool) string {
	netw := "tcp"
	if wrapped {
		netw = "verif"
	}
	return "u:p@" + netw + "(" + addr + ")/db?maxAllowedPacket=4194304"
}
