// Package gen holds the seeded generators: columns with metadata from each
// type's full domain, values with their wire encoding and expected text,
// tables, and whole histories.
package gen

import (
	"math"
	"strconv"
	"time"

	"verifharness/core"
	"verifharness/enc/bjson"
	"verifharness/enc/ev"
	"verifharness/enc/val"
	"verifharness/hist"
)

// StreamTypes are the column types used in streamed histories, with weights.
var StreamTypes = []struct {
	T byte
	W int
}{
	{ev.TTiny, 4}, {ev.TShort, 3}, {ev.TInt24, 3}, {ev.TLong, 5}, {ev.TLongLong, 4},
	{ev.TFloat, 2}, {ev.TDouble, 2}, {ev.TYear, 1}, {ev.TTimestamp, 1}, {ev.TDate, 2},
	{ev.TTime, 1}, {ev.TDateTime, 1}, {ev.TNewDate, 1}, {ev.TVarchar, 6}, {ev.TVarString, 1},
	{ev.TBit, 2}, {ev.TTimestamp2, 2}, {ev.TDateTime2, 2}, {ev.TTime2, 2}, {ev.TJSON, 2},
	{ev.TNewDecimal, 4}, {ev.TEnum, 1}, {ev.TSet, 1}, {ev.TTinyBlob, 1}, {ev.TMediumBlob, 1},
	{ev.TLongBlob, 1}, {ev.TBlob, 4}, {ev.TString, 5}, {ev.TGeometry, 1},
}

var streamTypeTotal = func() int {
	n := 0
	for _, t := range StreamTypes {
		n += t.W
	}
	return n
}()

// PickType draws a column type.
func PickType(r *core.Rng) byte {
	k := r.Intn(streamTypeTotal)
	for _, t := range StreamTypes {
		if k < t.W {
			return t.T
		}
		k -= t.W
	}
	return ev.TLong
}

// IsInt reports whether the type is an integer type (signedness matters).
func IsInt(t byte) bool {
	return t == ev.TTiny || t == ev.TShort || t == ev.TInt24 || t == ev.TLong || t == ev.TLongLong
}

// StringMeta packs the TypeString metadata for a CHAR/BINARY of maxLen bytes.
func StringMeta(realType byte, maxLen int) uint16 {
	b0 := realType ^ byte((maxLen&0x300)>>4)
	return uint16(b0)<<8 | uint16(maxLen&0xff)
}

// RandMeta draws metadata from the type's valid domain. small keeps declared
// lengths modest (so that rows stay small) unless wide is set.
func RandMeta(r *core.Rng, t byte, wide bool) uint16 {
	switch t {
	case ev.TFloat:
		return 4
	case ev.TDouble:
		return 8
	case ev.TTimestamp2, ev.TDateTime2, ev.TTime2:
		return uint16(r.Intn(7))
	case ev.TJSON:
		return 4
	case ev.TTinyBlob, ev.TMediumBlob, ev.TLongBlob, ev.TBlob, ev.TGeometry:
		return uint16(1 + r.Intn(4))
	case ev.TNewDecimal:
		p := 1 + r.Intn(65)
		maxS := p
		if maxS > 30 {
			maxS = 30
		}
		return uint16(p)<<8 | uint16(r.Intn(maxS+1))
	case ev.TEnum:
		return uint16(ev.TEnum)<<8 | uint16(1+r.Intn(2))
	case ev.TSet:
		return uint16(ev.TSet)<<8 | uint16(1+r.Intn(8))
	case ev.TString:
		switch r.Intn(6) {
		case 0:
			return uint16(ev.TEnum)<<8 | uint16(1+r.Intn(2))
		case 1:
			return uint16(ev.TSet)<<8 | uint16(1+r.Intn(8))
		}
		return StringMeta(ev.TString, r.Intn(1024))
	case ev.TVarchar, ev.TVarString:
		switch r.Intn(8) {
		case 0:
			return 255
		case 1:
			return 256
		case 2:
			return 65535
		case 3:
			return 0
		}
		if wide {
			return uint16(r.Intn(65536))
		}
		return uint16(r.Intn(600))
	case ev.TBit:
		bits := 1 + r.Intn(64)
		return uint16(bits/8)<<8 | uint16(bits%8)
	}
	return 0
}

func pow10(n int) int {
	p := 1
	for i := 0; i < n; i++ {
		p *= 10
	}
	return p
}

func digits(r *core.Rng, n int, class int) string {
	b := make([]byte, n)
	for i := range b {
		switch class {
		case 0:
			b[i] = '0'
		case 1:
			b[i] = '9'
		default:
			b[i] = byte('0' + r.Intn(10))
		}
	}
	if class == 3 && n > 9 { // a zero 9-digit group somewhere
		g := r.Intn(n / 9)
		start := n - 9*(g+1)
		for i := start; i < start+9 && i < n; i++ {
			if i >= 0 {
				b[i] = '0'
			}
		}
	}
	if class == 4 { // leading zeros
		k := r.Intn(n + 1)
		for i := 0; i < k; i++ {
			b[i] = '0'
		}
	}
	return string(b)
}

func blobLenCap(meta uint16) int {
	switch meta {
	case 1:
		return 255
	case 2:
		return 65535
	}
	return 1 << 20
}

func lenPrefix(n, width int) []byte {
	b := make([]byte, width)
	for i := 0; i < width; i++ {
		b[i] = byte(n >> (8 * uint(i)))
	}
	return b
}

func randLen(r *core.Rng, max int) int {
	if max <= 0 {
		return 0
	}
	switch r.Intn(10) {
	case 0:
		return 0
	case 1:
		return 1
	case 2:
		if max >= 255 {
			return 255
		}
		return max
	case 3:
		if max >= 256 {
			return 256
		}
		return max
	case 4:
		if max <= 2000 {
			return max
		}
	}
	lim := max
	if lim > 64 {
		lim = 64
	}
	return r.Intn(lim + 1)
}

func randContent(r *core.Rng, n int) []byte {
	switch r.Intn(6) {
	case 0:
		return make([]byte, n)
	case 1:
		b := make([]byte, n)
		for i := range b {
			b[i] = 0xff
		}
		return b
	case 2:
		b := make([]byte, n)
		for i := range b {
			b[i] = byte('a' + r.Intn(26))
		}
		return b
	case 3:
		s := []byte("héllo wörld ✓ 日本語 ")
		b := make([]byte, 0, n)
		for len(b) < n {
			b = append(b, s...)
		}
		return b[:n]
	}
	return r.Bytes(n)
}

// RandValue draws a non-NULL value for the column.
func RandValue(r *core.Rng, c hist.Column, loc *time.Location) hist.Value {
	t, meta := c.Type, c.Meta
	switch t {
	case ev.TTiny, ev.TShort, ev.TInt24, ev.TLong, ev.TLongLong:
		w := map[byte]uint{ev.TTiny: 8, ev.TShort: 16, ev.TInt24: 24, ev.TLong: 32, ev.TLongLong: 64}[t]
		var raw uint64
		switch r.Intn(8) {
		case 0:
			raw = 0
		case 1:
			raw = 1<<(w-1) - 1
		case 2:
			raw = 1 << (w - 1)
		case 3:
			raw = (1<<(w-1))<<1 - 1
		default:
			raw = r.U64()
		}
		if w < 64 {
			raw &= 1<<w - 1
		}
		enc := make([]byte, w/8)
		for i := range enc {
			enc[i] = byte(raw >> (8 * uint(i)))
		}
		var txt string
		if c.Unsigned {
			txt = strconv.FormatUint(raw, 10)
		} else {
			v := int64(raw)
			if w < 64 && raw >= 1<<(w-1) {
				v = int64(raw) - int64(1)<<w
			}
			txt = strconv.FormatInt(v, 10)
		}
		return hist.Value{Enc: enc, Text: []byte(txt)}
	case ev.TFloat:
		var f float32
		for {
			f = math.Float32frombits(r.U32())
			if !math.IsNaN(float64(f)) && !math.IsInf(float64(f), 0) {
				break
			}
		}
		if r.Chance(1, 4) {
			f = float32(r.Intn(2000)-1000) / 8
		}
		b := math.Float32bits(f)
		return hist.Value{Enc: []byte{byte(b), byte(b >> 8), byte(b >> 16), byte(b >> 24)},
			Text: []byte(strconv.FormatFloat(float64(f), 'f', -1, 32))}
	case ev.TDouble:
		var f float64
		for {
			f = math.Float64frombits(r.U64())
			if !math.IsNaN(f) && !math.IsInf(f, 0) {
				break
			}
		}
		if r.Chance(1, 4) {
			f = float64(r.Intn(2000000)-1000000) / 64
		}
		b := math.Float64bits(f)
		enc := make([]byte, 8)
		for i := range enc {
			enc[i] = byte(b >> (8 * uint(i)))
		}
		return hist.Value{Enc: enc, Text: []byte(strconv.FormatFloat(f, 'f', -1, 64))}
	case ev.TYear:
		y := r.Intn(256)
		txt := "0000"
		if y != 0 {
			txt = strconv.Itoa(1900 + y)
		}
		return hist.Value{Enc: []byte{byte(y)}, Text: []byte(txt)}
	case ev.TTimestamp:
		sec := randEpoch(r)
		return hist.Value{Enc: val.EncTimestampOld(sec), Text: []byte(val.TimestampText(sec, 0, 0, loc))}
	case ev.TTimestamp2:
		sec := randEpoch(r)
		micro := r.Intn(1000000)
		if sec == 0 {
			micro = 0 // the zero timestamp has no fraction (MySQL cannot store one)
		}
		return hist.Value{Enc: val.EncTimestamp2(sec, micro, int(meta)), Text: []byte(val.TimestampText(sec, micro, int(meta), loc))}
	case ev.TDate, ev.TNewDate:
		y, m, d := randDate(r)
		return hist.Value{Enc: val.EncDate(y, m, d), Text: []byte(val.DateText(y, m, d))}
	case ev.TTime:
		neg, h, mi, s := randTime(r)
		if r.Chance(1, 12) {
			neg, h, mi, s = false, 0, 0, 0
		}
		return hist.Value{Enc: val.EncTimeOld(neg, h, mi, s), Text: []byte(val.TimeText(neg, h, mi, s, 0, 0))}
	case ev.TTime2:
		neg, h, mi, s := randTime(r)
		micro := r.Intn(1000000)
		if r.Chance(1, 4) {
			micro = 0
		}
		if r.Chance(1, 12) {
			neg, h, mi, s, micro = false, 0, 0, 0, 0 // 00:00:00
		}
		fsp := int(meta)
		tm := micro - micro%pow10(6-fsp)
		if neg && h == 0 && mi == 0 && s == 0 && tm == 0 {
			neg = false
		}
		return hist.Value{Enc: val.EncTime2(neg, h, mi, s, micro, fsp), Text: []byte(val.TimeText(neg, h, mi, s, micro, fsp))}
	case ev.TDateTime:
		y, m, d := randDate(r)
		h, mi, s := r.Intn(24), r.Intn(60), r.Intn(60)
		if y == 0 && m == 0 && r.Bool() {
			h, mi, s = 0, 0, 0 // the all-zero DATETIME (a constant an implementation may share)
		}
		return hist.Value{Enc: val.EncDateTimeOld(y, m, d, h, mi, s), Text: []byte(val.DateTimeText(y, m, d, h, mi, s, 0, 0))}
	case ev.TDateTime2:
		y, m, d := randDate(r)
		h, mi, s := r.Intn(24), r.Intn(60), r.Intn(60)
		micro := r.Intn(1000000)
		if y == 0 && m == 0 && r.Bool() {
			h, mi, s, micro = 0, 0, 0, 0 // the all-zero DATETIME
		}
		return hist.Value{Enc: val.EncDateTime2(y, m, d, h, mi, s, micro, int(meta)), Text: []byte(val.DateTimeText(y, m, d, h, mi, s, micro, int(meta)))}
	case ev.TVarchar, ev.TVarString:
		n := randLen(r, int(meta))
		data := randContent(r, n)
		w := 1
		if meta > 255 {
			w = 2
		}
		return hist.Value{Enc: append(lenPrefix(n, w), data...), Text: data}
	case ev.TBit:
		nbits := int(meta>>8)*8 + int(meta&0xff)
		n := (nbits + 7) / 8
		data := r.Bytes(n)
		if nbits%8 != 0 && n > 0 {
			data[0] &= byte(1<<uint(nbits%8) - 1)
		}
		return hist.Value{Enc: data, Text: append([]byte{}, data...)}
	case ev.TJSON:
		doc := bjson.Gen(r, 3, 6)
		b, err := bjson.Encode(doc, r.Chance(1, 5))
		if err != nil {
			doc = &bjson.Node{Kind: bjson.KNull}
			b, _ = bjson.Encode(doc, false)
		}
		w := int(meta)
		return hist.Value{Enc: append(lenPrefix(len(b), w), b...), JSON: doc}
	case ev.TNewDecimal:
		p, s := int(meta>>8), int(meta&0xff)
		cls := r.Intn(6)
		id := digits(r, p-s, cls)
		fd := digits(r, s, r.Intn(6))
		neg := r.Bool()
		allZero := true
		for _, ch := range id + fd {
			if ch != '0' {
				allZero = false
			}
		}
		if allZero {
			neg = false
		}
		return hist.Value{Enc: val.EncodeDecimal(p, s, neg, id, fd), Text: []byte(val.DecimalText(neg, id, fd))}
	case ev.TEnum:
		return enumValue(r, int(meta&0xff))
	case ev.TSet:
		n := int(meta & 0xff)
		data := r.Bytes(n)
		return hist.Value{Enc: data, Text: append([]byte{}, data...)}
	case ev.TTinyBlob, ev.TMediumBlob, ev.TLongBlob, ev.TBlob, ev.TGeometry:
		n := randLen(r, blobLenCap(meta))
		data := randContent(r, n)
		return hist.Value{Enc: append(lenPrefix(n, int(meta)), data...), Text: data}
	case ev.TString:
		rt := byte(meta >> 8)
		if rt == ev.TEnum {
			return enumValue(r, int(meta&0xff))
		}
		if rt == ev.TSet {
			n := int(meta & 0xff)
			data := r.Bytes(n)
			var v uint64
			for i := 0; i < n; i++ {
				v |= uint64(data[i]) << (8 * uint(i))
			}
			return hist.Value{Enc: data, Text: []byte(strconv.FormatUint(v, 10))}
		}
		max := int((((meta >> 4) & 0x300) ^ 0x300) + (meta & 0xff))
		n := randLen(r, max)
		data := randContent(r, n)
		w := 1
		if max > 255 {
			w = 2
		}
		return hist.Value{Enc: append(lenPrefix(n, w), data...), Text: data}
	}
	panic("gen.RandValue: unsupported type " + strconv.Itoa(int(t)))
}

func enumValue(r *core.Rng, w int) hist.Value {
	if w == 1 {
		v := r.Intn(256)
		return hist.Value{Enc: []byte{byte(v)}, Text: []byte(strconv.Itoa(v))}
	}
	v := r.Intn(65536)
	return hist.Value{Enc: []byte{byte(v), byte(v >> 8)}, Text: []byte(strconv.Itoa(v))}
}

func randEpoch(r *core.Rng) uint32 {
	switch r.Intn(8) {
	case 0:
		return 0
	case 1:
		return 1
	case 2:
		return 1<<31 - 1
	case 3:
		return 1<<32 - 1
	}
	return r.U32()
}

func randDate(r *core.Rng) (int, int, int) {
	if r.Chance(1, 10) {
		return 0, 0, 0
	}
	return r.Intn(10000), 1 + r.Intn(12), 1 + r.Intn(31)
}

func randTime(r *core.Rng) (bool, int, int, int) {
	h := r.Intn(839)
	if r.Chance(1, 3) {
		h = r.Intn(24)
	}
	if r.Chance(1, 6) {
		h = 0
	}
	mi, s := r.Intn(60), r.Intn(60)
	neg := r.Chance(1, 3)
	if h == 0 && mi == 0 && s == 0 {
		neg = false
	}
	return neg, h, mi, s
}

// ZeroValue is the all-zero value of a temporal type or YEAR: the value an
// implementation is most tempted to hand out from a shared constant.
func ZeroValue(c hist.Column, loc *time.Location) (hist.Value, bool) {
	fsp := int(c.Meta)
	switch c.Type {
	case ev.TTimestamp:
		return hist.Value{Enc: val.EncTimestampOld(0), Text: []byte(val.TimestampText(0, 0, 0, loc))}, true
	case ev.TTimestamp2:
		return hist.Value{Enc: val.EncTimestamp2(0, 0, fsp), Text: []byte(val.TimestampText(0, 0, fsp, loc))}, true
	case ev.TDateTime:
		return hist.Value{Enc: val.EncDateTimeOld(0, 0, 0, 0, 0, 0), Text: []byte(val.DateTimeText(0, 0, 0, 0, 0, 0, 0, 0))}, true
	case ev.TDateTime2:
		return hist.Value{Enc: val.EncDateTime2(0, 0, 0, 0, 0, 0, 0, fsp), Text: []byte(val.DateTimeText(0, 0, 0, 0, 0, 0, 0, fsp))}, true
	case ev.TDate, ev.TNewDate:
		return hist.Value{Enc: val.EncDate(0, 0, 0), Text: []byte(val.DateText(0, 0, 0))}, true
	case ev.TTime:
		return hist.Value{Enc: val.EncTimeOld(false, 0, 0, 0), Text: []byte(val.TimeText(false, 0, 0, 0, 0, 0))}, true
	case ev.TTime2:
		return hist.Value{Enc: val.EncTime2(false, 0, 0, 0, 0, fsp), Text: []byte(val.TimeText(false, 0, 0, 0, 0, fsp))}, true
	case ev.TYear:
		return hist.Value{Enc: []byte{0}, Text: []byte("0000")}, true
	}
	return hist.Value{}, false
}

// OptionalMetadata builds the well-formed optional metadata a MySQL 8.0 master
// (binlog_row_metadata=FULL) appends to the table map of t: signedness of the
// numeric columns, column names, the value lists of SET and ENUM columns, the
// column charsets and the primary key. Fields are type (1 byte), length
// (length-encoded), value.
func OptionalMetadata(r *core.Rng, t *hist.Table) []byte {
	var out []byte
	tlv := func(typ byte, v []byte) {
		out = append(out, typ)
		out = append(out, ev.Lenenc(uint64(len(v)))...)
		out = append(out, v...)
	}
	isNumeric := func(c hist.Column) bool {
		switch c.Type {
		case ev.TTiny, ev.TShort, ev.TInt24, ev.TLong, ev.TLongLong, ev.TFloat, ev.TDouble, ev.TNewDecimal, ev.TYear:
			return true
		}
		return false
	}
	realType := func(c hist.Column) byte {
		if c.Type == ev.TString && (byte(c.Meta>>8) == ev.TEnum || byte(c.Meta>>8) == ev.TSet) {
			return byte(c.Meta >> 8)
		}
		return c.Type
	}
	// SIGNEDNESS (1): one bit per numeric column, most significant bit first
	var bits []bool
	for _, c := range t.Cols {
		if isNumeric(c) {
			bits = append(bits, c.Unsigned)
		}
	}
	if len(bits) > 0 {
		b := make([]byte, (len(bits)+7)/8)
		for i, u := range bits {
			if u {
				b[i/8] |= 0x80 >> uint(i%8)
			}
		}
		tlv(1, b)
	}
	// DEFAULT_CHARSET (2): default collation, then (column index, collation) exceptions
	nchar := 0
	for _, c := range t.Cols {
		switch realType(c) {
		case ev.TVarchar, ev.TVarString, ev.TString, ev.TBlob, ev.TTinyBlob, ev.TMediumBlob, ev.TLongBlob:
			nchar++
		}
	}
	if nchar > 0 {
		v := ev.Lenenc(uint64([]int{33, 45, 255, 63}[r.Intn(4)]))
		if nchar > 1 && r.Bool() {
			v = append(v, ev.Lenenc(uint64(r.Intn(nchar)))...)
			v = append(v, ev.Lenenc(uint64(8+r.Intn(300)))...)
		}
		tlv(2, v)
	}
	// COLUMN_NAME (4)
	if r.Chance(3, 4) {
		var v []byte
		for _, c := range t.Cols {
			n := c.Name
			if len(n) > 255 {
				n = n[:255]
			}
			v = append(v, byte(len(n)))
			v = append(v, n...)
		}
		tlv(4, v)
	}
	// SET_STR_VALUE (5) and ENUM_STR_VALUE (6): per column the number of values, then each value
	labels := []string{"red", "green", "blue", "", "a,b", "späť", "x", "0", "NULL", "very-long-label-of-more-than-thirty-two-bytes"}
	for _, kind := range []byte{ev.TSet, ev.TEnum} {
		var v []byte
		for _, c := range t.Cols {
			if realType(c) != kind {
				continue
			}
			n := 2 + r.Intn(7)
			if kind == ev.TEnum && c.Meta&0xff == 2 && r.Bool() {
				n = 256 + r.Intn(50)
			}
			v = append(v, ev.Lenenc(uint64(n))...)
			for i := 0; i < n; i++ {
				l := labels[(i+r.Intn(3))%len(labels)]
				v = append(v, ev.Lenenc(uint64(len(l)))...)
				v = append(v, l...)
			}
		}
		if len(v) > 0 {
			if kind == ev.TSet {
				tlv(5, v)
			} else {
				tlv(6, v)
			}
		}
	}
	// GEOMETRY_TYPE (7)
	var gv []byte
	for _, c := range t.Cols {
		if c.Type == ev.TGeometry {
			gv = append(gv, ev.Lenenc(uint64(r.Intn(8)))...)
		}
	}
	if len(gv) > 0 {
		tlv(7, gv)
	}
	// SIMPLE_PRIMARY_KEY (8)
	if r.Bool() {
		tlv(8, ev.Lenenc(0))
	}
	// COLUMN_VISIBILITY (12): one bit per column
	if r.Chance(1, 3) {
		b := make([]byte, (len(t.Cols)+7)/8)
		for i := range b {
			b[i] = 0xff
		}
		tlv(12, b)
	}
	return out
}
