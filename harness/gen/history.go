package gen

import (
	"fmt"
	"strconv"
	"time"

	"verifharness/core"
	"verifharness/enc/ev"
	"verifharness/hist"
)

// HOpts steers history generation.
type HOpts struct {
	Cfgs      []*ev.Cfg // per file
	Bases     []uint32
	GTID      bool
	Partial   bool // partial row images (minimal/noblob style presence bitmaps)
	MaxStmts  int
	MaxTables int
	MaxRows   int
	MaxCols   int
	MaxEvents int // rows events per statement
	Wide      bool
	NoJSON    bool
	Loc       *time.Location
	Types     []byte // restrict column types (nil = all stream types)
	BlobLens  []int  // preferred lengths for blob values (sizes around the transport buffer)
	Switch    int    // how files end: 0 = rotation or (1 in 3) restart, 1 = always rotation, 2 = always restart
	ZeroBias  int    // > 0: one value in ZeroBias is the type's all-zero value (temporal types, YEAR), and half of the fractional temporal columns have 0 digits
}

// DefaultHOpts gives moderate sizes.
func DefaultHOpts() HOpts {
	return HOpts{Cfgs: []*ev.Cfg{ev.DefaultCfg()}, MaxStmts: 3, MaxTables: 3, MaxRows: 4, MaxCols: 12, MaxEvents: 2, Loc: time.Local}
}

// Builder accumulates a history.
type Builder struct {
	R      *core.Rng
	O      HOpts
	H      *hist.History
	Tables []*hist.Table
	ts     uint32
	nextID uint64
	fileNo int
	sid    [16]byte
	gno    int64
	lastCS *[3]uint16
}

// NewBuilder starts a history.
func NewBuilder(r *core.Rng, o HOpts) *Builder {
	if o.Loc == nil {
		o.Loc = time.Local
	}
	b := &Builder{R: r, O: o, ts: 1500000000 + uint32(r.Intn(100000000)), nextID: r.U64() | 1<<40}
	b.H = &hist.History{FirstFile: fmt.Sprintf("mysql-bin.%06d", 1+r.Intn(999)), Cfgs: o.Cfgs, Bases: o.Bases, FDETS: b.ts}
	copy(b.sid[:], r.Bytes(16))
	switch r.Intn(16) {
	case 0:
		b.sid = [16]byte{} // the all-zero server uuid
	case 1:
		for i := range b.sid {
			b.sid[i] = 0xff
		}
	}
	b.gno = int64(1 + r.Intn(1000))
	nt := 1 + r.Intn(maxi(1, o.MaxTables))
	for i := 0; i < nt; i++ {
		b.Tables = append(b.Tables, b.RandTable(uint64(100+i*7+r.Intn(5)), fmt.Sprintf("db%d", r.Intn(3)), fmt.Sprintf("t%d", i), 1+r.Intn(maxi(1, o.MaxCols))))
	}
	if r.Chance(1, 8) {
		// an ordinary value of the id counter that looks like a marker
		b.Tables[r.Intn(len(b.Tables))].ID = []uint64{0xffffff, 0xfffffe, 0x1000000, 0}[r.Intn(4)]
	}
	return b
}

func maxi(a, b int) int {
	if a > b {
		return a
	}
	return b
}

// TS returns a fresh, strictly increasing event timestamp.
func (b *Builder) TS() uint32 {
	b.ts += uint32(1 + b.R.Intn(3))
	if b.R.Chance(1, 8) {
		// the first bytes of an event are its timestamp: values whose low bytes
		// look like protocol markers (0xfe EOF, 0xff ERR, 0xef semi-sync, 0x00 OK)
		special := []uint32{0x00ef, 0x01ef, 0x00fe, 0x01fe, 0x00ff, 0xfefe, 0xffff, 0x0000, 0xfffe}
		b.ts = (b.ts&^0xffff + 0x10000) | special[b.R.Intn(len(special))]
	}
	return b.ts
}

// ID returns a fresh change id.
func (b *Builder) ID() uint64 { b.nextID += uint64(1 + b.R.Intn(1000)); return b.nextID }

// RandTable builds a table whose first column is the change id.
func (b *Builder) RandTable(id uint64, db, name string, ncols int) *hist.Table {
	r := b.R
	t := &hist.Table{ID: id, DB: db, Name: name, Flags: uint16(r.Intn(2))}
	t.Cols = append(t.Cols, hist.Column{Name: "id", Type: ev.TLongLong, Unsigned: true})
	for i := 1; i < ncols; i++ {
		var ty byte
		for {
			if len(b.O.Types) > 0 {
				ty = b.O.Types[r.Intn(len(b.O.Types))]
			} else {
				ty = PickType(r)
			}
			if !(b.O.NoJSON && ty == ev.TJSON) {
				break
			}
		}
		c := hist.Column{Name: fmt.Sprintf("c%d_%d", i, r.Intn(100)), Type: ty, Meta: RandMeta(r, ty, b.O.Wide), Nullable: r.Chance(2, 3)}
		if b.O.ZeroBias > 0 && (ty == ev.TTimestamp2 || ty == ev.TDateTime2 || ty == ev.TTime2) && r.Bool() {
			c.Meta = 0
		}
		if IsInt(ty) {
			c.Unsigned = r.Bool()
		}
		if ty == ev.TFloat || ty == ev.TDouble || ty == ev.TNewDecimal {
			// FLOAT / DOUBLE / DECIMAL ... UNSIGNED: a mapper that looks for "unsigned"
			// in the column type (the one in the package documentation) marks them too
			c.Unsigned = r.Chance(1, 3)
		}
		t.Cols = append(t.Cols, c)
	}
	if r.Chance(1, 3) {
		t.Optional = OptionalMetadata(r, t) // as a MySQL 8.0 master with binlog_row_metadata=FULL writes it
	}
	return t
}

// idValue is the id cell.
func idValue(id uint64) hist.Value {
	enc := make([]byte, 8)
	for i := range enc {
		enc[i] = byte(id >> (8 * uint(i)))
	}
	return hist.Value{Enc: enc, Text: []byte(strconv.FormatUint(id, 10))}
}

// Image draws one row image for the table (entry 0 is the id).
func (b *Builder) Image(t *hist.Table, id uint64) []hist.Value {
	r := b.R
	vals := make([]hist.Value, len(t.Cols))
	vals[0] = idValue(id)
	nullClass := r.Intn(5) // 0 none, 1 all, 2 alternating, 3.. random
	for i := 1; i < len(t.Cols); i++ {
		c := t.Cols[i]
		null := false
		if c.Nullable {
			switch nullClass {
			case 1:
				null = true
			case 2:
				null = i%2 == 1
			case 3, 4:
				null = r.Chance(1, 3)
			}
		}
		if null {
			vals[i] = hist.Value{Null: true}
		} else if len(b.O.BlobLens) > 0 && (c.Type == ev.TBlob || c.Type == ev.TMediumBlob || c.Type == ev.TLongBlob) && c.Meta >= 3 && r.Chance(1, 2) {
			n := b.O.BlobLens[r.Intn(len(b.O.BlobLens))]
			data := r.Bytes(n)
			vals[i] = hist.Value{Enc: append(lenPrefix(n, int(c.Meta)), data...), Text: data}
		} else if z, ok := ZeroValue(c, b.O.Loc); ok && b.O.ZeroBias > 0 && r.Chance(1, b.O.ZeroBias) {
			vals[i] = z
		} else {
			vals[i] = RandValue(r, c, b.O.Loc)
			if c.Unsigned && (c.Type == ev.TFloat || c.Type == ev.TDouble || c.Type == ev.TNewDecimal) {
				for k := 0; k < 16 && len(vals[i].Text) > 0 && vals[i].Text[0] == '-'; k++ {
					vals[i] = RandValue(r, c, b.O.Loc) // an UNSIGNED column holds no negative value
				}
				if len(vals[i].Text) > 0 && vals[i].Text[0] == '-' {
					vals[i] = hist.Value{Null: true}
				}
			}
		}
	}
	return vals
}

// Present draws a presence bitmap (column 0 always present).
func (b *Builder) Present(n int) []bool {
	p := make([]bool, n)
	for i := range p {
		p[i] = true
	}
	if !b.O.Partial || n == 1 {
		return p
	}
	r := b.R
	switch r.Intn(6) {
	case 0: // full
	case 1: // only the id
		for i := 1; i < n; i++ {
			p[i] = false
		}
	case 2: // alternating
		for i := 1; i < n; i++ {
			p[i] = i%2 == 0
		}
	case 3: // last column of the first bitmap byte / first of the second missing
		if n > 7 {
			p[7] = false
		}
		if n > 8 {
			p[8] = false
		}
		p[n-1] = false
	default:
		for i := 1; i < n; i++ {
			p[i] = r.Chance(2, 3)
		}
	}
	p[0] = true
	return p
}

// RowsEvent draws one rows event on the table.
func (b *Builder) RowsEvent(t *hist.Table, kind ev.RowsKind, nrows int) hist.RowsEvent {
	e := hist.RowsEvent{Kind: kind, Table: t, TS: b.TS()}
	n := len(t.Cols)
	if kind == ev.KUpdate || kind == ev.KDelete {
		e.PresentBefore = b.Present(n)
	}
	if kind == ev.KWrite || kind == ev.KUpdate {
		e.PresentAfter = b.Present(n)
	}
	cfgV2 := true
	if e.Extra == nil && cfgV2 && b.R.Chance(1, 4) {
		e.Extra = b.R.Bytes([]int{1, 8, 253, 998}[b.R.Intn(4)])
	}
	for i := 0; i < nrows; i++ {
		id := b.ID()
		row := hist.Row{}
		if e.PresentBefore != nil {
			row.Before = b.Image(t, id)
		}
		if e.PresentAfter != nil {
			row.After = b.Image(t, id)
			if row.Before != nil && b.R.Chance(2, 3) {
				// a real UPDATE changes few columns: most of the after image repeats the before image
				for ci := 1; ci < len(row.After); ci++ {
					if b.R.Chance(3, 4) {
						row.After[ci] = row.Before[ci]
					}
				}
			}
		}
		if n := len(e.Rows); n > 0 && b.R.Chance(1, 3) {
			prev := e.Rows[n-1]
			for ci := 1; ci < len(t.Cols); ci++ {
				if b.R.Chance(1, 2) {
					if row.After != nil && prev.After != nil {
						row.After[ci] = prev.After[ci]
					}
					if row.Before != nil && prev.Before != nil {
						row.Before[ci] = prev.Before[ci]
					}
				}
			}
		}
		e.Rows = append(e.Rows, row)
	}
	return e
}

// RowsStmt draws a row-format statement touching one or two tables.
func (b *Builder) RowsStmt() hist.Stmt {
	r := b.R
	s := hist.Stmt{Kind: hist.StmtRows, MapTS: b.TS()}
	nt := 1
	if len(b.Tables) > 1 && r.Chance(1, 4) {
		nt = 2
	}
	perm := r.Perm(len(b.Tables))
	for i := 0; i < nt; i++ {
		s.TableMaps = append(s.TableMaps, b.Tables[perm[i]])
	}
	for _, t := range s.TableMaps {
		kind := ev.RowsKind(r.Intn(3))
		ne := 1 + r.Intn(maxi(1, b.O.MaxEvents))
		for k := 0; k < ne; k++ {
			s.Rows = append(s.Rows, b.RowsEvent(t, kind, 1+r.Intn(maxi(1, b.O.MaxRows))))
		}
	}
	return s
}

var casings = map[string][]string{}

// Casing returns a random casing of a keyword.
func Casing(r *core.Rng, word string) string {
	switch r.Intn(4) {
	case 0:
		return upper(word)
	case 1:
		return lower(word)
	}
	b := []byte(lower(word))
	for i := range b {
		if r.Bool() {
			b[i] -= 32
		}
	}
	return string(b)
}

func upper(s string) string {
	b := []byte(s)
	for i, c := range b {
		if c >= 'a' && c <= 'z' {
			b[i] = c - 32
		}
	}
	return string(b)
}
func lower(s string) string {
	b := []byte(s)
	for i, c := range b {
		if c >= 'A' && c <= 'Z' {
			b[i] = c + 32
		}
	}
	return string(b)
}

var ddlTemplates = []string{"CREATE TABLE t_%d (a int)", "ALTER TABLE t_%d ADD COLUMN b int", "DROP TABLE t_%d",
	"RENAME TABLE t_%d TO u", "TRUNCATE TABLE t_%d", "SET @v_%d = 3", "create index i_%d on t (a)", "Drop database d_%d"}
var inTxDDL = []string{"CREATE TEMPORARY TABLE tmp_%d (a int)", "DROP TEMPORARY TABLE IF EXISTS tmp_%d", "SET @in_tx_%d = 1", "create temporary table t%d like t"}
var dmlTemplates = []string{"INSERT INTO t VALUES (%d)", "UPDATE t SET a = %d", "DELETE FROM t WHERE a = %d", "insert into t select %d"}
var unknownStmts = []string{"SAVEPOINT sp1", "RELEASE SAVEPOINT sp1", "GRANT ALL ON *.* TO u", "REVOKE ALL ON *.* FROM u",
	"FLUSH TABLES", "ANALYZE TABLE t", "XA START 'x'", "XA END 'x'", "OPTIMIZE TABLE t", "savepoint a", "REPAIR TABLE t",
	// undoing part of an open transaction does not end it (logged when a non-transactional table was touched)
	"ROLLBACK TO `sp1`", "ROLLBACK TO SAVEPOINT sp1", "rollback to a", "Rollback\tTo sp1", "ROLLBACK  TO `sp1`", "ROLLBACK\r\nTO\r\nsp1", "rollback \t to\nsavepoint x"}

// UnknownEventTypes are event types the streamer has no case for.
var UnknownEventTypes = []byte{ev.Stop, ev.UserVar, ev.Incident, ev.Ignorable, ev.TransactionCtx, ev.ViewChange, ev.XAPrepare, 39, 40, 41, ev.StartV3, ev.AppendBlock}

func (b *Builder) charset() *[3]uint16 {
	if b.R.Chance(1, 3) {
		return nil
	}
	if b.lastCS != nil && b.R.Bool() {
		// a session keeps its character sets: consecutive statements usually
		// carry the same triple
		cs := *b.lastCS
		return &cs
	}
	b.lastCS = &[3]uint16{uint16(b.R.Intn(300)), uint16(b.R.Intn(300)), uint16(b.R.Intn(65536))}
	cs := *b.lastCS
	return &cs
}

// Unit draws one unit of the given kind.
func (b *Builder) Unit(kind hist.UnitKind) hist.Unit {
	r := b.R
	u := hist.Unit{Kind: kind, DB: fmt.Sprintf("db%d", r.Intn(3)), Charset: b.charset()}
	if b.O.GTID && kind.Delivers() {
		u.WithGTID = true
		u.SID = b.sid
		b.gno++
		u.GNO = b.gno
	}
	switch kind {
	case hist.TxXID, hist.TxCommit, hist.TxRollback:
		u.BeginSQL = Casing(r, "begin")
		u.BeginTS = b.TS()
		ns := 1 + r.Intn(maxi(1, b.O.MaxStmts))
		for i := 0; i < ns; i++ {
			switch r.Intn(9) {
			case 8:
				// statements that do not commit implicitly may be logged inside a transaction
				// (CREATE/DROP TEMPORARY TABLE, SET): they belong to the transaction
				id := b.ID()
				u.Stmts = append(u.Stmts, hist.Stmt{Kind: hist.StmtQuery, SQL: fmt.Sprintf(inTxDDL[r.Intn(len(inTxDDL))], r.Intn(1000)) + fmt.Sprintf(" /* id=%d */", id),
					DB: u.DB, Charset: b.charset(), TS: b.TS(), ID: id})
			case 0:
				id := b.ID()
				u.Stmts = append(u.Stmts, hist.Stmt{Kind: hist.StmtQuery, SQL: fmt.Sprintf(dmlTemplates[r.Intn(len(dmlTemplates))], r.Intn(1000)) + fmt.Sprintf(" /* id=%d */", id),
					DB: u.DB, Charset: b.charset(), TS: b.TS(), ID: id})
			case 1:
				u.Stmts = append(u.Stmts, hist.Stmt{Kind: hist.StmtUnknown, SQL: unknownStmts[r.Intn(len(unknownStmts))], DB: u.DB, TS: b.TS()})
			default:
				u.Stmts = append(u.Stmts, b.RowsStmt())
			}
		}
		u.EndTS = b.TS()
		u.XID = r.U64()
		if kind == hist.TxCommit {
			u.EndSQL = Casing(r, "commit")
		}
		if kind == hist.TxRollback {
			u.EndSQL = Casing(r, "rollback")
		}
	case hist.DDL:
		u.ID = b.ID()
		u.SQL = fmt.Sprintf(ddlTemplates[r.Intn(len(ddlTemplates))], r.Intn(1000)) + fmt.Sprintf(" /* id=%d */", u.ID)
		if r.Chance(1, 3) {
			w := firstWord(u.SQL)
			u.SQL = Casing(r, w) + u.SQL[len(w):]
		}
		if r.Chance(1, 5) {
			// ... and comments in front of it are logged with it: tools tag their
			// statements, mysqldump wraps DDL in version comments
			switch r.Intn(11) {
			case 8: // a line comment followed by more comment or by an indented statement
				u.SQL = "-- a\n-- b\n" + u.SQL
			case 9:
				u.SQL = "# a\n\t " + u.SQL
			case 10:
				u.SQL = "-- a\n/* b */ " + u.SQL
			case 5: // nothing between the end of the comment and the keyword
				u.SQL = "/*c*/" + u.SQL
			case 6:
				u.SQL = "/**/" + u.SQL
			case 7:
				u.SQL = "/* a *//* b */" + u.SQL
			case 0:
				u.SQL = "/* ApplicationName=verif */ " + u.SQL
			case 1:
				u.SQL = "/*!40000 " + u.SQL + " */"
			case 2:
				u.SQL = "-- a note\n" + u.SQL
			case 3:
				u.SQL = "# a note\n" + u.SQL
			default:
				u.SQL = "/* a */ /* b */\n" + u.SQL
			}
		} else if r.Chance(1, 4) {
			// statements are logged as the client wrote them: the keyword may be
			// followed by a tab or a line break instead of a blank
			w := firstWord(u.SQL)
			if len(w) < len(u.SQL) {
				u.SQL = w + []string{"\t", "\n", "\r\n", "  "}[r.Intn(4)] + u.SQL[len(w)+1:]
			}
		}
		u.EndTS = b.TS()
	case hist.StmtDML:
		u.ID = b.ID()
		u.SQL = fmt.Sprintf(dmlTemplates[r.Intn(len(dmlTemplates))], r.Intn(1000)) + fmt.Sprintf(" /* id=%d */", u.ID)
		u.EndTS = b.TS()
	case hist.AutoRows:
		t := b.Tables[r.Intn(len(b.Tables))]
		s := hist.Stmt{Kind: hist.StmtRows, MapTS: b.TS(), TableMaps: []*hist.Table{t}}
		s.Rows = []hist.RowsEvent{b.RowsEvent(t, ev.RowsKind(r.Intn(3)), 1+r.Intn(maxi(1, b.O.MaxRows)))}
		u.Stmts = []hist.Stmt{s}
	case hist.UnknownStmt:
		u.SQL = unknownStmts[r.Intn(len(unknownStmts))]
		u.EndTS = b.TS()
	case hist.Rotate, hist.Restart:
		if kind == hist.Restart && r.Bool() {
			u.EvType = ev.Stop
		}
		b.fileNo++
		u.NextFile = fmt.Sprintf("%s-r%d.%06d", []string{"mysql-bin", "binlog", "a.b.c"}[r.Intn(3)], b.fileNo, r.Intn(1000000))
		u.EvTS = b.TS()
	case hist.GTID:
		u.EvTS = b.TS()
		u.SID = b.sid
		u.GNO = int64(1 + r.Intn(1<<30))
	case hist.AnonGTID:
		u.EvTS = b.TS()
	case hist.PrevGTIDs:
		u.EvTS = b.TS()
		u.SIDBlock = ev.SIDBlock([]ev.SIDEntry{{SID: b.sid, Intervals: []ev.SIDInterval{{Start: 1, End: int64(2 + r.Intn(100))}}}})
	case hist.UnknownEvent:
		u.EvTS = b.TS()
		u.EvType = UnknownEventTypes[r.Intn(len(UnknownEventTypes))]
		u.EvBody = r.Bytes(r.Intn(40))
	case hist.Heartbeat:
	}
	return u
}

func firstWord(s string) string {
	for i := 0; i < len(s); i++ {
		if s[i] == ' ' {
			return s[:i]
		}
	}
	return s
}

// Add appends a unit of the kind.
func (b *Builder) Add(kind hist.UnitKind) { b.H.Units = append(b.H.Units, b.Unit(kind)) }

// RebindIDs gives the tables new table ids for the units that follow, the way
// a restarted server hands out ids from the start again: ids are permuted, so
// an id announced earlier now names a different table.
func (b *Builder) RebindIDs() {
	n := len(b.Tables)
	if n < 2 {
		return
	}
	nt := make([]*hist.Table, n)
	for i, t := range b.Tables {
		c := *t
		c.ID = b.Tables[(i+1)%n].ID
		nt[i] = &c
	}
	b.Tables = nt
}

// AddSwitch ends the current file: by a rotation or (one time in three) by a
// server restart, after which table ids may be bound to other tables.
func (b *Builder) AddSwitch() {
	restart := b.R.Chance(1, 3)
	switch b.O.Switch {
	case 1:
		restart = false
	case 2:
		restart = true
	}
	if restart {
		b.Add(hist.Restart)
		if b.R.Bool() {
			b.RebindIDs()
		}
		return
	}
	b.Add(hist.Rotate)
}

// AllTables lists the tables a mapper must know.
func (b *Builder) AllTables() []*hist.Table { return b.Tables }

// RandomHistory draws ntx delivering units with ignorable ones sprinkled in and
// optional rotations.
func RandomHistory(r *core.Rng, o HOpts, ntx int, rotations int) (*hist.History, []*hist.Table) {
	b := NewBuilder(r, o)
	if o.GTID && r.Bool() {
		b.Add(hist.PrevGTIDs)
	}
	rotAt := map[int]bool{}
	for i := 0; i < rotations; i++ {
		rotAt[r.Intn(ntx+1)] = true
	}
	for i := 0; i < ntx; i++ {
		if rotAt[i] {
			b.AddSwitch()
			if o.GTID {
				b.Add(hist.PrevGTIDs)
			}
			if r.Chance(1, 4) {
				// a file that holds nothing but its header (FLUSH LOGS twice)
				b.AddSwitch()
				if o.GTID {
					b.Add(hist.PrevGTIDs)
				}
			}
		}
		if r.Chance(1, 5) {
			b.Add([]hist.UnitKind{hist.AnonGTID, hist.Heartbeat, hist.UnknownEvent, hist.UnknownStmt, hist.GTID}[r.Intn(5)])
		}
		var k hist.UnitKind
		switch x := r.Intn(20); {
		case x < 9:
			k = hist.TxXID
		case x < 12:
			k = hist.TxCommit
		case x < 14:
			k = hist.TxRollback
		case x < 16:
			k = hist.DDL
		case x < 18:
			k = hist.AutoRows
		default:
			k = hist.StmtDML
		}
		b.Add(k)
	}
	if rotAt[ntx] {
		b.AddSwitch()
	}
	return b.H, b.Tables
}
