#!/bin/bash
# benigncheck.sh <id>... : run every quick check against a property-preserving change
# (benign/<id>/patch.diff) in a scratch worktree; nothing is written to /repo.
export GOFLAGS=-mod=mod GOPROXY=off GOSUMDB=off GOTOOLCHAIN=local
cd /verif
for id in "$@"; do
  python3 tools/muteval.py /verif/benign/$id | python3 -c "import sys,json; r=json.load(sys.stdin); print('$id', 'applies', r.get('applies'), 'suite', r.get('suite_passes_with_change'), 'violations', r.get('caught_by'), 'not clean', r.get('not_clean'))"
done
