#!/usr/bin/env python3
"""keepseed.py <stage-id>...: copy a confirmed seeded change from /var/tmp/seedstage/<id>
to /verif/seeded/<id>/ with patch.diff, the demonstration and a meta.json that records
which property it breaks, what it needs to manifest, what was run and which checks fire."""
import json, os, shutil, sys

for sid in sys.argv[1:]:
    src = f"/var/tmp/seedstage/{sid}"
    resf = f"/var/tmp/mutres/{sid}.json"
    if not os.path.exists(resf):
        print(sid, "no result"); continue
    try:
        res = json.load(open(resf))
    except Exception as e:
        print(sid, "unreadable result", e); continue
    ok = res.get("demo_clean_passes") and res.get("applies") and res.get("suite_passes_with_change") and res.get("demo_fails_with_change")
    if not ok:
        print(sid, "NOT confirmed:", {k: res.get(k) for k in ("demo_clean_passes","applies","suite_passes_with_change","demo_fails_with_change")}); continue
    dst = f"/verif/seeded/{sid}"
    os.makedirs(dst, exist_ok=True)
    shutil.copy(os.path.join(src, "patch.diff"), os.path.join(dst, "patch.diff"))
    demo = None
    for name in sorted(os.listdir(src)):
        if name.endswith("_test.go"):
            shutil.copy(os.path.join(src, name), os.path.join(dst, name)); demo = demo or name
    am = {}
    try:
        am = json.load(open(os.path.join(src, "meta.json")))
    except Exception:
        pass
    import re
    pkg = "gobinlog"
    if demo:
        m = re.search(r"^package\s+(\w+)", open(os.path.join(src, demo)).read(), re.M)
        if m: pkg = m.group(1)
    demo_dir = {"gobinlog": "./", "replication": "./replication"}.get(pkg, "./")
    caught = res.get("caught_by", [])
    meta = {
        "id": sid,
        "property": am.get("property") or sid.split("-")[0],
        "clause_broken": am.get("clause_broken"),
        "mechanism": am.get("mechanism"),
        "needs_to_manifest": am.get("needs_to_manifest"),
        "files_touched": am.get("files_touched"),
        "origin": "written by a fresh sub-agent that was given only the property text and a scratch worktree of /repo",
        "demonstration": {"file": demo, "copy_to": demo_dir + ("" if demo_dir.endswith("/") else "/") + "zz_seed_demo_test.go",
                          "run": f"go test -vet=off -count=1 {demo_dir}"},
        "confirmed_in_scratch_worktree": {
            "patch_applies": True,
            "library_builds_and_existing_suite_passes_with_change": True,
            "demonstration_passes_without_change": True,
            "demonstration_fails_with_change": True,
            "how": "tools/muteval.py: git worktree add; go test of the demonstration on the clean tree; git apply patch.diff; go build ./... && go test -vet=off -count=1 ./...; demonstration again; every registered quick check with VERIF_REPO=<worktree>; worktree removed",
        },
        "quick_checks_that_fire": caught,
        "target_check_fires": (am.get("property") or sid.split("-")[0]) in caught,
        "first_violation_lines": {p: res["checks"][p]["lines"][:1] for p in caught if p in res.get("checks", {})},
    }
    json.dump(meta, open(os.path.join(dst, "meta.json"), "w"), indent=1)
    print(sid, "kept; caught by", caught)
