#!/usr/bin/env python3
"""Evaluate one seeded change: muteval.py <seeded-dir> [props...]
Creates a scratch worktree of /repo, applies patch.diff, confirms that the
library builds and the existing suite passes, that the demonstration fails
with the change and passes without, then runs the quick checks (all, or the
listed properties) against the worktree (VERIF_REPO) and reports which fire.
The worktree is removed afterwards. Nothing is written to /repo."""
import json, os, shutil, subprocess, sys, tempfile

ENV = dict(os.environ, GOFLAGS="-mod=mod", GOPROXY="off", GOSUMDB="off", GOTOOLCHAIN="local")
ALL = [c["property_id"] for c in json.load(open("/verif/MANIFEST.json"))["checks"]]

def sh(cmd, cwd=None, env=ENV, timeout=3600):
    p = subprocess.run(cmd, shell=True, cwd=cwd, env=env, stdout=subprocess.PIPE, stderr=subprocess.STDOUT, text=True, errors="replace", timeout=timeout)
    return p.returncode, p.stdout

def main():
    d = os.path.abspath(sys.argv[1])
    props = sys.argv[2:] or ALL
    meta = {}
    if os.path.exists(os.path.join(d, "meta.json")):
        meta = json.load(open(os.path.join(d, "meta.json")))
    wt = tempfile.mkdtemp(prefix="mut.", dir="/tmp")
    os.rmdir(wt)
    rc, out = sh(f"git -C /repo worktree add -q --detach {wt} HEAD")
    if rc: print(out); sys.exit(2)
    res = {"dir": d, "meta_property": meta.get("property")}
    try:
        demo_src = None
        for name in os.listdir(d):
            if name.endswith("_test.go") or name == "demo_test.go":
                demo_src = os.path.join(d, name)
        demo_dir = "./"
        if demo_src:
            import re
            m = re.search(r"^package\s+(\w+)", open(demo_src).read(), re.M)
            pkg = m.group(1) if m else "gobinlog"
            pkg = pkg[:-5] if pkg.endswith("_test") else pkg
            demo_dir = {"gobinlog": "./", "replication": "./replication", "main": "./cmd/binlogDump"}.get(pkg, "./")
        def run_demo():
            if not demo_src: return None, "no demo"
            dst = os.path.join(wt, demo_dir, "zz_seed_demo_test.go")
            shutil.copy(demo_src, dst)
            rc, out = sh("go test -vet=off -count=1 -run . ./" + demo_dir.strip("./") if demo_dir.strip("./") else "go test -vet=off -count=1 .", cwd=wt, timeout=600)
            os.remove(dst)
            return rc, out[-1500:]
        rc0, out0 = run_demo()
        res["demo_clean_passes"] = (rc0 == 0)
        rc, out = sh(f"git apply {os.path.join(d,'patch.diff')}", cwd=wt)
        if rc: print("patch does not apply:", out); res["applies"] = False; print(json.dumps(res)); return
        res["applies"] = True
        rc, out = sh("go build ./... && go test -vet=off -count=1 ./...", cwd=wt, timeout=900)
        res["suite_passes_with_change"] = (rc == 0)
        if rc: res["suite_out"] = out[-800:]
        rc1, out1 = run_demo()
        res["demo_fails_with_change"] = (rc1 not in (0, None))
        if rc0 not in (0, None): res["demo_clean_out"] = out0
        detected = {}
        env = dict(ENV, VERIF_REPO=wt)
        for p in props:
            vdir = os.environ.get("MUTEVAL_VERIF", "/verif")  # a frozen copy of /verif can be used while /verif is being edited
            rc, out = sh(f"{vdir}/vcheck {p} --tier quick", cwd=vdir, env=dict(env, VERIF_DIR=vdir), timeout=3000)
            lines = [l for l in out.splitlines() if l.startswith(("violation detail", "BROKEN", "INCONCLUSIVE", "BUILD-FAILED"))]
            detected[p] = {"exit": rc, "lines": [l[:300] for l in lines[:6]]}
        res["checks"] = detected
        res["caught_by"] = [p for p in props if detected[p]["exit"] == 1]
        res["not_clean"] = [p for p in props if detected[p]["exit"] not in (0, 1)]
    finally:
        sh(f"git -C /repo worktree remove --force {wt}")
    print(json.dumps(res, indent=1))

if __name__ == "__main__":
    main()
