#!/usr/bin/env python3
"""Rewrites the table between the SEEDTABLE markers of DESIGN.md from seeded/*/meta.json."""
import subprocess
p = '/verif/DESIGN.md'
s = open(p).read()
a = s.index('<!-- SEEDTABLE-BEGIN -->') + len('<!-- SEEDTABLE-BEGIN -->\n')
b = s.index('<!-- SEEDTABLE-END -->')
t = subprocess.run(['python3', '/verif/tools/seedtable.py'], capture_output=True, text=True).stdout
open(p, 'w').write(s[:a] + t + s[b:])
print('table rows:', t.count('\n') - 2)
