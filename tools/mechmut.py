#!/usr/bin/env python3
"""mechmut.py gen <n-per-file> <seed> > list.json
   mechmut.py run <list.json> <slice-index> <slices> <outdir> [verif-dir]

Mechanical mutation sweep (development aid; complements the agent-written seeded
changes with a kill-rate number). `gen` enumerates single-token mutations
(relational / logical / arithmetic operator swaps, small integer literals +-1,
`true`/`false`, dropped `!`, `break`/`continue` swaps) in the library's
non-test sources and samples n per file with a fixed PRNG. `run` evaluates one slice of the list: each mutant is applied to a scratch worktree of
/repo (never to /repo), must compile and pass the existing suite (else it is
'stillborn' / 'killed-by-suite' and does not count), and then the quick checks of
the properties anchored in that file run against the worktree (VERIF_REPO).
Result per mutant: killed-by-check (which), or survived (to be triaged by hand:
equivalent, outside every property, or a gap)."""
import json, os, random, re, subprocess, sys

ENV = dict(os.environ, GOFLAGS="-mod=mod", GOPROXY="off", GOSUMDB="off", GOTOOLCHAIN="local")
FILES = {
    "streamer.go": ["C01", "C02", "C03", "C04", "C05", "C06", "C08", "C17", "C15"],
    "slave_connection.go": ["C05", "C06", "C07", "C04", "C08", "C01"],
    "mysql_types.go": ["C02", "C01", "C20", "C10"],
    "transaction.go": ["C20", "C01"],
    "error.go": ["C06"],
    "replication/binlog_event_rbr.go": ["C09", "C10", "C11", "C12", "C13", "C15", "C01"],
    "replication/binlog_event_common.go": ["C16", "C17", "C01", "C03"],
    "replication/binlog_event_json.go": ["C14"],
    "replication/binlog_event_mysql56.go": ["C16", "C19", "C17", "C01"],
    "replication/binlog_event_mariadb.go": ["C16", "C19", "C17"],
    "replication/mysql56_gtid_set.go": ["C18", "C19"],
    "replication/mysql56_gtid.go": ["C19", "C18"],
    "replication/mariadb_gtid.go": ["C19"],
    "replication/binlog_event.go": ["C09", "C15", "C01"],
}
OPS = [
    (r"(?<![<>=!:+\-*/&|^])<=(?!=)", ["<"]), (r"(?<![<>=!:+\-*/&|^-])<(?![<=\-])", ["<="]),
    (r"(?<![<>=!:+\-*/&|^])>=(?!=)", [">"]), (r"(?<![<>=!:+\-*/&|^\-])>(?![>=])", [">="]),
    (r"(?<![<>=!:+\-*/&|^])==(?!=)", ["!="]), (r"!=", ["=="]),
    (r"&&", ["||"]), (r"\|\|", ["&&"]),
    (r"(?<![+\-*/&|^<>=!:])\+(?![+=])", ["-"]), (r"(?<![+\-*/&|^<>=!:(,\[ e])-(?![\-=>])", ["+"]),
    (r"\btrue\b", ["false"]), (r"\bfalse\b", ["true"]),
    (r"(?<![\w.\"x])([0-9]+)(?![\w.\"x])", ["+1", "-1"]),
    (r"\bbreak\b", ["continue"]), (r"\bcontinue\b", ["break"]),
    (r"!(?=[a-zA-Z(])", [""]),
    (r"<<", [">>"]), (r">>", ["<<"]),
]


def strip_strings(line):
    out, q, i = [], None, 0
    while i < len(line):
        c = line[i]
        if q:
            out.append(" ")
            if c == "\\" and q != "`":
                out.append(" ")
                i += 1
            elif c == q:
                q = None
        elif c in "\"'`":
            q = c
            out.append(" ")
        elif line.startswith("//", i):
            break
        else:
            out.append(c)
        i += 1
    return "".join(out)


def gen(nper, seed):
    rnd = random.Random(seed)
    res = []
    only = os.environ.get("MECH_FILES", "").split()
    for f in FILES:
        if only and f not in only:
            continue
        path = os.path.join("/repo", f)
        if not os.path.exists(path):
            continue
        lines = open(path).read().split("\n")
        cands, incomment = [], False
        for ln, line in enumerate(lines):
            s = line.strip()
            if s.startswith("/*"):
                incomment = True
            if incomment:
                if "*/" in s:
                    incomment = False
                continue
            if not s or s.startswith("//") or s.startswith("import") or s.startswith("package") or "_log." in s or s.startswith("case Type") or s.startswith("\""):
                continue
            code = strip_strings(line)
            for oi, (pat, reps) in enumerate(OPS):
                for m in re.finditer(pat, code):
                    for r in reps:
                        if r in ("+1", "-1"):
                            v = int(m.group(1))
                            if v > 64 and v not in (255, 256, 251, 252, 253, 254):
                                continue
                            nv = v + (1 if r == "+1" else -1)
                            if nv < 0:
                                continue
                            new = line[:m.start()] + str(nv) + line[m.end():]
                        else:
                            new = line[:m.start()] + r + line[m.end():]
                        cands.append({"file": f, "line": ln + 1, "old": line, "new": new, "op": oi})
        rnd.shuffle(cands)
        seen, pick = set(), []
        for c in cands:
            if (c["line"]) in seen:
                continue
            seen.add(c["line"])
            pick.append(c)
            if len(pick) >= nper:
                break
        res.extend(pick)
    for i, c in enumerate(res):
        c["id"] = i
    json.dump(res, sys.stdout, indent=0)


def sh(cmd, cwd=None, env=ENV, timeout=1800):
    try:
        p = subprocess.run(cmd, shell=True, cwd=cwd, env=env, stdout=subprocess.PIPE, stderr=subprocess.STDOUT, text=True, errors="replace", timeout=timeout)
        return p.returncode, p.stdout
    except subprocess.TimeoutExpired:
        return 124, "timeout"


def run(listf, idx, n, outdir, vdir):
    muts = [m for m in json.load(open(listf)) if m["id"] % n == idx]
    wt = f"/tmp/mm.w{idx}"
    sh(f"git -C /repo worktree remove --force {wt}")
    rc, out = sh(f"git -C /repo worktree add -q --detach {wt} HEAD")
    if rc:
        print(out)
        sys.exit(2)
    os.makedirs(outdir, exist_ok=True)
    try:
        for m in muts:
            of = os.path.join(outdir, f"{m['id']}.json")
            if os.path.exists(of):
                continue
            sh("git checkout -q -- .", cwd=wt)
            path = os.path.join(wt, m["file"])
            lines = open(path).read().split("\n")
            if lines[m["line"] - 1] != m["old"]:
                m["status"] = "stale"
                json.dump(m, open(of, "w"))
                continue
            lines[m["line"] - 1] = m["new"]
            open(path, "w").write("\n".join(lines))
            rc, out = sh("go build ./... 2>&1 && go vet ./... >/dev/null 2>&1; go build ./...", cwd=wt, timeout=300)
            if rc:
                m["status"] = "stillborn"
                json.dump(m, open(of, "w"))
                continue
            rc, out = sh("go test -vet=off -count=1 -timeout 120s ./...", cwd=wt, timeout=600)
            if rc:
                m["status"] = "killed-by-suite"
                json.dump(m, open(of, "w"))
                continue
            m["status"] = "survived"
            m["checks"] = {}
            for p in FILES[m["file"]]:
                rc, out = sh(f"{vdir}/vcheck {p} --tier quick", cwd=vdir, env=dict(ENV, VERIF_REPO=wt, VERIF_DIR=vdir), timeout=3000)
                first = [l[:260] for l in out.splitlines() if l.startswith(("violation detail", "BROKEN", "INCONCLUSIVE", "BUILD-FAILED"))][:1]
                m["checks"][p] = {"exit": rc, "first": first}
                if rc == 1:
                    m["status"] = "killed-by-check"
                    m["killed_by"] = p
                    break
                if rc != 0:
                    m["status"] = "not-clean"
                    m["killed_by"] = p
                    break
            json.dump(m, open(of, "w"))
    finally:
        sh(f"git -C /repo worktree remove --force {wt}")


if __name__ == "__main__":
    if sys.argv[1] == "gen":
        gen(int(sys.argv[2]), int(sys.argv[3]))
    else:
        run(sys.argv[2], int(sys.argv[3]), int(sys.argv[4]), sys.argv[5], sys.argv[6] if len(sys.argv) > 6 else "/verif")
