#!/bin/bash
# applycheck.sh [ids...]: the prescribed way of running the checks against a kept
# seeded change: git -C /repo apply <patch>, run the property's own quick check
# (and, when that one is not among the checks that fire, the first that does),
# undo with git -C /repo checkout -- . ; results go to seeded/<id>/applied.txt.
# Run it only when nothing else (vp run, agents, sweeps) is using /repo.
cd /verif
# APPLYCHECK_VERIF=<dir>: run the checks from a frozen copy of /verif (git archive HEAD | tar -x -C <dir>)
# so that /verif can be edited meanwhile; applied.txt is still written under /verif/seeded.
VD=${APPLYCHECK_VERIF:-/verif}
ids="$@"; [ -z "$ids" ] && ids=$(ls seeded | grep -v '^\.' )
for id in $ids; do
  d=seeded/$id; [ -f $d/patch.diff ] || continue
  if ! git -C /repo diff --quiet; then echo "/repo is dirty, refusing"; exit 2; fi
  prop=$(python3 -c "import json;print(json.load(open('$d/meta.json'))['property'])")
  fire=$(python3 -c "import json;m=json.load(open('$d/meta.json'));f=m.get('quick_checks_that_fire') or [];print(m['property'] if m['property'] in f or not f else f[0])")
  if ! git -C /repo apply $PWD/$d/patch.diff 2>/dev/null; then echo "$id patch does not apply to /repo HEAD" | tee $d/applied.txt; continue; fi
  out=$(VERIF_DIR=$VD $VD/vcheck $fire --tier quick 2>&1); rc=$?
  git -C /repo checkout -- .
  if [ -n "$(git -C /repo status --porcelain)" ]; then git -C /repo clean -fdq; fi   # files the patch created
  {
    echo "git -C /repo apply seeded/$id/patch.diff ; ./vcheck $fire --tier quick ; git -C /repo checkout -- ."
    echo "exit=$rc"
    echo "$out" | grep -E "^(property|violation detail|VIOLATION|BROKEN|INCONCLUSIVE)" | cut -c1-300 | head -6
  } > $d/applied.txt
  echo "$id $fire exit=$rc"
done
git -C /repo status --short | head -3
