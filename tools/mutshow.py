#!/usr/bin/env python3
import json,sys
for f in sys.argv[1:]:
    try:
        r=json.load(open(f))
    except Exception as e:
        print(f,'UNREADABLE',e); continue
    print(f, {k:r.get(k) for k in ['demo_clean_passes','applies','suite_passes_with_change','demo_fails_with_change','caught_by','not_clean']})
    for p in r.get('caught_by',[])+r.get('not_clean',[]):
        print('   ',p, r['checks'][p]['exit'], r['checks'][p]['lines'][:2])
