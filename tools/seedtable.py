#!/usr/bin/env python3
"""Prints the markdown table of kept seeded changes (from /verif/seeded/*/meta.json)."""
import json, glob, os
rows = []
for f in sorted(glob.glob('/verif/seeded/*/meta.json')):
    m = json.load(open(f))
    mech = (m.get('mechanism') or m.get('clause_broken') or '').replace('\n', ' ').replace('|', '/')
    if len(mech) > 150: mech = mech[:147] + '…'
    caught = m.get('quick_checks_that_fire') or []
    rows.append((m['id'], m.get('property'), mech, ', '.join(caught) if caught else '—', 'yes' if m.get('target_check_fires') else 'NO'))
print('| id | property | what was changed | quick checks that fire | own check fires |')
print('|---|---|---|---|---|')
for r in rows:
    print('| %s | %s | %s | %s | %s |' % r)
